(* Pipe layer, C12 part 3: back-pressure release / the producer never goes to sleep without a way to be woken.
   [inv_fresh]: jobs run in the order of their ids; wakers stored anywhere belong to jobs that ran before; the waker
   of the running job is live until the job registers it.
   [inv_token]: while the stream exists and poll_fn is Some there is always a "token": a queued or running job, a live
   waker registered with the input or in backpressure_release_notify, or a wake in flight. *)
From stdpp Require Import list numbers option.
From RecordUpdate Require Import RecordUpdate.
From Pipe Require Import Model Base Notify.

Definition started (s : state) : nat := s.(njobs) - length s.(jobq).
Definition bound (s : state) : nat :=
  match s.(running) with
  | Some (j, (JPendStore | JClear)) => S j
  | Some (j, _) => j
  | None => started s
  end.
Definition opt_lt (o : option nat) (b : nat) : Prop := match o with Some k => k < b | None => True end.
Definition wk_lt (w : wk) (b : nat) : Prop := match w with WCall k => k < b | _ => True end.

Lemma opt_lt_mono o b b' : b <= b' -> opt_lt o b -> opt_lt o b'.
Proof. destruct o; cbn; [lia|done]. Qed.
Lemma wk_lt_mono w b b' : b <= b' -> wk_lt w b -> wk_lt w b'.
Proof. destruct w; cbn; try done; lia. Qed.
Lemma wk_lt_of o b : opt_lt o b -> wk_lt (wk_of o) b.
Proof. by destruct o. Qed.
Lemma Forall_lt_mono (l : list nat) b b' : b <= b' -> Forall (fun k => k < b) l -> Forall (fun k => k < b') l.
Proof. intros Hb. apply Forall_impl. intros; lia. Qed.

Ltac fresh_solve :=
  first [ done | lia
        | by (intros ?? [= <- <-]; lia) | by (intros ?? [=])
        | (eapply opt_lt_mono; [|eassumption]; lia)
        | (eapply wk_lt_mono; [|eassumption]; lia)
        | (apply wk_lt_of; eapply opt_lt_mono; [|eassumption]; lia)
        | (eapply Forall_lt_mono; [|eassumption]; lia)
        | (cbn; lia) ].

Section Token.
  Context (F : pfacts) (f : nat -> nat).

  Definition inv_fresh (s : state) : Prop :=
    length s.(jobq) <= s.(njobs) /\
    s.(jobq) = seq (started s) (length s.(jobq)) /\
    (forall j pc, s.(running) = Some (j, pc) -> S j = started s) /\
    opt_lt s.(inp_waker) (bound s) /\ opt_lt s.(nsc) (bound s) /\ opt_lt s.(bp) (bound s) /\
    wk_lt s.(cwk) (bound s) /\ wk_lt s.(ewk) (bound s) /\
    Forall (fun k => k < bound s) s.(wtaken).

  Lemma inv_fresh_init inputs sl ext : inv_fresh (init_slow F inputs sl ext).
  Proof. unfold inv_fresh, started, bound; cbn. split_and!; try done; lia. Qed.

  Lemma step_inv_fresh s a s' : inv_fresh s -> step F f s a = Some s' -> inv_fresh s'.
  Proof.
    intros (H0 & H1 & H2 & P1 & P2 & P3 & P4 & P5 & P6) Hs. step_cases Hs.
    all: unfold inv_fresh, started, bound in *; cbn in *.
    all: try (specialize (H2 _ _ eq_refl)).
    all: bool_hyps.
    all: try (injection H1 as -> Hl).
    all: rewrite ?app_length; cbn [length].
    all: try (replace (S njobs - (length jobq + 1)) with (njobs - length jobq) in * by lia).
    all: split_and!.
    all: try fresh_solve.
    all: try (by apply Forall_cons).
    all: try (replace (njobs - length l) with (S (njobs - S (length l))) by lia; exact Hl).
    all: rewrite Nat.add_1_r, seq_S, <- H1; f_equal; f_equal; lia.
  Qed.

  Lemma reach_inv_fresh inputs sl ext tr s : run F f (init_slow F inputs sl ext) tr = Some s -> inv_fresh s.
  Proof. apply run_invariant_all; [apply inv_fresh_init|apply step_inv_fresh]. Qed.

  (* ---------- tokens ---------- *)
  Definition rtok (s : state) : bool :=
    match s.(running) with Some (_, JPendStore) => false | Some _ => true | None => false end.
  Definition tokens (s : state) : bool :=
    match s.(jobq) with [] => false | _ => true end || rtok s
    || live_opt s s.(inp_waker) || live_opt s s.(bp) || wk_tok s s.(cwk) || wk_tok s s.(ewk).
  Definition inv_token (s : state) : Prop :=
    s.(poll_fn) = true -> dropped s = false -> tokens s = true.

  Lemma inv_token_init inputs sl ext : inv_token (init_slow F inputs sl ext).
  Proof. done. Qed.

  Lemma fresh_live (wt : list nat) b j : Forall (fun k => k < b) wt -> b <= j -> negb (bool_decide (j ∈ wt)) = true.
  Proof.
    intros Hf Hb. apply negb_true_iff, bool_decide_eq_false. intros Hin.
    rewrite Forall_forall in Hf. apply elem_of_list_In in Hin. specialize (Hf _ Hin). lia.
  Qed.

  Lemma step_inv_token s a s' : inv_fresh s -> inv_shape s -> inv_token s -> step F f s a = Some s' -> inv_token s'.
  Proof.
    intros (H0 & H1 & H2 & P1 & P2 & P3 & P4 & P5 & P6) Hsh Ht Hs. step_cases Hs.
    all: unfold inv_token, tokens, rtok, dropped, inv_shape, started, bound in *; cbn in *.
    all: try done.
    all: intros Hp Hd; try discriminate Hd.
    all: try (specialize (Ht Hp)).
    all: try (specialize (Ht eq_refl)).
    all: try (specialize (Ht Hd)).
    all: rewrite ?orb_true_r; try reflexivity.
    all: try match goal with E : _ = Some (?k, _), P6 : Forall _ ?wt |- _ =>
           let Hl := fresh "Hlive" in
           assert (live_in wt k = true) as Hl by (apply (fresh_live _ _ _ P6); lia);
           rewrite Hl, ?orb_true_r; reflexivity end.
    all: try (destruct jobq; cbn; rewrite ?orb_true_r; reflexivity).
    all: clear H0 H1 H2 P1 P2 P3 P4 P5 P6.
    all: subst; cbn in *.
    all: repeat match goal with |- context [wk_of ?o] => destruct o; cbn in * end.
    all: repeat match type of Ht with (_ || _) = true => apply orb_prop in Ht as [Ht|Ht] end; try discriminate Ht.
    all: try (rewrite Ht, ?orb_true_r; reflexivity).
    all: try congruence.
    all: bool_hyps; subst; cbn in *; congruence.
  Qed.

  Lemma reach_inv_token inputs sl ext tr s : run F f (init_slow F inputs sl ext) tr = Some s -> inv_token s.
  Proof.
    intros Hr.
    assert (H : inv_fresh s /\ inv_shape s /\ inv_token s); [|tauto].
    revert tr s Hr. apply run_invariant_all.
    - split_and!; [apply inv_fresh_init|apply inv_shape_init|apply inv_token_init].
    - intros s a s' (H1 & H2 & H3) Hs. split_and!.
      + eapply step_inv_fresh; eauto.
      + eapply step_inv_shape; eauto.
      + eapply step_inv_token; eauto.
  Qed.

  (* C12.3 (a): the producer can always be woken *)
  Theorem backpressure_release inputs sl ext tr s :
    run F f (init_slow F inputs sl ext) tr = Some s ->
    s.(jobq) = [] -> s.(running) = None -> dropped s = false -> s.(poll_fn) = true ->
    live_opt s s.(inp_waker) = true \/ live_opt s s.(bp) = true \/ wk_tok s s.(cwk) = true \/ wk_tok s s.(ewk) = true.
  Proof.
    intros Hr Hq Hrun Hd Hp. pose proof (reach_inv_token _ _ _ _ _ Hr Hp Hd) as Ht.
    unfold tokens, rtok in Ht. rewrite Hq, Hrun in Ht. cbn in Ht.
    repeat match type of Ht with (_ || _) = true => apply orb_prop in Ht as [Ht|Ht] end; auto.
  Qed.

  (* C12.3 (b): every consumer poll that does not end the stream takes backpressure_release_notify, in the same
     critical section in which it pops / registers; the taken waker goes into the consumer's wake slot *)
  Theorem consumer_poll_takes_backpressure s a s' :
    a = ACPoll \/ a = ACProbe ->
    step F f s a = Some s' -> s'.(cst) <> CDone -> s'.(bp) = None /\ s'.(cwk) = wk_of s.(bp).
  Proof.
    intros Ha Hs. assert (Hp : poll_step F s = Some s').
    { destruct Ha as [-> | ->]; cbn in Hs; [destruct (pollable s)|destruct (probe_pollable s)]; done. }
    unfold poll_step in Hp. destruct (pending s); [destruct (closed s)|].
    all: injection Hp as <-; cbn; try done.
  Qed.
End Token.
