(* Pipe layer: concrete runs of the model ([vm_compute] only).  They document typical behaviour, serve as non-vacuity
   witnesses for the theorems, and contain the refutation witness for C16 under the current code. *)
From stdpp Require Import list numbers option.
From RecordUpdate Require Import RecordUpdate.
From Pipe Require Import Model.

Definition f100 (x : nat) : nat := x + 100.
Definition F_depth1 : pfacts := {| f_pending_recheck := false; f_default_depth := 1; f_poll_next_replaces_waker := true; f_drop_wakes_before_dispose := true |}.
Definition F_depth1_repaired : pfacts := {| f_pending_recheck := true; f_default_depth := 1; f_poll_next_replaces_waker := true; f_drop_wakes_before_dispose := true |}.

(* run several greedy phases, each with its own priority list, each until nothing in the list is enabled *)
Fixpoint phases (F : pfacts) (ps : list (list actor)) (s : state) : state * list actor :=
  match ps with
  | [] => (s, [])
  | p :: ps => let '(s1, t1) := greedy F f100 p 300 s in let '(s2, t2) := phases F ps s1 in (s2, t1 ++ t2)
  end.
Definition everyone : list actor := [AProd; ACons; ACPoll; AEnv; AItem; AEnd; ADispose; AExtDrop; AExtSync].
Definition env_first : list actor := [AItem; AEnd; AEnv; AProd; ACons; ACPoll; ADispose; AExtDrop; AExtSync].
Definition no_input_events : list actor := [AProd; ACons; AEnv; ADispose; AExtDrop; AExtSync].

(* what we look at *)
Record view := { v_delivered : list nat; v_pending : list nat; v_end : bool; v_closed : bool; v_poll_fn : bool;
                 v_strong : bool; v_cst : cpc; v_wakers : option nat * option nat * option nat (* input, nsc, bp *);
                 v_wtaken : list nat; v_released : bool }.
Definition view_of (s : state) : view :=
  {| v_delivered := s.(delivered); v_pending := s.(pending); v_end := s.(got_end); v_closed := s.(closed);
     v_poll_fn := s.(poll_fn); v_strong := s.(strong_held); v_cst := s.(cst);
     v_wakers := (s.(inp_waker), s.(nsc), s.(bp)); v_wtaken := s.(wtaken); v_released := released s |}.

(* ---------- 1. three items, depth 5 ---------- *)
(* (a) consumer and producer eager, input slow: every item is woken through the input's waker *)
Example three_items_slow_input :
  let '(s, tr) := phases facts_unrepaired [everyone] (init facts_unrepaired [1;2;3] true) in
  (s.(delivered), s.(got_end), s.(cst), terminalb facts_unrepaired f100 s, length tr) = ([101;102;103], true, CDone, true, 79).
Proof. vm_compute. reflexivity. Qed.
(* (b) all input available (and ended) before the first poll job runs: one job does everything *)
Example three_items_fast_input :
  let '(s, tr) := phases facts_unrepaired [env_first] (init facts_unrepaired [1;2;3] true) in
  (s.(delivered), s.(got_end), s.(cst), terminalb facts_unrepaired f100 s, s.(njobs)) = ([101;102;103], true, CDone, true, 1).
Proof. vm_compute. reflexivity. Qed.

(* ---------- 2. depth 1: back-pressure ---------- *)
(* the consumer sleeps while the producer and the input run: job 1 pushes one item, job 2 finds the buffer full and
   parks its waker (2) in backpressure_release_notify; the remaining items stay in the input *)
Example backpressure_throttles :
  let '(s, tr) := phases F_depth1 [[AProd; AEnv; AItem; AEnd]] (init F_depth1 [1;2;3;4] true) in
  (s.(pending), s.(bp), s.(inp_waker), s.(inp_avail), s.(running), s.(jobq)) = ([101], Some 2, None, 3, None, []).
Proof. vm_compute. reflexivity. Qed.
(* then the consumer wakes up: its first poll takes the back-pressure waker and wakes the producer; note that the job
   started that way pushes ALL remaining items (the depth is only tested at the start of a poll job, l.316) *)
Example backpressure_released :
  let '(s, tr) := phases F_depth1 [[AProd; AEnv; AItem; AEnd]; everyone] (init F_depth1 [1;2;3;4] true) in
  (s.(delivered), s.(got_end), s.(cst), terminalb F_depth1 f100 s) = ([101;102;103;104], true, CDone, true).
Proof. vm_compute. reflexivity. Qed.

(* depth 0 (set_backpressure_depth(0), or a constant of 0) is degenerate: `pending.len() >= 0` always holds, every poll
   job parks itself at once and nothing is ever read; this is why C12.4 asks for depth >= 1 *)
Definition F_depth0 : pfacts := {| f_pending_recheck := false; f_default_depth := 0; f_poll_next_replaces_waker := true; f_drop_wakes_before_dispose := true |}.
Example depth0_never_reads :
  let '(s, tr) := phases F_depth0 [everyone] (init F_depth0 [1;2] false) in
  (s.(delivered), s.(taken), s.(cst), s.(bp), terminalb F_depth0 f100 s) = ([], [], CPend, Some 1, true).
Proof. vm_compute. reflexivity. Qed.

(* ---------- 3. dropping the stream (current code) ---------- *)
(* (a) while the producer is idle and registered with the input: the drop wakes notify_stream_closed, job 1 finds the
   core gone/closed, returns false, poll_fn := None *)
Example drop_while_idle :
  let '(s, tr) := phases facts_unrepaired [[AProd]; [ACDrop]; no_input_events] (init facts_unrepaired [1;2;3] false) in
  (s.(poll_fn), s.(strong_held), s.(cst), released s, terminal_silentb facts_unrepaired f100 s) = (false, false, CGone, true, true).
Proof. vm_compute. reflexivity. Qed.
(* (b) while the producer is throttled: poll_fn stays Some - nobody calls the poll function again - but nothing
   references the PipeContext any more once the core is gone (the only live waker, 2, was in the core) *)
Example drop_while_throttled :
  let '(s, tr) := phases F_depth1 [[AProd; AEnv]; [AItem]; [AProd; AEnv]; [AItem]; [AProd; AEnv]; [ACDrop]; no_input_events]
                    (init F_depth1 [1;2;3;4] false) in
  (s.(poll_fn), s.(strong_held), s.(cst), s.(bp), s.(inp_waker), released s, terminal_silentb F_depth1 f100 s)
  = (true, false, CGone, Some 2, None, true, true).
Proof. vm_compute. reflexivity. Qed.
(* the same with the repaired Pending arm: "poll_fn = None" is not what C16 can promise *)
Example drop_while_throttled_repaired :
  let '(s, tr) := phases F_depth1_repaired [[AProd; AEnv]; [AItem]; [AProd; AEnv]; [AItem]; [AProd; AEnv]; [ACDrop]; no_input_events]
                    (init F_depth1_repaired [1;2;3;4] false) in
  (s.(poll_fn), s.(strong_held), s.(cst), released s, terminal_silentb F_depth1_repaired f100 s)
  = (true, false, CGone, true, true).
Proof. vm_compute. reflexivity. Qed.

(* ---------- 4. C16 refutation witness for the current code (F4) ---------- *)
(* Input open and silent (one item that never becomes available), nobody else owns the Desync.
     AProd   start poll job 0 (the initial PipeContext::poll, l.392)
     AProd   l.137-142  lock poll_fn, call it; l.304 stream_core.upgrade() succeeds
     AProd   l.311-326  buffer not full; reads closed = false
     AProd   l.338      notify_stream_closed := None
     AProd   l.341-344  input.poll_next -> Pending; the input now holds job 0's PipeWaker
     ACDrop  l.465-474  drop(stream): pending cleared, closed := true, notify_stream_closed.take() = None: nothing to wake
     ACons   l.477-481  on_drop handed to REFERENCE_CHUTE; core lock released
     ACons              the PipeStream's Arc<core> is dropped
     ADispose l.295     output_desync.take(): the pipe's Arc<Desync> is dropped; it was the last one: Desync::drop starts its
                        final sync on the disposal queue and waits for the poll job
     AProd   l.349      notify_stream_closed := Some(waker) - into a core nobody will ever look at again; return true
     ADispose           the final sync completes: the object is freed
   Terminal with a silent input: poll_fn is still Some and the input holds a live waker: the cycle
   input -> PipeWaker -> PipeContext -> poll_fn -> input is never broken. *)
Definition c16_witness_core : list actor :=
  [AProd; AProd; AProd; AProd; AProd; ACDrop; ACons; ACons; ADispose; AProd].
Definition c16_witness : list actor := c16_witness_core ++ [ADispose].
Example c16_witness_leaks :
  match run facts_unrepaired f100 (init facts_unrepaired [1] false) c16_witness with
  | Some s => (dropped s, terminal_silentb facts_unrepaired f100 s, s.(strong_held), s.(poll_fn), s.(inp_waker),
               is_live s 0, s.(nsc), released s, s.(freed))
              = (true, true, false, true, Some 0, true, Some 0, false, 1)
  | None => False
  end.
Proof. vm_compute. reflexivity. Qed.
(* the drop may also land right after the `closed` test (before l.338) *)
Definition c16_witness_early : list actor :=
  [AProd; AProd; AProd; ACDrop; ACons; ACons; ADispose; AProd; AProd; AProd; ADispose].
Example c16_witness_early_leaks :
  match run facts_unrepaired f100 (init facts_unrepaired [1] false) c16_witness_early with
  | Some s => (dropped s, terminal_silentb facts_unrepaired f100 s, s.(poll_fn), released s) = (true, true, true, false)
  | None => False
  end.
Proof. vm_compute. reflexivity. Qed.
(* with the repaired Pending arm the same schedule continues with l.148 and releases everything *)
Example c16_witness_repaired :
  match run facts_repaired f100 (init facts_repaired [1] false) (c16_witness_core ++ [AProd; ADispose]) with
  | Some s => (dropped s, terminal_silentb facts_repaired f100 s, s.(strong_held), s.(poll_fn), released s)
              = (true, true, false, false, true)
  | None => False
  end.
Proof. vm_compute. reflexivity. Qed.

(* ---------- 5. labels ---------- *)
Example labels_of_witness :
  (fix go (s : state) (tr : list actor) : list (option label) :=
     match tr with
     | [] => []
     | a :: tr => step_label facts_unrepaired f100 s a ::
                  match step facts_unrepaired f100 s a with Some s' => go s' tr | None => [] end
     end) (init facts_unrepaired [1] false) c16_witness
  = [Some LNone; Some LPollFn; Some LStream; Some LStream; Some LInput; Some LStream; Some LNone; Some LNone; Some LNone;
     Some LStream; Some LNone].
Proof. vm_compute. reflexivity. Qed.

(* ---------- 6. spurious polls and the stale waker (C12.2 refutation witness for a poll_next that does not replace) ---------- *)
(* Mutant: poll_next stores the waker only `if core.notify.is_none()`.
     AProd x6   poll job 0: ... input Pending, notify_stream_closed := waker 0, return true
     ACPoll     a probe (now_or_never / select! style): Pending, throw-away waker 0 stored in `notify`
     ACons      return Pending
     ACProbe    the real poll, waker 1 - NOT stored (notify is Some): `notify` keeps the stale waker 0
     ACons      return Pending: the consumer now sleeps on waker 1
     AItem, AEnv x3   an item arrives; the input's waker is called; poll job 1 queued
     AProd x11  job 1: takes the item, pushes f(1), takes `notify` = waker 0 and calls it (nobody listens), input Pending
     AEnd, AEnv x3, AProd x8   the input ends; job 2 sets closed, `notify` is None, poll_fn := None
   Terminal: the consumer sleeps on waker 1, which nobody holds; pending = [101], closed = true. *)
Definition stale_waker_trace : list actor :=
  replicate 6 AProd ++ [ACPoll; ACons; ACProbe; ACons; AItem; AEnv; AEnv; AEnv] ++ replicate 11 AProd ++ [AEnd; AEnv; AEnv; AEnv]
  ++ replicate 8 AProd.
Example stale_waker_consumer_sleeps :
  match run facts_stale_waker f100 (init facts_stale_waker [1] true) stale_waker_trace with
  | Some s => (s.(cst), s.(cwoken), cons_wake_inflight s, s.(pending), s.(closed), s.(delivered), s.(clatest),
               terminalb facts_stale_waker f100 s)
              = (CPend, false, false, [101], true, [], 1, true)
  | None => False
  end.
Proof. vm_compute. reflexivity. Qed.
(* the code as it is (the waker is replaced): the same schedule wakes waker 1, the consumer is pollable, not terminal *)
Example stale_waker_trace_with_replace :
  match run facts_repaired f100 (init facts_repaired [1] true) stale_waker_trace with
  | Some s => (s.(cst), s.(cwoken), s.(pending), terminalb facts_repaired f100 s) = (CPend, true, [101], false)
  | None => False
  end.
Proof. vm_compute. reflexivity. Qed.
(* a spurious poll while waiting may also find an item: the in-flight wake of the older waker is then a no-op *)
Example probe_finds_item :
  match run facts_repaired f100 (init facts_repaired [1;2] true)
          (replicate 6 AProd ++ [ACPoll; ACons; AItem; AEnv; AEnv; AEnv] ++ replicate 7 AProd ++ [ACProbe; ACons; ACPoll; ACons; AProd]) with
  | Some s => (s.(cst), s.(delivered), s.(notify), s.(clatest), s.(cwoken), s.(running)) = (CPend, [101], Some 1, 1, false, Some (1, JLoop))
  | None => False
  end.
Proof. vm_compute. reflexivity. Qed.

(* ---------- 7. slow items: the processing future returns Pending once in the middle of an item ---------- *)
Example slow_items_complete :
  let '(s, tr) := phases facts_repaired [everyone] (init_slow facts_repaired [1;2;3] [2;3] true) in
  (s.(delivered), s.(got_end), s.(cst), terminalb facts_repaired f100 s) = ([101;102;103], true, CDone, true).
Proof. vm_compute. reflexivity. Qed.
(* the consumer polls while item 1 is suspended (its output is not yet pushed): Pending; the job's push then wakes it *)
Example poll_while_item_suspended :
  match run facts_repaired f100 (init_slow facts_repaired [1] [1] true)
          ([AItem] ++ replicate 6 AProd ++ [ACPoll; ACons] ++ replicate 2 AProd) with
  | Some s => (s.(running), s.(pending), s.(cst), s.(cwoken), job_inflight s f100, cons_wake_inflight s)
              = (Some (0, JWake (Some 0) KLoop), [101], CPend, false, [], true)
  | None => False
  end.
Proof. vm_compute. reflexivity. Qed.
(* the drop lands while an item is suspended: the job resumes, pushes into the dead core, sees closed in the Pending arm and
   shuts the pipe down *)
Example drop_while_item_suspended :
  let '(s, tr) := phases facts_repaired [no_input_events]
                    (match run facts_repaired f100 (init_slow facts_repaired [1] [1] false) ([AItem] ++ replicate 6 AProd ++ [ACDrop]) with
                     | Some s => s | None => init facts_repaired [] false end) in
  (s.(poll_fn), s.(strong_held), s.(cst), s.(freed), released s, terminal_silentb facts_repaired f100 s, s.(taken))
  = (false, false, CGone, 1, true, true, [1]).
Proof. vm_compute. reflexivity. Qed.

(* ---------- 8. the pipe holds the LAST strong reference when the stream is dropped ---------- *)
(* the code's order: wake notify_stream_closed, then hand on_drop to the disposal queue.  The on_drop job drops the last
   Arc<Desync>: Desync::drop runs on the disposal queue and waits for the closing poll job; the object is freed once *)
Example last_owner_drop_frees_once :
  let '(s, tr) := phases facts_repaired [[AExtDrop]; [AProd]; [ACDrop]; no_input_events] (init facts_repaired [1] true) in
  (s.(cst), s.(freed), s.(strong_held), s.(ext_owner), s.(poll_fn), released s, terminal_silentb facts_repaired f100 s)
  = (CGone, 1, false, false, false, true, true).
Proof. vm_compute. reflexivity. Qed.
(* The swapped order (mutant: on_drop queued first, notify_stream_closed woken afterwards): refutation witness.
     AExtDrop          the caller drops its handle: the pipe's Arc is the only one
     AProd x6          poll job 0: input Pending, notify_stream_closed := waker 0, return true
     ACDrop            Drop::drop: lock the core, closed := true, on_drop handed to REFERENCE_CHUTE, notify_stream_closed taken
     ACons             PipeWaker::wake: context taken (l.170)
     ACons             PipeContext::poll: target.upgrade() succeeds (l.123): the thread holds a temporary Arc<Desync>
     ADispose          the chute runs on_drop: the pipe's Arc is dropped - not the last one, the temporary is alive
     ACons             future_desync queues poll job 1 (l.128); `target` is dropped (l.153): it WAS the last Arc, so
                       Desync::drop runs here, inside Drop for PipeStream, under the core lock; its sync waits for job 1
     AProd x2          poll job 1 starts, locks poll_fn, upgrades the core ...
   ... and blocks on the core lock (l.313).  Nobody can move: the dropping thread waits for the job, the job for the lock. *)
Definition swapped_drop_deadlock : list actor :=
  [AExtDrop] ++ replicate 6 AProd ++ [ACDrop; ACons; ACons; ADispose; ACons; AProd; AProd].
Example swapped_drop_deadlocks :
  match run facts_swapped_drop f100 (init facts_swapped_drop [1] true) swapped_drop_deadlock with
  | Some s => (s.(cst), core_locked s, s.(cwk), s.(running), s.(freed), s.(ext_owner), terminal_silentb facts_swapped_drop f100 s)
              = (CDrop1, true, WSync, Some (1, JFull), 0, false, true)
  | None => False
  end.
Proof. vm_compute. reflexivity. Qed.
(* with the code's order the chute cannot interfere: on_drop is not yet queued while the waker is called *)
Example swapped_drop_schedule_impossible_with_code_order :
  run facts_repaired f100 (init facts_repaired [1] true) (firstn 11 swapped_drop_deadlock) = None.
Proof. vm_compute. reflexivity. Qed.
