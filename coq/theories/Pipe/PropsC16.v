(* C16 - "dropping the output stream shuts the pipe down" (Pipe layer).
   Proved for every set of facts with [f_pending_recheck = true] (the repair of the Pending arm) and
   [f_drop_wakes_before_dispose = true] (Drop for PipeStream wakes notify_stream_closed before it hands on_drop to the
   disposal queue); refuted by concrete schedules when either fact is false.  Slow items ([init_slow]) included: the drop
   may land while an item is suspended. *)
From stdpp Require Import list numbers option.
From Pipe Require Import Model Base Drop Scenarios Refute.

(* [released s]: poll_fn is None, or nothing references the PipeContext any more (see Model.ctx_referenced and the note
   at the top of Drop.v: with the drop landing on a throttled producer poll_fn is never set to None, the input stream
   and the closure are freed by reference counting instead). *)
Theorem C16_drop_shuts_down :
  forall (F : pfacts) (f : nat -> nat), F.(f_pending_recheck) = true -> F.(f_drop_wakes_before_dispose) = true ->
  forall inputs sl ext tr s,
    run F f (init_slow F inputs sl ext) tr = Some s ->
    dropped s = true -> terminal_silent F f s ->
    s.(strong_held) = false /\ released s = true /\ s.(cst) = CGone.
Proof. exact drop_shuts_down. Qed.
Print Assumptions C16_drop_shuts_down.

Theorem C16_holds_with_recheck :
  forall F, F.(f_pending_recheck) = true -> F.(f_drop_wakes_before_dispose) = true -> C16_statement F.
Proof. exact C16_holds_with_recheck. Qed.
Print Assumptions C16_holds_with_recheck.

(* C16, the pipe as LAST owner of the Desync (the caller dropped its handle before dropping the stream): in every terminal
   state after the drop, with a silent input and no other owner, the object has been freed - exactly once, see
   C16_freed_at_most_once - nobody is left inside Desync::drop ([syncers s = 0]), no strong reference exists, and the
   stream-core lock is free: the thread in Drop::drop has left its critical section ([cst s = CGone]), i.e. there is no
   deadlock between PipeStream::drop and the final sync of Desync::drop. *)
Theorem C16_last_owner_drop :
  forall (F : pfacts) (f : nat -> nat), F.(f_pending_recheck) = true -> F.(f_drop_wakes_before_dispose) = true ->
  forall inputs sl ext tr s,
    run F f (init_slow F inputs sl ext) tr = Some s ->
    dropped s = true -> terminal_silent F f s -> s.(ext_owner) = false ->
    s.(freed) = 1 /\ s.(cst) = CGone /\ core_locked s = false /\ syncers s = 0 /\ desync_alive s = false.
Proof. exact last_owner_drop. Qed.
Print Assumptions C16_last_owner_drop.

(* for ALL facts: the object is never freed twice *)
Theorem C16_freed_at_most_once :
  forall (F : pfacts) (f : nat -> nat) inputs sl ext tr s,
    run F f (init_slow F inputs sl ext) tr = Some s -> s.(freed) <= 1.
Proof. exact freed_at_most_once. Qed.
Print Assumptions C16_freed_at_most_once.

Example C16_last_owner_drop_nonvacuous :
  let '(s, tr) := phases facts_repaired [[AExtDrop]; [AProd]; [ACDrop]; no_input_events] (init facts_repaired [1] true) in
  run facts_repaired f100 (init facts_repaired [1] true) tr = Some s /\
  dropped s = true /\ terminal_silentb facts_repaired f100 s = true /\ s.(ext_owner) = false /\ s.(freed) = 1.
Proof. vm_compute. split_and!; reflexivity. Qed.

(* The swapped order (on_drop queued BEFORE notify_stream_closed is woken) is refuted by Scenarios.swapped_drop_deadlock =
     [AExtDrop; AProd x6; ACDrop; ACons; ACons; ADispose; ACons; AProd; AProd]:
   the chute drops the pipe's Arc between target.upgrade() and the end of PipeContext::poll, the temporary Arc becomes the last
   one, Desync::drop runs its sync inside the poll while Drop::drop holds the core lock, and the closing poll job blocks on
   that lock. *)
Theorem C16_last_owner_drop_refuted : ~ C16_last_owner_statement facts_swapped_drop.
Proof. exact C16_last_owner_refuted_swapped. Qed.
Print Assumptions C16_last_owner_drop_refuted.
Theorem C16_last_owner_drop_refuted_detail :
  exists s, run facts_swapped_drop f100 (init facts_swapped_drop [1] true) swapped_drop_deadlock = Some s /\
            dropped s = true /\ terminal_silent facts_swapped_drop f100 s /\ s.(ext_owner) = false /\
            s.(cst) = CDrop1 /\ core_locked s = true /\ s.(cwk) = WSync /\ s.(running) = Some (1, JFull) /\
            s.(freed) = 0.
Proof. exact swapped_drop_state. Qed.
Print Assumptions C16_last_owner_drop_refuted_detail.

(* the hypotheses are satisfiable: Scenarios.c16_witness continued under the repaired facts *)
Example C16_drop_shuts_down_nonvacuous :
  match run facts_repaired f100 (init facts_repaired [1] false) (c16_witness_core ++ [AProd; ADispose]) with
  | Some s => dropped s = true /\ terminal_silentb facts_repaired f100 s = true
  | None => False
  end.
Proof. vm_compute. split; reflexivity. Qed.
Check terminal_silentb_sound : forall F f s, terminal_silentb F f s = true -> terminal_silent F f s.

(* The current code: refuted by Scenarios.c16_witness =
     [AProd; AProd; AProd; AProd; AProd; ACDrop; ACons; ACons; ADispose; AProd; ADispose]
   (the drop lands after the job's `closed` test and `notify_stream_closed = None`, before the Pending arm stores the
   waker; see the line-by-line translation in Scenarios.v). *)
Theorem C16_refuted : ~ C16_statement facts_unrepaired.
Proof. exact C16_refuted_now. Qed.
Print Assumptions C16_refuted.

Theorem C16_refuted_detail :
  exists s, run facts_unrepaired f100 (init facts_unrepaired [1] false) c16_witness = Some s /\
            dropped s = true /\ terminal_silent facts_unrepaired f100 s /\
            s.(strong_held) = false /\ s.(poll_fn) = true /\ s.(inp_waker) = Some 0 /\ is_live s 0 = true /\
            released s = false.
Proof. exact C16_refuted_now_detail. Qed.
Print Assumptions C16_refuted_detail.

(* The literal reading "poll_fn = None in every such terminal state" fails even for the repaired code (throttled
   producer, see Scenarios.drop_while_throttled_repaired). *)
Theorem C16_literal_refuted : ~ C16_literal F_depth1_repaired.
Proof. exact C16_literal_refuted_even_when_repaired. Qed.
Print Assumptions C16_literal_refuted.
