(* C16 - "dropping the output stream shuts the pipe down" (Pipe layer).
   Proved for every set of facts with [f_pending_recheck = true] (the intended repair of the Pending arm);
   refuted for the current code by a concrete schedule. *)
From stdpp Require Import list numbers option.
From Pipe Require Import Model Base Drop Scenarios Refute.

(* [released s]: poll_fn is None, or nothing references the PipeContext any more (see Model.ctx_referenced and the note
   at the top of Drop.v: with the drop landing on a throttled producer poll_fn is never set to None, the input stream
   and the closure are freed by reference counting instead). *)
Theorem C16_drop_shuts_down :
  forall (F : pfacts) (f : nat -> nat), F.(f_pending_recheck) = true ->
  forall inputs ext tr s,
    run F f (init F inputs ext) tr = Some s ->
    dropped s = true -> terminal_silent F f s ->
    s.(strong_held) = false /\ released s = true /\ s.(cst) = CGone.
Proof. exact drop_shuts_down. Qed.
Print Assumptions C16_drop_shuts_down.

Theorem C16_holds_with_recheck : forall F, F.(f_pending_recheck) = true -> C16_statement F.
Proof. exact C16_holds_with_recheck. Qed.
Print Assumptions C16_holds_with_recheck.

(* the hypotheses are satisfiable: Scenarios.c16_witness continued under the repaired facts *)
Example C16_drop_shuts_down_nonvacuous :
  match run facts_repaired f100 (init facts_repaired [1] false) (c16_witness ++ [AProd]) with
  | Some s => dropped s = true /\ terminal_silentb facts_repaired f100 s = true
  | None => False
  end.
Proof. vm_compute. split; reflexivity. Qed.
Check terminal_silentb_sound : forall F f s, terminal_silentb F f s = true -> terminal_silent F f s.

(* The current code: refuted by Scenarios.c16_witness =
     [AProd; AProd; AProd; AProd; AProd; ACDrop; ACons; ACons; ADispose; AProd]
   (the drop lands after the job's `closed` test and `notify_stream_closed = None`, before the Pending arm stores the
   waker; see the line-by-line translation in Scenarios.v). *)
Theorem C16_refuted : ~ C16_statement facts_unrepaired.
Proof. exact C16_refuted_now. Qed.
Print Assumptions C16_refuted.

Theorem C16_refuted_detail :
  exists s, run facts_unrepaired f100 (init facts_unrepaired [1] false) c16_witness = Some s /\
            dropped s = true /\ terminal_silent facts_unrepaired f100 s /\
            s.(strong_held) = false /\ s.(poll_fn) = true /\ s.(inp_waker) = Some 0 /\ is_live s 0 = true /\
            released s = false.
Proof. exact C16_refuted_now_detail. Qed.
Print Assumptions C16_refuted_detail.

(* The literal reading "poll_fn = None in every such terminal state" fails even for the repaired code (throttled
   producer, see Scenarios.drop_while_throttled_repaired). *)
Theorem C16_literal_refuted : ~ C16_literal F_depth1_repaired.
Proof. exact C16_literal_refuted_even_when_repaired. Qed.
Print Assumptions C16_literal_refuted.
