(* Pipe layer, C16: dropping the output stream shuts the pipe down.
   Proved for [f_pending_recheck F = true] (the intended repair).  For the current code ([facts_unrepaired]) see the
   refutation witness in Scenarios.v / PropsC16.v.

   NOTE on the statement.  "poll_fn = None" is NOT what holds in general, even with the repair: when the drop lands while
   the producer is throttled (its waker sits only in backpressure_release_notify) nobody calls the poll function again,
   and poll_fn stays Some; the input stream and the closure are then released by reference counting when the core (and
   with it the last live waker, hence the last Arc<PipeContext>) is dropped.  The theorem therefore uses
   [released s] = poll_fn is None, or nothing references the PipeContext any more (no queued/running job, no wake in
   flight, no live waker in a core that still exists, and - the cycle - no live waker registered with the input). *)
From stdpp Require Import list numbers option.
From RecordUpdate Require Import RecordUpdate.
From Pipe Require Import Model Base Notify Closed Terminal.

Definition pc_pre (pc : jpc) : bool := match pc with JStart | JFull => true | _ => false end.
(* a live waker registered with the input is also in notify_stream_closed, or the dropping consumer is calling it *)
Definition inp_ok (s : state) : Prop :=
  match s.(inp_waker) with
  | Some j => live_in s.(wtaken) j = true -> s.(nsc) = Some j \/ s.(cwk) = WCall j
  | None => True
  end.
Definition needs_ok (r : option (nat * jpc)) : bool := match r with None => true | Some (_, pc) => pc_pre pc end.
Definition pend_ok (s : state) : Prop :=
  match s.(running) with
  | Some (j', JPendStore) => match s.(inp_waker) with Some j => j = j' | None => True end
  | _ => True
  end.
Definition inv16 (s : state) : Prop :=
  s.(poll_fn) = false \/ ((needs_ok s.(running) = true -> inp_ok s) /\ pend_ok s).

Lemma live_in_cons j wt k : live_in (j :: wt) k = true -> live_in wt k = true /\ k <> j.
Proof.
  unfold live_in. rewrite !negb_true_iff, !bool_decide_eq_false, elem_of_cons. intros H. split; [tauto|]. intros ->. tauto.
Qed.

Section Drop.
  Context (F : pfacts) (f : nat -> nat).
  Context (Hrecheck : F.(f_pending_recheck) = true).

  Definition inv_drop (s : state) : Prop :=
    (dropped s = true -> s.(closed) = true /\ s.(nsc) = None) /\
    inv16 s /\
    (match s.(cst) with
     | CDrop2 | CGone => s.(chute) = ChQueued \/ s.(strong_held) = false
     | CDrop1 => if F.(f_drop_wakes_before_dispose) then True else s.(chute) = ChQueued \/ s.(strong_held) = false
     | _ => True
     end) /\
    (ch_sync s.(chute) = true -> s.(strong_held) = false).

  Lemma inv_drop_init inputs sl ext : inv_drop (init_slow F inputs sl ext).
  Proof. unfold inv_drop, inv16, inp_ok; cbn. split_and!; try done. by right. Qed.

  Lemma step_inv_drop s a s' : inv_shape s -> inv_drop s -> step F f s a = Some s' -> inv_drop s'.
  Proof.
    intros Hsh (D1 & D3 & D4 & D5) Hs. step_cases Hs.
    all: unfold inv_drop, inv16, inp_ok, pend_ok, dropped, inv_shape in *; cbn in *.
    all: rewrite ?Hrecheck in *; cbn in *.
    all: split_and!; try done.
    all: try (by left); try (by right); try tauto.
    all: try sat_solve.
    all: try (destruct D3 as [D3|[D3 D3']]; [by left|right]).
    all: try (split; [|done]).
    all: try tauto.
    all: try (destruct cst; try done; by right).
    all: try (split; [done|destruct running as [[? []]|]; done]).
    all: try (destruct (f_drop_wakes_before_dispose F); first [done | by left | by right | tauto]).
    all: try (destruct cst; try done; destruct (f_drop_wakes_before_dispose F); try done; by right).
    all: try (specialize (D5 eq_refl); destruct cst; try done; destruct (f_drop_wakes_before_dispose F); try done; by right).
    all: intros Hn; try specialize (D3 Hn); destruct inp_waker as [k|]; [|done]; intros Hl.
    all: try (apply live_in_cons in Hl as [Hl Hne]); try specialize (D3 Hl); subst.
    all: try (by left).
    all: destruct D3 as [D3|D3]; subst; cbn; try (by left); try (by right); try discriminate D3.
    all: try (injection D3 as <-; done).
    all: injection D3 as ->; congruence.
  Qed.

  Lemma reach_inv_drop inputs sl ext tr s : run F f (init_slow F inputs sl ext) tr = Some s -> inv_shape s /\ inv_drop s.
  Proof.
    revert tr s. apply run_invariant_all.
    - split; [apply inv_shape_init|apply inv_drop_init].
    - intros s a s' [H1 H2] Hs. split; [eapply step_inv_shape; eauto|eapply step_inv_drop; eauto].
  Qed.

  (* ---------- reference counting of the Arc<Desync>: the object is freed exactly once ---------- *)
  Definition b2n (b : bool) : nat := if b then 1 else 0.
  Definition syncers (s : state) : nat :=
    b2n (is_sync s.(cwk)) + b2n (is_sync s.(ewk)) + b2n (ch_sync s.(chute)) + b2n s.(xsync).
  (* exactly one of: a strong reference exists / one thread is inside Desync::drop / the object has been freed *)
  Definition inv_ref (s : state) : Prop := b2n (desync_alive s) + syncers s + s.(freed) = 1.

  Lemma inv_ref_init inputs sl ext : inv_ref (init_slow F inputs sl ext).
  Proof. unfold inv_ref, syncers, desync_alive; cbn. done. Qed.

  (* on_drop is handed to the disposal queue exactly once, by Drop::drop: before that the chute is idle *)
  Definition inv_chute (s : state) : Prop :=
    match s.(cst) with
    | CDrop2 | CGone => True
    | CDrop1 => if F.(f_drop_wakes_before_dispose) then s.(chute) = ChIdle /\ s.(strong_held) = true else True
    | _ => s.(chute) = ChIdle /\ s.(strong_held) = true
    end /\
    (* while on_drop sits in the disposal queue the pipe's Arc<Desync> exists *)
    (s.(chute) = ChQueued -> s.(strong_held) = true).
  Lemma inv_chute_init inputs sl ext : inv_chute (init_slow F inputs sl ext).
  Proof. done. Qed.
  Lemma step_inv_chute s a s' : inv_chute s -> step F f s a = Some s' -> inv_chute s'.
  Proof.
    intros [H H'] Hs. step_cases Hs.
    all: unfold inv_chute in *; cbn in *.
    all: try (split; [exact H|exact H']); try done.
    all: split; try done; try exact H; try exact H'.
    all: try (destruct (f_drop_wakes_before_dispose F); first [done|tauto]).
    all: try (destruct cst; try done; destruct (f_drop_wakes_before_dispose F); try done; destruct H; done).
  Qed.

  Lemma step_inv_ref s a s' : inv_shape s -> inv_chute s -> inv_ref s -> step F f s a = Some s' -> inv_ref s'.
  Proof.
    intros Hsh [Hch Hq] H Hs. step_cases Hs.
    all: unfold inv_ref, syncers, desync_alive, inv_shape, inv_chute in *; cbn in *.
    all: try exact H.
    all: bool_hyps; subst; cbn in *.
    all: try exact H.
    all: repeat match goal with |- context [wk_of ?o] => destruct o; cbn in * end.
    all: try exact H.
    all: try match goal with E : f_drop_wakes_before_dispose _ = _ |- _ => rewrite E in * end.
    all: try (specialize (Hq eq_refl); subst).
    all: try match type of Hch with _ /\ _ => destruct Hch as [-> ->] end; cbn in *.
    all: try exact H.
    all: revert H.
    all: repeat match goal with
         | |- context [is_enq ?w] => is_var w; destruct w; cbn in *
         | |- context [is_sync ?w] => is_var w; destruct w; cbn in *
         | |- context [ch_sync ?c] => is_var c; destruct c; cbn in *
         end.
    all: try done; try lia.
    all: repeat match goal with
         | |- context [orb ?b _] => is_var b; destruct b; cbn in *
         | |- context [orb _ ?b] => is_var b; destruct b; cbn in *
         | |- context [b2n ?b] => is_var b; destruct b; cbn in *
         end.
    all: try done; try lia; try congruence.
  Qed.

  (* the object is never freed twice *)
  Lemma reach_inv_ref inputs sl ext tr s :
    run F f (init_slow F inputs sl ext) tr = Some s -> inv_shape s /\ inv_chute s /\ inv_ref s.
  Proof.
    revert tr s. apply run_invariant_all.
    - split_and!; [apply inv_shape_init|apply inv_chute_init|apply inv_ref_init].
    - intros s a s' (H1 & H2 & H3) Hs. split_and!;
        [eapply step_inv_shape; eauto|eapply step_inv_chute; eauto|eapply step_inv_ref; eauto].
  Qed.

  Theorem freed_at_most_once inputs sl ext tr s :
    run F f (init_slow F inputs sl ext) tr = Some s -> s.(freed) <= 1.
  Proof. intros Hr. destruct (reach_inv_ref _ _ _ _ _ Hr) as (_ & _ & H). unfold inv_ref in H. lia. Qed.

  (* ---------- with the code's order (wake notify_stream_closed, THEN hand on_drop to the disposal queue) the thread
     inside Drop::drop never becomes the last owner of the Desync: it never runs the final sync under the core lock ---------- *)
  Context (Horder : F.(f_drop_wakes_before_dispose) = true).

  Lemma step_no_sync_in_drop s a s' :
    inv_shape s -> inv_chute s -> is_sync s.(cwk) = false -> step F f s a = Some s' -> is_sync s'.(cwk) = false.
  Proof.
    intros Hsh [Hch _] H Hs. step_cases Hs.
    all: unfold inv_shape, inv_chute in *; cbn in *.
    all: rewrite ?Horder in *.
    all: try exact H; try done.
    all: try (destruct bp; done); try (destruct nsc; done).
    all: bool_hyps; subst.
    all: destruct cst; try done; destruct Hch; congruence.
  Qed.

  Lemma reach_no_sync_in_drop inputs sl ext tr s :
    run F f (init_slow F inputs sl ext) tr = Some s -> is_sync s.(cwk) = false.
  Proof.
    intros Hr. assert (H : inv_shape s /\ inv_chute s /\ is_sync (cwk s) = false); [|tauto].
    revert tr s Hr. apply run_invariant_all.
    - split_and!; [apply inv_shape_init|apply inv_chute_init|done].
    - intros s a s' (H1 & H2 & H3) Hs. split_and!;
        [eapply step_inv_shape; eauto|eapply step_inv_chute; eauto|eapply step_no_sync_in_drop; eauto].
  Qed.

  (* what a terminal state with a silent input looks like after the drop *)
  Lemma terminal_after_drop inputs sl ext tr s :
    run F f (init_slow F inputs sl ext) tr = Some s ->
    dropped s = true -> terminal_silent F f s ->
    s.(cst) = CGone /\ s.(cwk) = WIdle /\ s.(ewk) = WIdle /\ s.(running) = None /\ s.(jobq) = [] /\
    s.(chute) = ChIdle /\ s.(xsync) = false /\ s.(strong_held) = false.
  Proof.
    intros Hr Hd Hterm. destruct (reach_inv_drop _ _ _ _ _ Hr) as (Hsh & D1 & D3 & D4 & D5).
    pose proof (reach_no_sync_in_drop _ _ _ _ _ Hr) as Hns.
    destruct (cons_disabled F f s (Hterm ACons eq_refl eq_refl)) as [[Hcw Hcst]|[Hcw _]]; [|rewrite Hcw in Hns; done].
    assert (Hg : cst s = CGone) by (unfold dropped in Hd; destruct (cst s); done).
    assert (Hlk : core_locked s = false) by (unfold core_locked; rewrite Hg; done).
    destruct (prod_disabled F f s (Hterm AProd eq_refl eq_refl) Hlk) as [Hrun Hq].
    assert (Hdr : drained s = true) by (unfold drained; rewrite Hq, Hrun; done).
    assert (Hew : ewk s = WIdle).
    { destruct (env_disabled F f s (Hterm AEnv eq_refl eq_refl)) as [?|[_ ?]]; [done|congruence]. }
    pose proof (Hterm ADispose eq_refl eq_refl) as Hdis. cbn in Hdis. rewrite Hdr in Hdis.
    pose proof (Hterm AExtSync eq_refl eq_refl) as Hxs. cbn in Hxs. rewrite Hdr in Hxs.
    destruct (chute s) eqn:Ech; try done. rewrite Hg in D4.
    destruct (xsync s) eqn:Ex; [done|].
    split_and!; try done. destruct D4; done.
  Qed.

  (* C16 (repaired Pending arm, the code's order in Drop::drop) *)
  Theorem drop_shuts_down inputs sl ext tr s :
    run F f (init_slow F inputs sl ext) tr = Some s ->
    dropped s = true -> terminal_silent F f s ->
    s.(strong_held) = false /\ released s = true /\ s.(cst) = CGone.
  Proof.
    intros Hr Hd Hterm.
    destruct (terminal_after_drop _ _ _ _ _ Hr Hd Hterm) as (Hg & Hcw & Hew & Hrun & Hq & _ & _ & Hsh').
    destruct (reach_inv_drop _ _ _ _ _ Hr) as (Hsh & D1 & D3 & D4 & D5).
    split_and!; [done| |done].
    unfold released, ctx_referenced, core_gone, wk_tok, live_opt. rewrite Hq, Hrun, Hcw, Hew, Hg. cbn.
    destruct (poll_fn s) eqn:Ep; [cbn|done].
    destruct D3 as [D3|[D3 _]]; [congruence|]. rewrite Hrun in D3. specialize (D3 eq_refl). unfold inp_ok in D3.
    destruct (inp_waker s) as [k|]; [cbn|done].
    destruct (live_in (wtaken s) k) eqn:El; [|done].
    destruct (D1 Hd) as [_ Hnsc]. destruct (D3 eq_refl) as [H|H]; congruence.
  Qed.

  (* C16, the pipe as last owner: once nobody else owns the Desync, every terminal state after the drop has freed the object
     (exactly once, see freed_at_most_once), nobody is left inside Desync::drop, and the core lock is free ([cst = CGone];
     the dropping thread is not blocked inside its critical section) *)
  Theorem last_owner_drop inputs sl ext tr s :
    run F f (init_slow F inputs sl ext) tr = Some s ->
    dropped s = true -> terminal_silent F f s -> s.(ext_owner) = false ->
    s.(freed) = 1 /\ s.(cst) = CGone /\ core_locked s = false /\ syncers s = 0 /\ desync_alive s = false.
  Proof.
    intros Hr Hd Hterm Hext.
    destruct (terminal_after_drop _ _ _ _ _ Hr Hd Hterm) as (Hg & Hcw & Hew & Hrun & Hq & Hch & Hx & Hsh').
    destruct (reach_inv_ref _ _ _ _ _ Hr) as (_ & _ & Href).
    unfold inv_ref, syncers, desync_alive, core_locked in *.
    rewrite Hcw, Hew, Hch, Hx, Hsh', Hext, Hg in *. cbn in *. split_and!; try done; lia.
  Qed.
End Drop.
