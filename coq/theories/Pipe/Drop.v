(* Pipe layer, C16: dropping the output stream shuts the pipe down.
   Proved for [f_pending_recheck F = true] (the intended repair).  For the current code ([facts_now]) see the
   refutation witness in Scenarios.v / PropsC16.v.

   NOTE on the statement.  "poll_fn = None" is NOT what holds in general, even with the repair: when the drop lands while
   the producer is throttled (its waker sits only in backpressure_release_notify) nobody calls the poll function again,
   and poll_fn stays Some; the input stream and the closure are then released by reference counting when the core (and
   with it the last live waker, hence the last Arc<PipeContext>) is dropped.  The theorem therefore uses
   [released s] = poll_fn is None, or nothing references the PipeContext any more (no queued/running job, no wake in
   flight, no live waker in a core that still exists, and - the cycle - no live waker registered with the input). *)
From stdpp Require Import list numbers option.
From RecordUpdate Require Import RecordUpdate.
From Pipe Require Import Model Base Notify Terminal.

Definition pc_pre (pc : jpc) : bool := match pc with JStart | JFull => true | _ => false end.
(* a live waker registered with the input is also in notify_stream_closed, or the dropping consumer is calling it *)
Definition inp_ok (s : state) : Prop :=
  match s.(inp_waker) with
  | Some j => live_in s.(wtaken) j = true -> s.(nsc) = Some j \/ s.(cwk) = WCall j
  | None => True
  end.
Definition inv16 (s : state) : Prop :=
  s.(poll_fn) = false \/
  match s.(running) with
  | None => inp_ok s
  | Some (j', pc) =>
      if pc_pre pc then inp_ok s
      else match pc with
           | JPendStore => match s.(inp_waker) with Some j => j = j' | None => True end
           | _ => True
           end
  end.

Lemma live_in_cons j wt k : live_in (j :: wt) k = true -> live_in wt k = true /\ k <> j.
Proof.
  unfold live_in. rewrite !negb_true_iff, !bool_decide_eq_false, elem_of_cons. intros H. split; [tauto|]. intros ->. tauto.
Qed.

Section Drop.
  Context (F : pfacts) (f : nat -> nat).
  Context (Hrecheck : F.(f_pending_recheck) = true).

  Definition inv_drop (s : state) : Prop :=
    (dropped s = true -> s.(closed) = true /\ s.(nsc) = None) /\
    inv16 s /\
    (match s.(cst) with CDrop2 | CGone => s.(chute) = true \/ s.(strong_held) = false | _ => True end).

  Lemma inv_drop_init inputs ext : inv_drop (init F inputs ext).
  Proof. unfold inv_drop, inv16, inp_ok; cbn. split_and!; try done. by right. Qed.

  Lemma step_inv_drop s a s' : inv_shape s -> inv_drop s -> step F f s a = Some s' -> inv_drop s'.
  Proof.
    intros Hsh (D1 & D3 & D4) Hs. step_cases Hs.
    all: unfold inv_drop, inv16, inp_ok, dropped, inv_shape in *; cbn in *.
    all: rewrite ?Hrecheck in *; cbn in *.
    all: split_and!; try done.
    all: try (by left); try (by right); try tauto.
    Show.
  Admitted.
End Drop.
