(* Pipe layer, C16: dropping the output stream shuts the pipe down.
   Proved for [f_pending_recheck F = true] (the intended repair).  For the current code ([facts_unrepaired]) see the
   refutation witness in Scenarios.v / PropsC16.v.

   NOTE on the statement.  "poll_fn = None" is NOT what holds in general, even with the repair: when the drop lands while
   the producer is throttled (its waker sits only in backpressure_release_notify) nobody calls the poll function again,
   and poll_fn stays Some; the input stream and the closure are then released by reference counting when the core (and
   with it the last live waker, hence the last Arc<PipeContext>) is dropped.  The theorem therefore uses
   [released s] = poll_fn is None, or nothing references the PipeContext any more (no queued/running job, no wake in
   flight, no live waker in a core that still exists, and - the cycle - no live waker registered with the input). *)
From stdpp Require Import list numbers option.
From RecordUpdate Require Import RecordUpdate.
From Pipe Require Import Model Base Notify Terminal.

Definition pc_pre (pc : jpc) : bool := match pc with JStart | JFull => true | _ => false end.
(* a live waker registered with the input is also in notify_stream_closed, or the dropping consumer is calling it *)
Definition inp_ok (s : state) : Prop :=
  match s.(inp_waker) with
  | Some j => live_in s.(wtaken) j = true -> s.(nsc) = Some j \/ s.(cwk) = WCall j
  | None => True
  end.
Definition needs_ok (r : option (nat * jpc)) : bool := match r with None => true | Some (_, pc) => pc_pre pc end.
Definition pend_ok (s : state) : Prop :=
  match s.(running) with
  | Some (j', JPendStore) => match s.(inp_waker) with Some j => j = j' | None => True end
  | _ => True
  end.
Definition inv16 (s : state) : Prop :=
  s.(poll_fn) = false \/ ((needs_ok s.(running) = true -> inp_ok s) /\ pend_ok s).

Lemma live_in_cons j wt k : live_in (j :: wt) k = true -> live_in wt k = true /\ k <> j.
Proof.
  unfold live_in. rewrite !negb_true_iff, !bool_decide_eq_false, elem_of_cons. intros H. split; [tauto|]. intros ->. tauto.
Qed.

Section Drop.
  Context (F : pfacts) (f : nat -> nat).
  Context (Hrecheck : F.(f_pending_recheck) = true).

  Definition inv_drop (s : state) : Prop :=
    (dropped s = true -> s.(closed) = true /\ s.(nsc) = None) /\
    inv16 s /\
    (match s.(cst) with CDrop2 | CGone => s.(chute) = true \/ s.(strong_held) = false | _ => True end).

  Lemma inv_drop_init inputs ext : inv_drop (init F inputs ext).
  Proof. unfold inv_drop, inv16, inp_ok; cbn. split_and!; try done. by right. Qed.

  Lemma step_inv_drop s a s' : inv_shape s -> inv_drop s -> step F f s a = Some s' -> inv_drop s'.
  Proof.
    intros Hsh (D1 & D3 & D4) Hs. step_cases Hs.
    all: unfold inv_drop, inv16, inp_ok, pend_ok, dropped, inv_shape in *; cbn in *.
    all: rewrite ?Hrecheck in *; cbn in *.
    all: split_and!; try done.
    all: try (by left); try (by right); try tauto.
    all: try sat_solve.
    all: try (destruct D3 as [D3|[D3 D3']]; [by left|right]).
    all: try (split; [|done]).
    all: try tauto.
    all: try (destruct cst; try done; by right).
    all: try (split; [done|destruct running as [[? []]|]; done]).
    all: intros Hn; try specialize (D3 Hn); destruct inp_waker as [k|]; [|done]; intros Hl.
    all: try (apply live_in_cons in Hl as [Hl Hne]); try specialize (D3 Hl); subst.
    all: try (by left).
    all: destruct D3 as [D3|D3]; subst; cbn; try (by left); try (by right); try discriminate D3.
    all: try (injection D3 as <-; done).
    all: injection D3 as ->; congruence.
  Qed.

  Lemma reach_inv_drop inputs ext tr s : run F f (init F inputs ext) tr = Some s -> inv_shape s /\ inv_drop s.
  Proof.
    revert tr s. apply run_invariant_all.
    - split; [apply inv_shape_init|apply inv_drop_init].
    - intros s a s' [H1 H2] Hs. split; [eapply step_inv_shape; eauto|eapply step_inv_drop; eauto].
  Qed.

  (* C16 (for the repaired Pending arm) *)
  Theorem drop_shuts_down inputs ext tr s :
    run F f (init F inputs ext) tr = Some s ->
    dropped s = true -> terminal_silent F f s ->
    s.(strong_held) = false /\ released s = true /\ s.(cst) = CGone.
  Proof.
    intros Hr Hd Hterm. destruct (reach_inv_drop _ _ _ _ Hr) as (Hsh & D1 & D3 & D4).
    destruct (cons_disabled F f s (Hterm ACons eq_refl eq_refl)) as [Hcw Hcst].
    assert (Hg : cst s = CGone) by (unfold dropped in Hd; destruct (cst s); done).
    assert (Hlk : core_locked s = false) by (unfold core_locked; rewrite Hg; done).
    destruct (prod_disabled F f s (Hterm AProd eq_refl eq_refl) Hlk) as [Hrun Hq].
    pose proof (env_disabled F f s (Hterm AEnv eq_refl eq_refl)) as Hew.
    pose proof (Hterm ADispose eq_refl eq_refl) as Hdis. cbn in Hdis.
    destruct (chute s) eqn:Ech; [done|]. rewrite Hg in D4.
    split_and!; [destruct D4; done| |done].
    unfold released, ctx_referenced, core_gone, wk_tok, live_opt. rewrite Hq, Hrun, Hcw, Hew, Hg. cbn.
    destruct (poll_fn s) eqn:Ep; [cbn|done].
    destruct D3 as [D3|[D3 _]]; [congruence|]. rewrite Hrun in D3. specialize (D3 eq_refl). unfold inp_ok in D3.
    destruct (inp_waker s) as [k|]; [cbn|done].
    destruct (live_in (wtaken s) k) eqn:El; [|done].
    destruct (D1 Hd) as [_ Hnsc]. destruct (D3 eq_refl) as [H|H]; congruence.
  Qed.
End Drop.
