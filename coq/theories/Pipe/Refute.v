(* Pipe layer: the C16 statement as a predicate on the facts; refutation for the current code; refutation of the
   literal "poll_fn = None" version even for the repaired code. *)
From stdpp Require Import list numbers option.
From RecordUpdate Require Import RecordUpdate.
From Pipe Require Import Model Base Notify Terminal Drop Scenarios.

(* C16 for a given set of facts: every reachable state in which the stream has been dropped and in which nothing can
   move as long as the input stays silent has released the Desync and the poll function (input stream + closure) *)
Definition C16_statement (F : pfacts) : Prop :=
  forall f inputs sl ext tr s,
    run F f (init_slow F inputs sl ext) tr = Some s ->
    dropped s = true -> terminal_silent F f s ->
    s.(strong_held) = false /\ released s = true.

(* the stronger, literal reading: the poll function has been set to None *)
Definition C16_literal (F : pfacts) : Prop :=
  forall f inputs sl ext tr s,
    run F f (init_slow F inputs sl ext) tr = Some s ->
    dropped s = true -> terminal_silent F f s ->
    s.(strong_held) = false /\ s.(poll_fn) = false.

Lemma C16_holds_with_recheck F :
  F.(f_pending_recheck) = true -> F.(f_drop_wakes_before_dispose) = true -> C16_statement F.
Proof.
  intros HF HO f inputs sl ext tr s Hr Hd Ht.
  destruct (drop_shuts_down F f HF HO _ _ _ _ _ Hr Hd Ht) as (H1 & H2 & _). done.
Qed.

(* C16 when the pipe is the last owner of the Desync: in every terminal state after the drop (silent input, nobody else owns
   the object) the object has been freed (once: freed_at_most_once) and the core lock is free *)
Definition C16_last_owner_statement (F : pfacts) : Prop :=
  forall f inputs sl ext tr s,
    run F f (init_slow F inputs sl ext) tr = Some s ->
    dropped s = true -> terminal_silent F f s -> s.(ext_owner) = false ->
    s.(freed) = 1 /\ core_locked s = false.
Lemma C16_last_owner_holds F :
  F.(f_pending_recheck) = true -> F.(f_drop_wakes_before_dispose) = true -> C16_last_owner_statement F.
Proof.
  intros HF HO f inputs sl ext tr s Hr Hd Ht He.
  destruct (last_owner_drop F f HF HO _ _ _ _ _ Hr Hd Ht He) as (H1 & _ & H2 & _). done.
Qed.

Lemma terminal_silentb_sound F f s : terminal_silentb F f s = true -> terminal_silent F f s.
Proof.
  unfold terminal_silentb, all_actors. intros H a Ho He.
  rewrite forallb_forall in H.
  destruct a; try discriminate Ho; try discriminate He.
  all: match goal with |- step _ _ _ ?a = None =>
         specialize (H a ltac:(cbn; tauto)); cbn [optional env_event orb] in H; destruct (step F f s a); done end.
Qed.

Lemma terminalb_sound F f s : terminalb F f s = true -> terminal F f s.
Proof.
  unfold terminalb, all_actors. intros H a Ho.
  rewrite forallb_forall in H.
  destruct a; try discriminate Ho.
  all: match goal with |- step _ _ _ ?a = None =>
         specialize (H a ltac:(cbn; tauto)); cbn [optional orb] in H; destruct (step F f s a); done end.
Qed.

Lemma C16_refuted_now : ~ C16_statement facts_unrepaired.
Proof.
  intros H.
  destruct (run facts_unrepaired f100 (init facts_unrepaired [1] false) c16_witness) as [s|] eqn:Hr; [|by vm_compute in Hr].
  assert (Hv : (dropped s, terminal_silentb facts_unrepaired f100 s, released s) = (true, true, false)).
  { vm_compute in Hr. injection Hr as <-. vm_compute. reflexivity. }
  injection Hv as Hd Ht Hrel.
  destruct (H f100 [1] [] false c16_witness s Hr Hd (terminal_silentb_sound _ _ _ Ht)) as [_ H2]. congruence.
Qed.

(* the witness state in full: poll_fn still Some, a live waker registered with the silent input *)
Lemma C16_refuted_now_detail :
  exists s, run facts_unrepaired f100 (init facts_unrepaired [1] false) c16_witness = Some s /\
            dropped s = true /\ terminal_silent facts_unrepaired f100 s /\
            s.(strong_held) = false /\ s.(poll_fn) = true /\ s.(inp_waker) = Some 0 /\ is_live s 0 = true /\
            released s = false.
Proof.
  destruct (run facts_unrepaired f100 (init facts_unrepaired [1] false) c16_witness) as [s|] eqn:Hr; [|by vm_compute in Hr].
  exists s. split; [done|]. vm_compute in Hr. injection Hr as <-.
  split_and!; try (vm_compute; reflexivity). apply terminal_silentb_sound. vm_compute. reflexivity.
Qed.

Definition throttled_drop_trace : list actor :=
  snd (phases F_depth1_repaired [[AProd; AEnv]; [AItem]; [AProd; AEnv]; [AItem]; [AProd; AEnv]; [ACDrop]; no_input_events]
         (init F_depth1_repaired [1;2;3;4] false)).

Lemma C16_literal_refuted_even_when_repaired : ~ C16_literal F_depth1_repaired.
Proof.
  intros H.
  destruct (run F_depth1_repaired f100 (init F_depth1_repaired [1;2;3;4] false) throttled_drop_trace) as [s|] eqn:Hr;
    [|by vm_compute in Hr].
  assert (Hv : (dropped s, terminal_silentb F_depth1_repaired f100 s, s.(poll_fn)) = (true, true, true)).
  { vm_compute in Hr. injection Hr as <-. vm_compute. reflexivity. }
  injection Hv as Hd Ht Hp.
  destruct (H f100 _ [] _ _ s Hr Hd (terminal_silentb_sound _ _ _ Ht)) as [_ H2]. congruence.
Qed.

(* ---------- C12.2 / C12.4 as predicates on the facts; refutation for a poll_next that keeps a stale waker ---------- *)
Definition C12_woken_statement (F : pfacts) : Prop :=
  forall f inputs sl ext tr s,
    run F f (init_slow F inputs sl ext) tr = Some s ->
    (s.(cst) = CPend \/ s.(cst) = CRun true) -> (s.(pending) <> [] \/ s.(closed) = true) ->
    s.(notify) = None /\ (s.(cwoken) = true \/ cons_wake_inflight s = true).
Definition C12_terminal_statement (F : pfacts) : Prop :=
  forall f inputs sl ext tr s,
    Forall (fun a => a <> ACSetDepth 0) tr ->
    run F f (init_slow F inputs sl ext) tr = Some s ->
    terminal F f s -> dropped s = false ->
    s.(delivered) = f <$> inputs /\ s.(got_end) = true /\ s.(cst) = CDone.

Lemma C12_woken_holds_with_replace F : F.(f_poll_next_replaces_waker) = true -> C12_woken_statement F.
Proof. intros HF f inputs sl ext tr s. exact (consumer_always_woken F f HF inputs sl ext tr s). Qed.
Lemma C12_terminal_holds_with_replace F :
  F.(f_poll_next_replaces_waker) = true -> 1 <= F.(f_default_depth) -> C12_terminal_statement F.
Proof. intros HF Hd f inputs sl ext tr s Hok. exact (terminal_complete F f HF inputs sl ext tr s Hd Hok). Qed.

Lemma stale_waker_state :
  exists s, run facts_stale_waker f100 (init facts_stale_waker [1] true) stale_waker_trace = Some s /\
            s.(cst) = CPend /\ s.(pending) = [101] /\ s.(closed) = true /\ s.(cwoken) = false /\
            cons_wake_inflight s = false /\ s.(delivered) = [] /\ dropped s = false /\
            terminal facts_stale_waker f100 s.
Proof.
  destruct (run facts_stale_waker f100 (init facts_stale_waker [1] true) stale_waker_trace) as [s|] eqn:Hr; [|by vm_compute in Hr].
  exists s. split; [done|]. vm_compute in Hr. injection Hr as <-.
  split_and!; try (vm_compute; reflexivity). apply terminalb_sound. vm_compute. reflexivity.
Qed.

Lemma C12_woken_refuted_stale_waker : ~ C12_woken_statement facts_stale_waker.
Proof.
  intros H. destruct stale_waker_state as (s & Hr & Hc & Hp & Hcl & Hw & Hi & _).
  destruct (H f100 [1] [] true _ s Hr (or_introl Hc) (or_intror Hcl)) as [_ [?|?]]; congruence.
Qed.

Lemma C12_terminal_refuted_stale_waker : ~ C12_terminal_statement facts_stale_waker.
Proof.
  intros H. destruct stale_waker_state as (s & Hr & Hc & _ & _ & _ & _ & _ & Hd & Ht).
  assert (Hok : Forall (fun a => a <> ACSetDepth 0) stale_waker_trace).
  { unfold stale_waker_trace. cbn. repeat (constructor; [done|]). constructor. }
  destruct (H f100 [1] [] true _ s Hok Hr Ht Hd) as (_ & _ & Hcd). congruence.
Qed.

(* ---------- the swapped order in Drop for PipeStream: deadlock between Drop::drop and the final sync ---------- *)
Lemma swapped_drop_state :
  exists s, run facts_swapped_drop f100 (init facts_swapped_drop [1] true) swapped_drop_deadlock = Some s /\
            dropped s = true /\ terminal_silent facts_swapped_drop f100 s /\ s.(ext_owner) = false /\
            s.(cst) = CDrop1 /\ core_locked s = true /\ s.(cwk) = WSync /\ s.(running) = Some (1, JFull) /\
            s.(freed) = 0.
Proof.
  destruct (run facts_swapped_drop f100 (init facts_swapped_drop [1] true) swapped_drop_deadlock) as [s|] eqn:Hr; [|by vm_compute in Hr].
  exists s. split; [done|]. vm_compute in Hr. injection Hr as <-.
  split_and!; try (vm_compute; reflexivity). apply terminal_silentb_sound. vm_compute. reflexivity.
Qed.

Lemma C16_last_owner_refuted_swapped : ~ C16_last_owner_statement facts_swapped_drop.
Proof.
  intros H. destruct swapped_drop_state as (s & Hr & Hd & Ht & He & _ & Hl & _).
  destruct (H f100 [1] [] true _ s Hr Hd Ht He) as [_ H2]. congruence.
Qed.
