(* Pipe layer: the C16 statement as a predicate on the facts; refutation for the current code; refutation of the
   literal "poll_fn = None" version even for the repaired code. *)
From stdpp Require Import list numbers option.
From RecordUpdate Require Import RecordUpdate.
From Pipe Require Import Model Base Drop Scenarios.

(* C16 for a given set of facts: every reachable state in which the stream has been dropped and in which nothing can
   move as long as the input stays silent has released the Desync and the poll function (input stream + closure) *)
Definition C16_statement (F : pfacts) : Prop :=
  forall f inputs ext tr s,
    run F f (init F inputs ext) tr = Some s ->
    dropped s = true -> terminal_silent F f s ->
    s.(strong_held) = false /\ released s = true.

(* the stronger, literal reading: the poll function has been set to None *)
Definition C16_literal (F : pfacts) : Prop :=
  forall f inputs ext tr s,
    run F f (init F inputs ext) tr = Some s ->
    dropped s = true -> terminal_silent F f s ->
    s.(strong_held) = false /\ s.(poll_fn) = false.

Lemma C16_holds_with_recheck F : F.(f_pending_recheck) = true -> C16_statement F.
Proof.
  intros HF f inputs ext tr s Hr Hd Ht.
  destruct (drop_shuts_down F f HF _ _ _ _ Hr Hd Ht) as (H1 & H2 & _). done.
Qed.

Lemma terminal_silentb_sound F f s : terminal_silentb F f s = true -> terminal_silent F f s.
Proof.
  unfold terminal_silentb, all_actors. intros H a Ho He.
  rewrite forallb_forall in H.
  destruct a; try discriminate Ho; try discriminate He.
  all: match goal with |- step _ _ _ ?a = None =>
         specialize (H a ltac:(cbn; tauto)); cbn [optional env_event orb] in H; destruct (step F f s a); done end.
Qed.

Lemma terminalb_sound F f s : terminalb F f s = true -> terminal F f s.
Proof.
  unfold terminalb, all_actors. intros H a Ho.
  rewrite forallb_forall in H.
  destruct a; try discriminate Ho.
  all: match goal with |- step _ _ _ ?a = None =>
         specialize (H a ltac:(cbn; tauto)); cbn [optional orb] in H; destruct (step F f s a); done end.
Qed.

Lemma C16_refuted_now : ~ C16_statement facts_unrepaired.
Proof.
  intros H.
  destruct (run facts_unrepaired f100 (init facts_unrepaired [1] false) c16_witness) as [s|] eqn:Hr; [|by vm_compute in Hr].
  assert (Hv : (dropped s, terminal_silentb facts_unrepaired f100 s, released s) = (true, true, false)).
  { vm_compute in Hr. injection Hr as <-. vm_compute. reflexivity. }
  injection Hv as Hd Ht Hrel.
  destruct (H f100 [1] false c16_witness s Hr Hd (terminal_silentb_sound _ _ _ Ht)) as [_ H2]. congruence.
Qed.

(* the witness state in full: poll_fn still Some, a live waker registered with the silent input *)
Lemma C16_refuted_now_detail :
  exists s, run facts_unrepaired f100 (init facts_unrepaired [1] false) c16_witness = Some s /\
            dropped s = true /\ terminal_silent facts_unrepaired f100 s /\
            s.(strong_held) = false /\ s.(poll_fn) = true /\ s.(inp_waker) = Some 0 /\ is_live s 0 = true /\
            released s = false.
Proof.
  destruct (run facts_unrepaired f100 (init facts_unrepaired [1] false) c16_witness) as [s|] eqn:Hr; [|by vm_compute in Hr].
  exists s. split; [done|]. vm_compute in Hr. injection Hr as <-.
  split_and!; try (vm_compute; reflexivity). apply terminal_silentb_sound. vm_compute. reflexivity.
Qed.

Definition throttled_drop_trace : list actor :=
  snd (phases F_depth1_repaired [[AProd; AEnv]; [AItem]; [AProd; AEnv]; [AItem]; [AProd; AEnv]; [ACDrop]; no_input_events]
         (init F_depth1_repaired [1;2;3;4] false)).

Lemma C16_literal_refuted_even_when_repaired : ~ C16_literal F_depth1_repaired.
Proof.
  intros H.
  destruct (run F_depth1_repaired f100 (init F_depth1_repaired [1;2;3;4] false) throttled_drop_trace) as [s|] eqn:Hr;
    [|by vm_compute in Hr].
  assert (Hv : (dropped s, terminal_silentb F_depth1_repaired f100 s, s.(poll_fn)) = (true, true, true)).
  { vm_compute in Hr. injection Hr as <-. vm_compute. reflexivity. }
  injection Hv as Hd Ht Hp.
  destruct (H f100 _ _ _ s Hr Hd (terminal_silentb_sound _ _ _ Ht)) as [_ H2]. congruence.
Qed.
