(* Pipe layer: generic lemmas about [run], reachability, and the case-split tactic used by every step lemma. *)
From stdpp Require Import list numbers option.
From RecordUpdate Require Import RecordUpdate.
From Pipe Require Import Model.

Section Run.
  Context (F : pfacts) (f : nat -> nat).

  Lemma run_nil s : run F f s [] = Some s.
  Proof. done. Qed.

  Lemma run_none tr : foldl (fun os a => o ← os; step F f o a) None tr = None.
  Proof. induction tr as [|a tr IH]; cbn; [done|exact IH]. Qed.

  Lemma run_cons s a tr : run F f s (a :: tr) = s1 ← step F f s a; run F f s1 tr.
  Proof.
    unfold run; cbn. destruct (step F f s a) as [s1|]; cbn; [done|apply run_none].
  Qed.

  Lemma run_snoc s tr a : run F f s (tr ++ [a]) = s1 ← run F f s tr; step F f s1 a.
  Proof. unfold run. rewrite foldl_app. cbn. done. Qed.

  Lemma run_app s tr1 tr2 : run F f s (tr1 ++ tr2) = s1 ← run F f s tr1; run F f s1 tr2.
  Proof.
    unfold run. rewrite foldl_app. destruct (foldl _ (Some s) tr1) as [s1|]; cbn; [done|apply run_none].
  Qed.

  (* induction principle: an invariant that holds initially and is preserved by every step (possibly only for the
     actors allowed by [ok]) holds in every reachable state *)
  Lemma run_invariant (ok : actor -> Prop) (P : state -> Prop) s0 :
    P s0 ->
    (forall s a s', ok a -> P s -> step F f s a = Some s' -> P s') ->
    forall tr s, Forall ok tr -> run F f s0 tr = Some s -> P s.
  Proof.
    intros H0 Hstep tr. induction tr as [|a tr IH] using rev_ind; intros s Hok.
    - cbn. intros [= <-]. done.
    - rewrite run_snoc. apply Forall_app in Hok as [Hok1 Hok2]. apply Forall_cons_1 in Hok2 as [Hok2 _].
      destruct (run F f s0 tr) as [s1|] eqn:E; cbn; [|done].
      intros Hs. eapply Hstep; [exact Hok2| |exact Hs]. by apply IH.
  Qed.

  Lemma run_invariant_all (P : state -> Prop) s0 :
    P s0 ->
    (forall s a s', P s -> step F f s a = Some s' -> P s') ->
    forall tr s, run F f s0 tr = Some s -> P s.
  Proof.
    intros H0 Hstep tr s Hr.
    apply (run_invariant (fun _ => True) P s0 H0 (fun s a s' _ => Hstep s a s') tr s); [|done].
    by apply Forall_true.
  Qed.
End Run.

(* Case split of one step.  [H : step F f s a = Some s'] where [s] has been destructed into its fields.
   Leaves one goal per control-flow path with [s'] substituted. *)
Ltac step_split H :=
  repeat (first
    [ discriminate H
    | match type of H with
      | context [match ?x with _ => _ end] =>
          lazymatch x with
          | context [match _ with _ => _ end] => fail
          | _ => let E := fresh "E" in destruct x eqn:E; cbn in H
          end
      end ]);
  try discriminate H.

Ltac step_cases H :=
  lazymatch type of H with
  | step _ _ ?s ?a = Some _ =>
      destruct s; destruct a; cbn in H;
      unfold job_step, wake_step, poll_step, core_locked, core_gone, pollable, probe_pollable, outside_poll, desync_alive, drained, enqueue, is_live in H; cbn in H;
      step_split H;
      try (injection H as <-)
  end.

Lemma wk_idle_true w : wk_idle w = true -> w = WIdle.
Proof. by destruct w. Qed.

(* turn boolean test results recorded by [step_cases] into propositions *)
Ltac bool_hyps :=
  repeat match goal with
  | H : _ && _ = true |- _ => apply andb_prop in H as [? ?]
  | H : _ && _ = false |- _ => apply andb_false_iff in H
  | H : wk_idle _ = true |- _ => apply wk_idle_true in H
  | H : _ || _ = false |- _ => apply orb_false_elim in H as [? ?]
  | H : negb _ = true |- _ => apply negb_true_iff in H
  | H : negb _ = false |- _ => apply negb_false_iff in H
  | H : (_ <? _) = true |- _ => apply Nat.ltb_lt in H
  | H : (_ <? _) = false |- _ => apply Nat.ltb_ge in H
  | H : (_ <=? _) = true |- _ => apply Nat.leb_le in H
  | H : (_ <=? _) = false |- _ => apply Nat.leb_gt in H
  | H : (_ =? _) = true |- _ => apply Nat.eqb_eq in H
  | H : (_ =? _) = false |- _ => apply Nat.eqb_neq in H
  end.

(* forward-chain hypotheses of the form [a = a -> ...] / [P -> ...] with P in the context, then close *)
Ltac saturate :=
  repeat match goal with
  | H : ?a = ?a -> _ |- _ => specialize (H eq_refl)
  | H : ?P -> _, H' : ?P |- _ => specialize (H H')
  | H : _ /\ _ |- _ => destruct H
  end.
Ltac sat_solve := intros; saturate; bool_hyps; subst; saturate; first [done | congruence | (exfalso; lia)].
