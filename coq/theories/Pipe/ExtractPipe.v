(* Extraction of the executable pipe model for the implementation -> model correspondence check
   (/verif/driver/pipe/replay_pipe.ml).  ExtrOcamlBasic only: nat stays a datatype.
   [replay_facts] are the facts read from the source by the translator (gen/Tables.v), the same binding as
   Inst/C12_now.v; compile with -Q gen Gen. *)
From Gen Require Import Tables.
From Pipe Require Import Model.
Require Import ExtrOcamlBasic.
Definition replay_facts : pfacts :=
  {| f_pending_recheck := fact_pending_arm_rechecks_closed; f_default_depth := fact_pipe_backpressure_count;
     f_poll_next_replaces_waker := fact_poll_next_stores_waker;
     f_drop_wakes_before_dispose := fact_stream_drop_wakes_before_dispose |}.
Extraction Language OCaml.
Extraction "pipemodel.ml" step step_label label_of init init_slow run replay_facts facts_repaired facts_unrepaired
  facts_stale_waker facts_swapped_drop released ctx_referenced is_live dropped desync_alive drained core_gone core_locked
  pollable probe_pollable.
