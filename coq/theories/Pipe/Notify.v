(* Pipe layer, C12 part 2: the consumer is always woken.
   [inv_notify]: (a) while the stream exists, the consumer's waker is never left in `notify` when there is something
   to read; (b) a consumer that returned Pending and has not been woken has its waker in `notify` or in flight. *)
From stdpp Require Import list numbers option.
From RecordUpdate Require Import RecordUpdate.
From Pipe Require Import Model Base.

Section Notify.
  Context (F : pfacts) (f : nat -> nat).

  (* the consumer's wake slot is only busy inside poll_next (after the lock section) and inside Drop *)
  Definition inv_shape (s : state) : Prop :=
    match s.(cst) with CRun _ | CDrop1 => True | _ => s.(cwk) = WIdle end.

  Lemma inv_shape_init inputs sl ext : inv_shape (init_slow F inputs sl ext).
  Proof. done. Qed.

  Lemma step_inv_shape s a s' : inv_shape s -> step F f s a = Some s' -> inv_shape s'.
  Proof.
    intros H Hs. step_cases Hs.
    all: unfold inv_shape in *; cbn in *.
    all: try done.
    all: try (subst; done).
    all: try (destruct cst; done).
    all: bool_hyps; done.
  Qed.

  Lemma reach_inv_shape inputs sl ext tr s : run F f (init_slow F inputs sl ext) tr = Some s -> inv_shape s.
  Proof. apply run_invariant_all; [apply inv_shape_init|apply step_inv_shape]. Qed.

  (* from here on: poll_next REPLACES the stored waker (the code, l.504) *)
  Context (Hrep : F.(f_poll_next_replaces_waker) = true).

  Definition inv_notify (s : state) : Prop :=
    (dropped s = false -> is_Some s.(notify) -> s.(pending) = [] /\ s.(closed) = false) /\
    (cons_waiting s = true -> s.(notify) = Some s.(clatest) \/ cons_wake_inflight s = true).

  Lemma inv_notify_init inputs sl ext : inv_notify (init_slow F inputs sl ext).
  Proof. split; cbn; [by intros _ [? [=]]|done]. Qed.

  Lemma step_inv_notify s a s' : inv_notify s -> step F f s a = Some s' -> inv_notify s'.
  Proof.
    intros (Ha & Hb) Hs. step_cases Hs.
    all: unfold inv_notify, dropped, cons_waiting, cons_wake_inflight in *; cbn in *.
    all: rewrite ?Hrep in *; cbn in *.
    all: split.
    all: try done; try exact Ha; try exact Hb.
    all: try (by left); try (by right).
    all: try (by intros _ [? [=]]).
    all: try (intros H; destruct (Hb H) as [->|?]; [right; cbn; apply Nat.eqb_refl|done]).
    all: try (destruct cst as [|[]| | | | |]; done).
    all: try (intros H; destruct (Hb H) as [?|?]; [by left|done]).
    all: try (intros _ Hn; destruct (Ha eq_refl Hn); done).
    all: intros H; destruct (Hb H) as [?|?]; [by left|congruence].
  Qed.

  Lemma reach_inv_notify inputs sl ext tr s : run F f (init_slow F inputs sl ext) tr = Some s -> inv_notify s.
  Proof. apply run_invariant_all; [apply inv_notify_init|apply step_inv_notify]. Qed.

  (* C12.2, for the LATEST waker *)
  Theorem consumer_always_woken inputs sl ext tr s :
    run F f (init_slow F inputs sl ext) tr = Some s ->
    (* the consumer returned Pending (or is returning it) and there is something to read *)
    (s.(cst) = CPend \/ s.(cst) = CRun true) -> (s.(pending) <> [] \/ s.(closed) = true) ->
    (* then no waker is sitting in `notify`; the waker of the most recent Pending poll has been called, or it has been
       taken and is about to be called *)
    s.(notify) = None /\ (s.(cwoken) = true \/ cons_wake_inflight s = true).
  Proof.
    intros Hr Hc Hp. destruct (reach_inv_notify _ _ _ _ _ Hr) as (Ha & Hb).
    assert (Hd : dropped s = false) by (unfold dropped; destruct Hc as [-> | ->]; done).
    assert (Hn : notify s = None).
    { destruct (notify s) eqn:E; [|done]. destruct (Ha Hd ltac:(eauto)) as [H1 H2]. destruct Hp; congruence. }
    split; [done|].
    destruct (cwoken s) eqn:Ew; [by left|right].
    assert (Hw : cons_waiting s = true) by (unfold cons_waiting; destruct Hc as [-> | ->]; rewrite Ew; done).
    destruct (Hb Hw); congruence.
  Qed.
End Notify.
