(* Pipe layer, C12 part 1: order / no loss / no duplication, and the bookkeeping of the input stream. *)
From stdpp Require Import list numbers option.
From RecordUpdate Require Import RecordUpdate.
From Pipe Require Import Model Base.

Section Data.
  Context (F : pfacts) (f : nat -> nat).

  Definition inv_data (inputs : list nat) (s : state) : Prop :=
    inputs = s.(taken) ++ s.(inp_rest) /\
    s.(inp_avail) <= length s.(inp_rest) /\
    (s.(inp_ended) = true -> s.(inp_avail) = length s.(inp_rest)) /\
    (is_Some s.(inp_waker) -> s.(inp_avail) = 0 /\ s.(inp_ended) = false) /\
    (dropped s = false -> s.(delivered) ++ s.(pending) ++ job_inflight s f = f <$> s.(taken)) /\
    (exists l, s.(delivered) ++ l = f <$> s.(taken)).

  Lemma inv_data_init inputs ext : inv_data inputs (init F inputs ext).
  Proof. unfold inv_data; cbn. repeat split; try done; try lia; try (by intros [? [=]]). by exists []. Qed.

  Lemma step_inv_data inputs s a s' : inv_data inputs s -> step F f s a = Some s' -> inv_data inputs s'.
  Proof.
    intros (H1 & H2 & H3 & H4 & H5 & H6) Hs.
    step_cases Hs.
    all: unfold inv_data, dropped, job_inflight in *; cbn in *.
    all: destruct H6 as [l6 H6].
    all: try (split_and!; [done..|by eexists]).
    all: split_and!; try done; try lia; try (by eexists).
    all: try (intros HH; specialize (H5 HH)).
    all: rewrite ?fmap_app, ?app_nil_r in *; cbn.
    all: try (by rewrite <- H5, <- ?(assoc_L (++))).
    Show.
  Admitted.
End Data.
