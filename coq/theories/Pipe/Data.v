(* Pipe layer, C12 part 1: order / no loss / no duplication, and the bookkeeping of the input stream. *)
From stdpp Require Import list numbers option.
From RecordUpdate Require Import RecordUpdate.
From Pipe Require Import Model Base.

Section Data.
  Context (F : pfacts) (f : nat -> nat).

  Definition inv_data (inputs : list nat) (s : state) : Prop :=
    inputs = s.(taken) ++ s.(inp_rest) /\
    s.(inp_avail) <= length s.(inp_rest) /\
    (s.(inp_ended) = true -> s.(inp_avail) = length s.(inp_rest)) /\
    (is_Some s.(inp_waker) -> s.(inp_avail) = 0 /\ s.(inp_ended) = false) /\
    (dropped s = false -> s.(delivered) ++ s.(pending) ++ job_inflight s f = f <$> s.(taken)) /\
    (exists l, s.(delivered) ++ l = f <$> s.(taken)).

  Lemma inv_data_init inputs sl ext : inv_data inputs (init_slow F inputs sl ext).
  Proof. unfold inv_data; cbn. repeat split; try done; try lia; try (by intros [? [=]]). by exists []. Qed.

  Lemma step_inv_data inputs s a s' : inv_data inputs s -> step F f s a = Some s' -> inv_data inputs s'.
  Proof.
    intros (H1 & H2 & H3 & H4 & H5 & H6) Hs.
    step_cases Hs.
    all: unfold inv_data, dropped, job_inflight in *; cbn in *.
    all: destruct H6 as [l6 H6].
    all: try (split_and!; [done..|by eexists]).
    all: bool_hyps; subst.
    all: try (specialize (H5 eq_refl)).
    all: split_and!; try done; try lia; try (by eexists).
    all: try (intros HH; specialize (H5 HH)).
    all: rewrite ?fmap_app, ?app_nil_r in *; cbn in *.
    all: try (by rewrite <- H5, <- ?(assoc_L (++))).
    all: try (by rewrite <- (assoc_L (++))).
    all: try (by intros [? [=]]).
    all: try (intros HH; first [specialize (H3 HH)|specialize (H4 HH)]; lia).
    all: try (by rewrite <- H6, <- (assoc_L (++)); eexists).
    all: try (by rewrite <- H5, <- !(assoc_L (++)); eexists).
    all: eexists; rewrite <- (assoc_L (++)); cbn; rewrite <- H5; reflexivity.
  Qed.

  Lemma reach_inv_data inputs sl ext tr s : run F f (init_slow F inputs sl ext) tr = Some s -> inv_data inputs s.
  Proof. apply run_invariant_all; [apply inv_data_init|apply step_inv_data]. Qed.

  (* C12.1: outputs are the images of the inputs taken so far, in order, without loss or duplication *)
  Theorem pipe_order inputs sl ext tr s :
    run F f (init_slow F inputs sl ext) tr = Some s ->
    inputs = s.(taken) ++ s.(inp_rest) /\
    (dropped s = false -> s.(delivered) ++ s.(pending) ++ job_inflight s f = f <$> s.(taken)) /\
    (exists l, s.(delivered) ++ l = f <$> s.(taken)).
  Proof.
    intros Hr. destruct (reach_inv_data _ _ _ _ _ Hr) as (H1 & _ & _ & _ & H5 & H6).
    done.
  Qed.
End Data.
