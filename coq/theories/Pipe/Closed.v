(* Pipe layer, C12 part 4: facts about `closed`, the references to the Desync, and terminal completeness. *)
From stdpp Require Import list numbers option.
From RecordUpdate Require Import RecordUpdate.
From Pipe Require Import Model Base Data Notify Token.

Definition pc_retfalse (pc : jpc) : bool :=
  match pc with JClosedTake | JWake _ KRet | JClear => true | _ => false end.
Definition pc_after_close (pc : jpc) : bool :=
  match pc with JStart | JFull | JClosedTake | JWake _ KRet | JClear => true | _ => false end.
Definition pc_endclose (pc : jpc) : bool := match pc with JEndClose => true | _ => false end.
Definition run_all (P : jpc -> bool) (r : option (nat * jpc)) : bool := match r with Some (_, pc) => P pc | None => true end.
Definition run_some (P : jpc -> bool) (r : option (nat * jpc)) : bool := match r with Some (_, pc) => P pc | None => false end.
Definition is_takefn (w : wk) : bool := match w with WTakeFn => true | _ => false end.
Definition is_sync (w : wk) : bool := match w with WSync => true | _ => false end.
Definition ch_sync (c : chst) : bool := match c with ChSync => true | _ => false end.

Section Closed.
  Context (F : pfacts) (f : nat -> nat).

  Definition inv_closed (s : state) : Prop :=
    (dropped s = false -> s.(strong_held) = true /\ s.(chute) = ChIdle) /\
    (is_takefn s.(cwk) = true -> s.(strong_held) = false) /\
    (is_takefn s.(ewk) = true -> s.(strong_held) = false) /\
    (dropped s = false -> s.(poll_fn) = false -> s.(closed) = true) /\
    (dropped s = false -> s.(closed) = true -> s.(inp_rest) = [] /\ run_all pc_after_close s.(running) = true) /\
    (dropped s = false -> run_some pc_retfalse s.(running) = true -> s.(closed) = true) /\
    (run_some pc_endclose s.(running) = true -> s.(inp_rest) = []) /\
    (s.(cst) = CDone -> s.(closed) = true /\ s.(pending) = [] /\ s.(got_end) = true) /\
    (* whoever is inside Desync::drop dropped the last reference: the pipe's own is gone *)
    (is_sync s.(cwk) = true -> s.(strong_held) = false) /\
    (is_sync s.(ewk) = true -> s.(strong_held) = false) /\
    (ch_sync s.(chute) = true -> s.(strong_held) = false) /\
    (s.(xsync) = true -> s.(strong_held) = false).

  Lemma inv_closed_init inputs sl ext : inv_closed (init_slow F inputs sl ext).
  Proof. unfold inv_closed; cbn. split_and!; done. Qed.

  Lemma step_inv_closed inputs s a s' :
    inv_data f inputs s -> inv_closed s -> step F f s a = Some s' -> inv_closed s'.
  Proof.
    intros (_ & D2 & D3 & _) (C1 & C2 & C3 & C4 & C5 & C6 & C7 & C8 & C9 & C10 & C11 & C12) Hs. step_cases Hs.
    all: unfold inv_closed, dropped in *; cbn in *.
    all: split_and!; try done.
    all: try (destruct bp; done); try (destruct nsc; done); try (destruct inp_waker; done).
    all: sat_solve.
  Qed.

  (* ---------- depth >= 1 and: a registered consumer waker excludes a registered back-pressure waker ---------- *)
  Definition inv_depth (s : state) : Prop := 1 <= s.(depth).
  Lemma step_inv_depth s a s' : a <> ACSetDepth 0 -> inv_depth s -> step F f s a = Some s' -> inv_depth s'.
  Proof.
    intros Ha H Hs. step_cases Hs; unfold inv_depth in *; cbn in *; try done.
    all: destruct d; [done|lia].
  Qed.

  Definition inv_bp (s : state) : Prop := dropped s = false -> is_Some s.(notify) -> s.(bp) = None.
  Lemma inv_bp_init inputs sl ext : inv_bp (init_slow F inputs sl ext).
  Proof. by intros _ [? [=]]. Qed.
  Lemma step_inv_bp s a s' :
    inv_depth s -> inv_notify s -> inv_bp s -> step F f s a = Some s' -> inv_bp s'.
  Proof.
    intros Hdp (Hn & _) Hb Hs. step_cases Hs.
    all: unfold inv_bp, inv_depth, dropped in *; cbn in *.
    all: try done.
    all: try (by intros _ [? [=]]).
    all: intros H1 H2; saturate; bool_hyps; subst; cbn in *; first [done | lia].
  Qed.
End Closed.
