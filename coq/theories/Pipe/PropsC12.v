(* C12 - "pipe yields one output per input, in order, then ends; consumers always wake" (Pipe layer).
   All four parts hold for every value of the facts (in particular for the current code, [facts_unrepaired]).
   Only statements here; proofs are in Data.v, Notify.v, Token.v, Closed.v, Terminal.v.
   [init_slow F inputs sl ext]: the items listed in [sl] are SLOW (their processing future returns Pending once in the middle,
   the poll job is suspended holding the object: Model.JSusp); every theorem holds for every such list. *)
From stdpp Require Import list numbers option.
From Pipe Require Import Model Base Data Notify Token Closed Terminal Scenarios Refute.

(* C12.1 order / no loss / no duplication: what the consumer got, what is buffered and what the running job holds is
   exactly the image of the inputs taken from the input stream so far (while the stream exists); what the consumer got
   is always a prefix of it *)
Theorem C12_order :
  forall (F : pfacts) (f : nat -> nat) inputs sl ext tr s,
    run F f (init_slow F inputs sl ext) tr = Some s ->
    inputs = s.(taken) ++ s.(inp_rest) /\
    (dropped s = false -> s.(delivered) ++ s.(pending) ++ job_inflight s f = f <$> s.(taken)) /\
    (exists l, s.(delivered) ++ l = f <$> s.(taken)).
Proof. exact pipe_order. Qed.
Print Assumptions C12_order.

Example C12_order_nonvacuous :
  let '(s, tr) := phases F_depth1 [[AProd; AEnv; AItem; AEnd]; [ACPoll]] (init F_depth1 [1;2;3;4] true) in
  run F_depth1 f100 (init F_depth1 [1;2;3;4] true) tr = Some s /\
  (s.(delivered), s.(pending), s.(taken), s.(inp_rest)) = ([101], [], [1], [2;3;4]).
Proof. vm_compute. split; reflexivity. Qed.

(* C12.2 the consumer is always woken, for a consumer that may poll at ANY time, each poll with a fresh waker: provided
   poll_next replaces the stored waker (the code, l.504; fact f_poll_next_replaces_waker), a consumer that returned
   Pending never has a waker sitting in `notify` while there is something to read, and the waker of its MOST RECENT
   Pending poll ([clatest]) has been called ([cwoken]) or has been taken and is about to be called
   ([cons_wake_inflight]: the running job is at l.331/l.362/l.380 with that waker).  Wakes of older wakers are no-ops. *)
Theorem C12_consumer_always_woken :
  forall (F : pfacts) (f : nat -> nat), F.(f_poll_next_replaces_waker) = true ->
  forall inputs sl ext tr s,
    run F f (init_slow F inputs sl ext) tr = Some s ->
    (s.(cst) = CPend \/ s.(cst) = CRun true) -> (s.(pending) <> [] \/ s.(closed) = true) ->
    s.(notify) = None /\ (s.(cwoken) = true \/ cons_wake_inflight s = true).
Proof. exact consumer_always_woken. Qed.
Print Assumptions C12_consumer_always_woken.

(* a poll_next that stores the waker only when none is stored keeps a stale waker: the consumer that is actually waiting
   is never woken (Scenarios.stale_waker_trace: probe, real poll, an item arrives, the input ends; terminal state with the
   consumer asleep, pending = [101], closed) *)
Theorem C12_consumer_always_woken_refuted : ~ C12_woken_statement facts_stale_waker.
Proof. exact C12_woken_refuted_stale_waker. Qed.
Print Assumptions C12_consumer_always_woken_refuted.
Theorem C12_terminal_complete_refuted : ~ C12_terminal_statement facts_stale_waker.
Proof. exact C12_terminal_refuted_stale_waker. Qed.
Print Assumptions C12_terminal_complete_refuted.
Theorem C12_stale_waker_witness :
  exists s, run facts_stale_waker f100 (init facts_stale_waker [1] true) stale_waker_trace = Some s /\
            s.(cst) = CPend /\ s.(pending) = [101] /\ s.(closed) = true /\ s.(cwoken) = false /\
            cons_wake_inflight s = false /\ s.(delivered) = [] /\ dropped s = false /\
            terminal facts_stale_waker f100 s.
Proof. exact stale_waker_state. Qed.
Print Assumptions C12_stale_waker_witness.

Example C12_consumer_always_woken_nonvacuous :
  match run facts_unrepaired f100 (init facts_unrepaired [1;2] true)
          (replicate 6 AProd ++ [ACPoll; ACons; AItem; AEnv; AEnv; AEnv] ++ replicate 7 AProd) with
  | Some s => (s.(cst), s.(pending), s.(cwoken), cons_wake_inflight s) = (CPend, [101], false, true)
  | None => False
  end.
Proof. vm_compute. reflexivity. Qed.
(* with a spurious poll in between: the waker of the probe is replaced, the in-flight wake is that of the latest waker *)
Example C12_consumer_always_woken_nonvacuous_probe :
  match run facts_repaired f100 (init facts_repaired [1;2] true)
          (replicate 6 AProd ++ [ACPoll; ACons; ACProbe; ACons; AItem; AEnv; AEnv; AEnv] ++ replicate 7 AProd) with
  | Some s => (s.(cst), s.(pending), s.(cwoken), s.(clatest), s.(running), cons_wake_inflight s)
              = (CPend, [101], false, 1, Some (1, JWake (Some 1) KLoop), true)
  | None => False
  end.
Proof. vm_compute. reflexivity. Qed.

(* C12.3 back-pressure release.  (a) Whenever no poll job is queued or running, the stream exists and poll_fn is still
   Some, a live PipeWaker is registered with the input or sits in backpressure_release_notify, or a wake is in flight
   (in the consumer's or the environment's thread).  [This does not even need the hypothesis "the input has an item
   available / has ended".]  (b) Every consumer poll (that does not return end-of-stream) takes
   backpressure_release_notify in the same critical section and calls it afterwards.
   The case "consumer polls while the producer is between 'buffer full' and 'register'" does not exist: in pipe.rs
   l.313-322 the test `pending.len() >= max_pipe_depth` and the store into backpressure_release_notify happen under ONE
   acquisition of the core mutex, which is the single model step [JFull]. *)
Theorem C12_backpressure_release :
  forall (F : pfacts) (f : nat -> nat) inputs sl ext tr s,
    run F f (init_slow F inputs sl ext) tr = Some s ->
    s.(jobq) = [] -> s.(running) = None -> dropped s = false -> s.(poll_fn) = true ->
    live_opt s s.(inp_waker) = true \/ live_opt s s.(bp) = true \/ wk_tok s s.(cwk) = true \/ wk_tok s s.(ewk) = true.
Proof. exact backpressure_release. Qed.
Print Assumptions C12_backpressure_release.

Theorem C12_consumer_poll_takes_backpressure :
  forall (F : pfacts) (f : nat -> nat) s a s',
    a = ACPoll \/ a = ACProbe ->
    step F f s a = Some s' -> s'.(cst) <> CDone -> s'.(bp) = None /\ s'.(cwk) = wk_of s.(bp).
Proof. exact consumer_poll_takes_backpressure. Qed.
Print Assumptions C12_consumer_poll_takes_backpressure.

Example C12_backpressure_release_nonvacuous :
  (* the throttled producer of Scenarios.backpressure_throttles: items available, the only live waker is in bp *)
  let '(s, tr) := phases F_depth1 [[AProd; AEnv; AItem; AEnd]] (init F_depth1 [1;2;3;4] true) in
  run F_depth1 f100 (init F_depth1 [1;2;3;4] true) tr = Some s /\
  (s.(jobq), s.(running), dropped s, s.(poll_fn), s.(inp_avail), live_opt s s.(inp_waker), live_opt s s.(bp))
  = ([], None, false, true, 3, false, true).
Proof. vm_compute. split; reflexivity. Qed.

(* C12.4 terminal completeness, for every input and every depth >= 1 (default and set_backpressure_depth): when no
   mandatory actor can move (the environment has made every item available and ended the input; the consumer polls
   whenever it owes a poll: it is idle or its latest waker has been called; spurious polls [ACProbe] are optional) and
   the consumer has not dropped the stream, it has received [f <$> inputs] and then None.  Needs the replace fact. *)
Theorem C12_terminal_complete :
  forall (F : pfacts) (f : nat -> nat), F.(f_poll_next_replaces_waker) = true ->
  forall inputs sl ext tr s,
    1 <= F.(f_default_depth) -> Forall (fun a => a <> ACSetDepth 0) tr ->
    run F f (init_slow F inputs sl ext) tr = Some s ->
    terminal F f s -> dropped s = false ->
    s.(delivered) = f <$> inputs /\ s.(got_end) = true /\ s.(cst) = CDone.
Proof. exact terminal_complete. Qed.
Print Assumptions C12_terminal_complete.

Example C12_terminal_complete_nonvacuous :
  let '(s, tr) := phases F_depth1 [[AProd; AEnv; AItem; AEnd]; [ACSetDepth 2]; everyone] (init F_depth1 [1;2;3;4] true) in
  run F_depth1 f100 (init F_depth1 [1;2;3;4] true) tr = Some s /\
  terminalb F_depth1 f100 s = true /\ dropped s = false /\ s.(depth) = 2 /\
  forallb (fun a => negb (bool_decide (a = ACSetDepth 0))) tr = true.
Proof. vm_compute. split_and!; reflexivity. Qed.
Check terminalb_sound : forall F f s, terminalb F f s = true -> terminal F f s.

(* with slow items: the run of Scenarios.slow_items_complete, and a consumer polling while an item is suspended *)
Example C12_slow_items_nonvacuous :
  let '(s, tr) := phases facts_repaired [everyone] (init_slow facts_repaired [1;2;3] [2;3] true) in
  run facts_repaired f100 (init_slow facts_repaired [1;2;3] [2;3] true) tr = Some s /\
  terminalb facts_repaired f100 s = true /\ dropped s = false /\ s.(delivered) = [101;102;103] /\
  existsb (fun a => bool_decide (a = AProd)) tr = true.
Proof. vm_compute. split_and!; reflexivity. Qed.
