(* L1g: what the pool argument looks at.  Definitions only.
   A queue: is it Pending.  A pool thread: dormant / heading for the schedule / working on a queue / leaving.
   An actor: is it inside schedule_thread (fresh, scanning at i, after the scan) or not.  The pool: how many threads may still be spawned. *)
From stdpp Require Import list numbers option.
From RecordUpdate Require Import RecordUpdate.
From L1 Require Import Model Shape.
From L1g Require Import Count.

Inductive tcl := TDormant | THeading | TWorking | TLeaving.
#[export] Instance tcl_eq_dec : EqDecision tcl. Proof. solve_decision. Defined.
Inductive pcl := PRecv | PHead | PLeave | PWork.
Definition pclass (st : list frame) : pcl :=
  match st with
  | [FTrecv _] => PRecv
  | [FTlock _] | [FTnext _] | [FTexam _] => PHead
  | [FTrelnone _] => PLeave
  | _ => PWork
  end.
Definition tcl_of (b : bool) (c : pcl) : tcl :=
  match c with PRecv => if b then THeading else TDormant | PHead => THeading | PLeave => TLeaving | PWork => TWorking end.
Definition tclass (th : pthread) (st : list frame) : tcl := tcl_of th.(busy) (pclass st).
Definition tcls (s : state) : list tcl := zip_with tclass s.(threads) (drop (ncallers s) (stacks s)).

Inductive acl := AFresh | AScan (i : nat) | ASpawn | AOther.
Definition aclass (st : list frame) : acl :=
  match st with
  | FD2 _ :: _ | FRQ2 _ :: _ | FSTlock :: _ => AFresh
  | FSTscan i :: _ => AScan i
  | FSTspawn :: _ => ASpawn
  | _ => AOther
  end.
Definition pendq (qq : queue) : bool := match qq.(qs) with Pending => true | _ => false end.

Record mview := { m_q : list bool; m_t : list tcl; m_a : list acl; m_c : nat }.
Definition mv (s : state) : mview :=
  {| m_q := pendq <$> s.(queues); m_t := tcls s; m_a := aclass <$> stacks s; m_c := s.(maxt) - length s.(threads) |}.

Definition livec (c : tcl) : bool := match c with THeading | TWorking => true | _ => false end.
Definition headc (c : tcl) : bool := match c with THeading => true | _ => false end.
Definition freshc (c : acl) : bool := match c with AFresh => true | _ => false end.
Definition spawnc (c : acl) : bool := match c with ASpawn => true | _ => false end.
(* a scan is still meaningful if every thread it has passed is live *)
Definition scanok (T : list tcl) (c : acl) : bool := match c with AScan i => forallb livec (take i T) | _ => false end.

Definition nP (v : mview) : nat := countb id v.(m_q).
Definition nH (v : mview) : nat := countb headc v.(m_t).
Definition nN (v : mview) : nat := countb (fun c => negb (livec c)) v.(m_t).
Definition nF (v : mview) : nat := countb freshc v.(m_a).
Definition nS (v : mview) : nat := countb spawnc v.(m_a).
Definition nM (v : mview) : nat := countb (scanok v.(m_t)) v.(m_a).

(* the matching invariant: schedule_thread calls in flight cover the Pending queues that have no thread heading for
   the schedule - or they cover all the idle capacity of the pool (dormant threads and threads that may still be spawned) *)
Definition InvM (v : mview) : Prop := Nat.min (nP v - nH v) (nN v + v.(m_c)) <= nF v + nM v + Nat.min (nS v) v.(m_c).

(* the abstract moves *)
Definition improves (c c' : tcl) : Prop := (c = TWorking /\ c' = THeading) \/ (c = TLeaving /\ c' = TDormant).
Inductive mstep (v : mview) : mview -> Prop :=
| M_stutter : mstep v v
| M_pend q a : v.(m_q) !! q = Some false -> v.(m_a) !! a = Some AOther ->
    mstep v {| m_q := <[q := true]> v.(m_q); m_t := v.(m_t); m_a := <[a := AFresh]> v.(m_a); m_c := v.(m_c) |}
| M_unpend q : mstep v {| m_q := <[q := false]> v.(m_q); m_t := v.(m_t); m_a := v.(m_a); m_c := v.(m_c) |}
| M_take t q : v.(m_t) !! t = Some THeading -> v.(m_q) !! q = Some true ->
    mstep v {| m_q := <[q := false]> v.(m_q); m_t := <[t := TWorking]> v.(m_t); m_a := v.(m_a); m_c := v.(m_c) |}
| M_scan0 a : v.(m_a) !! a = Some AFresh ->
    mstep v {| m_q := v.(m_q); m_t := v.(m_t); m_a := <[a := AScan 0]> v.(m_a); m_c := v.(m_c) |}
| M_scan_next a i c : v.(m_a) !! a = Some (AScan i) -> v.(m_t) !! i = Some c -> livec c = true ->
    mstep v {| m_q := v.(m_q); m_t := v.(m_t); m_a := <[a := AScan (S i)]> v.(m_a); m_c := v.(m_c) |}
| M_scan_wake a i : v.(m_a) !! a = Some (AScan i) -> v.(m_t) !! i = Some TDormant ->
    mstep v {| m_q := v.(m_q); m_t := <[i := THeading]> v.(m_t); m_a := <[a := AOther]> v.(m_a); m_c := v.(m_c) |}
| M_scan_end a i : v.(m_a) !! a = Some (AScan i) -> length v.(m_t) <= i ->
    mstep v {| m_q := v.(m_q); m_t := v.(m_t); m_a := <[a := ASpawn]> v.(m_a); m_c := v.(m_c) |}
| M_spawn a c' : v.(m_a) !! a = Some ASpawn -> v.(m_c) = S c' -> (forall b i, v.(m_a) !! b <> Some (AScan i)) ->
    mstep v {| m_q := v.(m_q); m_t := v.(m_t) ++ [TDormant]; m_a := <[a := AFresh]> v.(m_a) ++ [AOther]; m_c := c' |}
| M_spawn_fail a : v.(m_a) !! a = Some ASpawn -> v.(m_c) = 0 ->
    mstep v {| m_q := v.(m_q); m_t := v.(m_t); m_a := <[a := AOther]> v.(m_a); m_c := v.(m_c) |}
| M_leave t : v.(m_t) !! t = Some THeading -> nP v <= nF v ->
    mstep v {| m_q := v.(m_q); m_t := <[t := TLeaving]> v.(m_t); m_a := v.(m_a); m_c := v.(m_c) |}
| M_thread t c c' : v.(m_t) !! t = Some c -> improves c c' ->
    mstep v {| m_q := v.(m_q); m_t := <[t := c']> v.(m_t); m_a := v.(m_a); m_c := v.(m_c) |}.
