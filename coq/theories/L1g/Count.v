(* L1g: counting the elements of a list that satisfy a boolean predicate *)
From stdpp Require Import list list_numbers numbers option.

Definition b2n (b : bool) : nat := if b then 1 else 0.
Fixpoint countb {A} (p : A -> bool) (l : list A) : nat :=
  match l with [] => 0 | x :: r => b2n (p x) + countb p r end.
Lemma b2n_le b : b2n b <= 1. Proof. destruct b; cbn; lia. Qed.
Lemma b2n_true b : b = true -> b2n b = 1. Proof. by intros ->. Qed.
Lemma b2n_false b : b = false -> b2n b = 0. Proof. by intros ->. Qed.
Arguments b2n : simpl never.

Lemma countb_app {A} (p : A -> bool) l1 l2 : countb p (l1 ++ l2) = countb p l1 + countb p l2.
Proof. induction l1 as [|x l1 IH]; cbn; [done|]. rewrite IH. lia. Qed.
Lemma countb_insert {A} (p : A -> bool) l i x y : l !! i = Some x ->
  countb p (<[i:=y]> l) + b2n (p x) = countb p l + b2n (p y).
Proof.
  revert i. induction l as [|z l IH]; intros [|i] H; try done.
  - injection H as ->. change (<[0:=y]> (x :: l)) with (y :: l). cbn [countb]. lia.
  - change (<[S i:=y]> (z :: l)) with (z :: <[i:=y]> l). cbn [countb]. specialize (IH i H). lia.
Qed.
Ltac blia := unfold b2n in *; lia.
Lemma countb_mono {A} (p p' : A -> bool) l : (forall x, x ∈ l -> p x = true -> p' x = true) -> countb p l <= countb p' l.
Proof.
  induction l as [|x l IH]; intros H; cbn; [done|].
  assert (IH' : countb p l <= countb p' l) by (apply IH; intros y Hy; apply H; by right).
  destruct (p x) eqn:E; [rewrite (H x) by (done || by left)|]; destruct (p' x); blia.
Qed.
Lemma countb_ext {A} (p p' : A -> bool) l : (forall x, x ∈ l -> p x = p' x) -> countb p l = countb p' l.
Proof.
  induction l as [|x l IH]; intros H; cbn; [done|]. rewrite (H x) by (by left). rewrite IH; [done|]. intros y Hy. apply H. by right.
Qed.
(* replacing one element while the predicate may only grow on the others *)
Lemma countb_insert_mono {A} (p p' : A -> bool) l i x y : l !! i = Some x ->
  (forall z, z ∈ l -> p z = true -> p' z = true) ->
  countb p l + b2n (p' y) <= countb p' (<[i:=y]> l) + b2n (p x).
Proof.
  revert i. induction l as [|z l IH]; intros [|i] Hi Hm; try done.
  - injection Hi as ->. change (<[0:=y]> (x :: l)) with (y :: l). cbn [countb].
    assert (countb p l <= countb p' l) by (apply countb_mono; intros w Hw; apply Hm; by right). lia.
  - change (<[S i:=y]> (z :: l)) with (z :: <[i:=y]> l). cbn [countb].
    assert (IH' : countb p l + b2n (p' y) <= countb p' (<[i:=y]> l) + b2n (p x)) by (apply IH; [done|]; intros w Hw; apply Hm; by right).
    assert (Hz : b2n (p z) <= b2n (p' z)) by (destruct (p z) eqn:E; [rewrite (Hm z) by (done || by left)|]; destruct (p' z); unfold b2n; lia).
    lia.
Qed.
Lemma countb_zero {A} (p : A -> bool) l : countb p l = 0 -> forall x, x ∈ l -> p x = false.
Proof.
  induction l as [|y l IH]; cbn; intros H x Hx; [by apply elem_of_nil in Hx|].
  apply elem_of_cons in Hx as [->|Hx]; [destruct (p y); [blia|done]|]. apply IH; [|done]. destruct (p y); blia.
Qed.
Lemma countb_zero_intro {A} (p : A -> bool) l : (forall x, x ∈ l -> p x = false) -> countb p l = 0.
Proof. induction l as [|y l IH]; cbn; intros H; [done|]. rewrite (H y) by (by left). rewrite IH; [done|]. intros x Hx. apply H. by right. Qed.
Lemma countb_fmap {A B} (f : A -> B) (p : B -> bool) l : countb p (f <$> l) = countb (fun x => p (f x)) l.
Proof. induction l as [|x l IH]; cbn; [done|]. by rewrite IH. Qed.
Lemma countb_le_length {A} (p : A -> bool) l : countb p l <= length l.
Proof. induction l as [|x l IH]; cbn; [done|]. destruct (p x); blia. Qed.
Lemma countb_all {A} (p : A -> bool) l : (forall x, x ∈ l -> p x = true) -> countb p l = length l.
Proof. induction l as [|y l IH]; cbn; intros H; [done|]. rewrite (H y) by (by left). rewrite IH; [done|]. intros x Hx. apply H. by right. Qed.

(* pigeonhole: if every marked position of l is named by some element of k, there are at most as many marks as names *)
Lemma countb_filter_seq {A} (p : A -> bool) (l : list A) (K : list nat) n :
  (forall i x, l !! i = Some x -> p x = true -> n + i ∈ K) ->
  countb p l <= length (filter (fun i => i ∈ K) (seq n (length l))).
Proof.
  revert n. induction l as [|x l IH]; intros n H; [cbn; lia|]. cbn [countb length]. change (seq n (S (length l))) with (n :: seq (S n) (length l)).
  assert (IH' : countb p l <= length (filter (fun i => i ∈ K) (seq (S n) (length l)))).
  { apply IH. intros i y Hy Hp. replace (S n + i) with (n + S i) by blia. by apply (H (S i) y). }
  rewrite filter_cons. destruct (p x) eqn:E.
  - rewrite decide_True by (replace n with (n + 0) by blia; by apply (H 0 x)). cbn. blia.
  - case_decide; cbn; blia.
Qed.
Lemma countb_names {A B} (p : A -> bool) (l : list A) (g : B -> option nat) (k : list B) :
  (forall i x, l !! i = Some x -> p x = true -> exists y, y ∈ k /\ g y = Some i) ->
  countb p l <= countb (fun y => bool_decide (is_Some (g y))) k.
Proof.
  intros H. set (K := omap g k).
  assert (H1 : countb p l <= length (filter (fun i => i ∈ K) (seq 0 (length l)))).
  { apply countb_filter_seq. intros i x Hx Hp. destruct (H i x Hx Hp) as (y & Hy & Hg). apply elem_of_list_omap. eauto. }
  assert (H2 : length (filter (fun i => i ∈ K) (seq 0 (length l))) <= length K).
  { apply submseteq_length, NoDup_submseteq; [apply list.NoDup_filter, list_numbers.NoDup_seq|]. by intros i [Hi _]%elem_of_list_filter. }
  assert (H3 : length K = countb (fun y => bool_decide (is_Some (g y))) k).
  { subst K. clear. induction k as [|y k IH]; [done|]. cbn [countb]. rewrite <- IH.
    change (omap g (y :: k)) with (match g y with Some z => z :: omap g k | None => omap g k end).
    destruct (g y) as [z|]; [rewrite b2n_true by (apply bool_decide_eq_true; by eexists); done|].
    rewrite b2n_false; [done|]. apply bool_decide_eq_false. by intros [? ?]. }
  blia.
Qed.
