(* L1g: the abstract moves keep the matching invariant *)
From stdpp Require Import list numbers option.
From L1g Require Import Count MView.

Lemma forallb_lookup {A} (f : A -> bool) l : forallb f l = true <-> forall j x, l !! j = Some x -> f x = true.
Proof.
  rewrite forallb_forall. split.
  - intros H j x Hj. apply H, elem_of_list_In. by eapply elem_of_list_lookup_2.
  - intros H x Hx. apply elem_of_list_In, elem_of_list_lookup in Hx as [j Hj]. by eapply H.
Qed.

(* a scan stays meaningful when live threads stay live *)
Lemma scanok_insert T t c c' cl : T !! t = Some c -> (livec c = true -> livec c' = true) ->
  scanok T cl = true -> scanok (<[t := c']> T) cl = true.
Proof.
  intros Ht Hl. destruct cl as [|i| |]; cbn; try done. rewrite !forallb_lookup. intros H j x Hj.
  apply lookup_take_Some in Hj as [Hj Hlt]. destruct (decide (t = j)) as [->|Hne].
  - rewrite list_lookup_insert in Hj by (by eapply lookup_lt_Some). injection Hj as <-. apply Hl. apply (H j c). by apply lookup_take_Some.
  - rewrite list_lookup_insert_ne in Hj by done. apply (H j x). by apply lookup_take_Some.
Qed.
Lemma nM_insert_t v t c c' A : v.(m_t) !! t = Some c -> (livec c = true -> livec c' = true) ->
  countb (scanok v.(m_t)) A <= countb (scanok (<[t := c']> v.(m_t))) A.
Proof. intros Ht Hl. apply countb_mono. intros cl _. by apply (scanok_insert _ t c c'). Qed.
Lemma scanok_S T i c : T !! i = Some c -> livec c = true -> scanok T (AScan i) = true -> scanok T (AScan (S i)) = true.
Proof.
  intros Hi Hc. cbn. rewrite !forallb_lookup. intros H j x Hj. apply lookup_take_Some in Hj as [Hj Hlt].
  destruct (decide (j = i)) as [->|Hne]; [congruence|]. apply (H j x). apply lookup_take_Some. split; [done|lia].
Qed.
Lemma scanok_end T i : length T <= i -> scanok T (AScan i) = true -> countb (fun c => negb (livec c)) T = 0.
Proof.
  intros Hi. cbn. rewrite take_ge by done. rewrite forallb_lookup. intros H. apply countb_zero_intro. intros x Hx.
  apply elem_of_list_lookup in Hx as [j Hj]. by rewrite (H j x Hj).
Qed.
Lemma noscan_nM T A : (forall b i, A !! b <> Some (AScan i)) -> countb (scanok T) A = 0.
Proof.
  intros H. apply countb_zero_intro. intros cl Hcl. apply elem_of_list_lookup in Hcl as [b Hb]. destruct cl; try done. by destruct (H b i).
Qed.

Ltac b2 := cbv beta in *; repeat match goal with H : context [b2n ?b] |- _ =>
    let v := eval cbn in b in
    lazymatch v with true => change (b2n b) with 1 in H | false => change (b2n b) with 0 in H end end;
  repeat match goal with |- context [b2n ?b] =>
    let v := eval cbn in b in
    lazymatch v with true => change (b2n b) with 1 | false => change (b2n b) with 0 end end.

Theorem mstep_inv v w : InvM v -> mstep v w -> InvM w.
Proof.
  unfold InvM. intros HI Hs. destruct Hs as [|q a Hq Ha|q|t q Ht Hq|a Ha|a i c Ha Hi Hc|a i Ha Hi|a i Ha Hi|a c' Ha Hc Hns|a Ha Hc|t Ht Hpf|t c c' Ht Himp];
    unfold nP, nH, nN, nF, nS, nM in *; cbn [m_q m_t m_a m_c] in *.
  - done.
  - (* a queue becomes Pending, its caller enters schedule_thread *)
    pose proof (countb_insert id _ q false true Hq) as E1. pose proof (countb_insert freshc _ a AOther AFresh Ha) as E2.
    pose proof (countb_insert spawnc _ a AOther AFresh Ha) as E3. pose proof (countb_insert (scanok (m_t v)) _ a AOther AFresh Ha) as E4.
    b2. lia.
  - (* a queue stops being Pending *)
    destruct (m_q v !! q) as [b|] eqn:Hq.
    + pose proof (countb_insert id _ q b false Hq) as E1. destruct b; b2; lia.
    + rewrite list_insert_ge by (by apply lookup_ge_None). done.
  - (* a heading thread takes a Pending queue *)
    pose proof (countb_insert id _ q true false Hq) as E1. pose proof (countb_insert headc _ t THeading TWorking Ht) as E2.
    pose proof (countb_insert (fun c => negb (livec c)) _ t THeading TWorking Ht) as E3.
    pose proof (nM_insert_t v t THeading TWorking (m_a v) Ht (fun _ => eq_refl)) as E4.
    b2. lia.
  - (* the scan starts *)
    pose proof (countb_insert freshc _ a AFresh (AScan 0) Ha) as E1. pose proof (countb_insert spawnc _ a AFresh (AScan 0) Ha) as E2.
    pose proof (countb_insert (scanok (m_t v)) _ a AFresh (AScan 0) Ha) as E3.
    change (b2n (scanok (m_t v) (AScan 0))) with 1 in E3. b2. lia.
  - (* the scan passes a live thread *)
    pose proof (countb_insert freshc _ a (AScan i) (AScan (S i)) Ha) as E1. pose proof (countb_insert spawnc _ a (AScan i) (AScan (S i)) Ha) as E2.
    pose proof (countb_insert (scanok (m_t v)) _ a (AScan i) (AScan (S i)) Ha) as E3.
    pose proof (scanok_S _ _ _ Hi Hc) as E4.
    destruct (scanok (m_t v) (AScan i)) eqn:Eo; [rewrite E4 in E3 by done|]; destruct (scanok (m_t v) (AScan (S i))); b2; lia.
  - (* the scan finds a dormant thread and wakes it *)
    pose proof (countb_insert freshc _ a (AScan i) AOther Ha) as E1. pose proof (countb_insert spawnc _ a (AScan i) AOther Ha) as E2.
    pose proof (countb_insert headc _ i TDormant THeading Hi) as E3. pose proof (countb_insert (fun c => negb (livec c)) _ i TDormant THeading Hi) as E4.
    pose proof (countb_insert_mono (scanok (m_t v)) (scanok (<[i:=THeading]> (m_t v))) _ a (AScan i) AOther Ha) as E5.
    specialize (E5 ltac:(intros z _; by apply (scanok_insert _ i TDormant THeading))).
    pose proof (b2n_le (scanok (m_t v) (AScan i))) as E6.
    change (b2n (scanok (<[i:=THeading]> (m_t v)) AOther)) with 0 in E5.
    change (b2n (freshc (AScan i))) with 0 in E1. change (b2n (freshc AOther)) with 0 in E1.
    change (b2n (spawnc (AScan i))) with 0 in E2. change (b2n (spawnc AOther)) with 0 in E2.
    change (b2n (headc TDormant)) with 0 in E3. change (b2n (headc THeading)) with 1 in E3.
    b2. lia.
  - (* the scan ends *)
    pose proof (countb_insert freshc _ a (AScan i) ASpawn Ha) as E1. pose proof (countb_insert spawnc _ a (AScan i) ASpawn Ha) as E2.
    pose proof (countb_insert (scanok (m_t v)) _ a (AScan i) ASpawn Ha) as E3.
    change (b2n (freshc (AScan i))) with 0 in E1. change (b2n (freshc ASpawn)) with 0 in E1.
    change (b2n (spawnc (AScan i))) with 0 in E2. change (b2n (spawnc ASpawn)) with 1 in E2.
    change (b2n (scanok (m_t v) ASpawn)) with 0 in E3.
    destruct (scanok (m_t v) (AScan i)) eqn:Eo.
    + pose proof (scanok_end _ _ Hi Eo) as E4. change (b2n true) with 1 in E3. lia.
    + change (b2n false) with 0 in E3. lia.
  - (* a thread is spawned *)
    rewrite !countb_app. cbn [countb]. 
    pose proof (countb_insert freshc _ a ASpawn AFresh Ha) as E1. pose proof (countb_insert spawnc _ a ASpawn AFresh Ha) as E2.
    pose proof (noscan_nM (m_t v) (m_a v) Hns) as E3.
    assert (E4 : countb (scanok (m_t v ++ [TDormant])) (<[a:=AFresh]> (m_a v)) = 0).
    { apply noscan_nM. intros b i Hb. destruct (decide (a = b)) as [->|Hne].
      - rewrite list_lookup_insert in Hb by (by eapply lookup_lt_Some). done.
      - rewrite list_lookup_insert_ne in Hb by done. by eapply Hns. }
    rewrite E4. rewrite E3 in HI. rewrite Hc in HI. b2. lia.
  - (* no thread can be spawned *)
    pose proof (countb_insert freshc _ a ASpawn AOther Ha) as E1. pose proof (countb_insert spawnc _ a ASpawn AOther Ha) as E2.
    pose proof (countb_insert (scanok (m_t v)) _ a ASpawn AOther Ha) as E3.
    b2. lia.
  - (* a thread goes dormant: every Pending queue is still with its caller *)
    pose proof (countb_insert headc _ t THeading TLeaving Ht) as E3. b2. lia.
  - (* a thread comes back from a queue / has gone dormant *)
    pose proof (countb_insert headc _ t c c' Ht) as E3. pose proof (countb_insert (fun c => negb (livec c)) _ t c c' Ht) as E4.
    assert (Hl : livec c = true -> livec c' = true) by (destruct Himp as [[-> ->]|[-> ->]]; done).
    pose proof (nM_insert_t v t c c' (m_a v) Ht Hl) as E5.
    destruct Himp as [[-> ->]|[-> ->]]; b2; lia.
Qed.
