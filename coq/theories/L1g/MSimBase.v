(* L1g: how the basic updates of L1 act on the three observations the pool view is made of *)
From stdpp Require Import list numbers option.
From RecordUpdate Require Import RecordUpdate.
From L1 Require Import Model Own Shape Stuck Live.
From L1g Require Import Count MView.

Definition pq (s : state) (q : nat) : option bool := pendq <$> s.(queues) !! q.
Definition bt (s : state) (t : nat) : option bool := busy <$> s.(threads) !! t.
Definition scl (st : list frame) : acl * pcl := (aclass st, pclass st).
Definition sc (s : state) (b : nat) : option (acl * pcl) := (fun ac => scl ac.(stack)) <$> s.(actors) !! b.

(* ---------- reading the view through the observations ---------- *)
Lemma mq_lookup s q : m_q (mv s) !! q = pq s q.
Proof. unfold pq, mv. simpl. apply list_lookup_fmap. Qed.
Lemma ma_lookup s b : m_a (mv s) !! b = fst <$> sc s b.
Proof. unfold sc, stacks. change (m_a (mv s)) with (aclass <$> (stack <$> actors s)). rewrite !list_lookup_fmap. destruct (actors s !! b); reflexivity. Qed.
Lemma tcls_lookup s t : tcls s !! t =
  match bt s t, sc s (ncallers s + t) with Some b, Some c => Some (tcl_of b c.2) | _, _ => None end.
Proof.
  unfold tcls, bt, sc, stacks. rewrite lookup_zip_with, lookup_drop, list_lookup_fmap.
  destruct (threads s !! t) as [th|]; cbn; [|done]. by destruct (actors s !! (ncallers s + t)).
Qed.
Lemma mv_ext s' v :
  (forall q, pq s' q = m_q v !! q) -> (forall t, tcls s' !! t = m_t v !! t) -> (forall b, fst <$> sc s' b = m_a v !! b) ->
  s'.(maxt) - length s'.(threads) = m_c v -> mv s' = v.
Proof.
  intros H1 H2 H3 H4. destruct v as [Q T A c]. unfold mv. cbn in *. f_equal; [| | |done]; apply list_eq; intros i.
  - by rewrite <- H1, <- mq_lookup.
  - apply H2.
  - by rewrite <- H3, <- ma_lookup.
Qed.

(* ---------- wrappers ---------- *)
Lemma pq_updq s q f q' : pq (updq s q f) q' = if decide (q = q') then (fun qq => pendq (f qq)) <$> s.(queues) !! q' else pq s q'.
Proof. unfold pq. rewrite queues_updq. case_decide; [|done]. by destruct (queues s !! q'). Qed.
Lemma pq_queues X Y q : X.(queues) = Y.(queues) -> pq X q = pq Y q. Proof. unfold pq. by intros ->. Qed.
Lemma bt_updt s t f t' : bt (updt s t f) t' = if decide (t = t') then (fun th => (f th).(busy)) <$> s.(threads) !! t' else bt s t'.
Proof. unfold bt. rewrite threads_updt_lookup. case_decide; [|done]. by destruct (threads s !! t'). Qed.
Lemma bt_threads X Y t : X.(threads) = Y.(threads) -> bt X t = bt Y t. Proof. unfold bt. by intros ->. Qed.
Lemma sc_setstack s a st b : sc (setstack s a st) b = if decide (a = b) then (fun _ => scl st) <$> s.(actors) !! b else sc s b.
Proof. unfold sc. rewrite actors_setstack_lookup. case_decide; [|done]. by destruct (actors s !! b). Qed.
Lemma sc_upda s a f b : (forall x, (f x).(stack) = x.(stack)) -> sc (upda s a f) b = sc s b.
Proof. intros Hf. unfold sc. rewrite actors_upda_lookup. case_decide; [|done]. destruct (actors s !! b); cbn; [by rewrite Hf|done]. Qed.
Lemma sc_actors X Y b : X.(actors) = Y.(actors) -> sc X b = sc Y b. Proof. unfold sc. by intros ->. Qed.

Lemma scl_wake q r : scl (FSBwoken q :: r) = scl (FSBwait q :: r).
Proof. reflexivity. Qed.
Lemma sc_wake s w aw q rest b : s.(actors) !! w = Some aw -> aw.(stack) = FSBwait q :: rest -> sc (setstack s w (FSBwoken q :: rest)) b = sc s b.
Proof. intros Ew Es. rewrite sc_setstack. case_decide; [|done]. subst b. unfold sc. rewrite Ew. cbn. by rewrite Es, scl_wake. Qed.
Lemma sc_notify F s w b : sc (notify F s w) b = sc s b.
Proof.
  unfold notify. set (s1 := if f_sticky_notify F then upda s w (fun x => x <| kicked := true |>) else s).
  assert (H1 : sc s1 b = sc s b) by (subst s1; destruct (f_sticky_notify F); [by apply sc_upda|done]).
  destruct (actors s1 !! w) as [aw|] eqn:Ew; [|done]. destruct (stack aw) as [|[] rest] eqn:Es; try done.
  rewrite <- H1. by eapply sc_wake.
Qed.
Lemma sc_foldl_notify F ws s b : sc (foldl (notify F) s ws) b = sc s b.
Proof. revert s; induction ws as [|w ws IH]; intros s; cbn; [done|]. by rewrite IH, sc_notify. Qed.
Lemma sc_run_job F s j b : sc (run_job F s j) b = sc s b.
Proof.
  destruct j as [o|o c|o c]; unfold run_job; [done|by rewrite sc_upda|].
  set (s1 := upda _ c _). assert (H1 : sc s1 b = sc s b) by (subst s1; by rewrite sc_upda).
  destruct (actors s1 !! c) as [ac|] eqn:Ec; [|done]. destruct (stack ac) as [|[] rest] eqn:Es; try done.
  rewrite <- H1. by eapply sc_wake.
Qed.
Lemma foldl_notify_eta F ws s : exists A, foldl (notify F) s ws = s <| actors := A |> /\ length A = length s.(actors).
Proof. destruct (foldl_notify_frame F ws s) as (A & HA). exists A. split; [done|]. rewrite <- (foldl_notify_len F ws s), HA. done. Qed.
Lemma run_job_eta F s j : exists A R, run_job F s j = s <| actors := A |> <| ran := R |> /\ length A = length s.(actors).
Proof. destruct (run_job_frame F s j) as (A & R & HA). exists A, R. split; [done|]. rewrite <- (run_job_len F s j), HA. done. Qed.

(* ---------- pointwise comparison of the view of s' with an updated view of s ---------- *)
Lemma stacks_length s : length (stacks s) = length s.(actors). Proof. unfold stacks. by rewrite fmap_length. Qed.
Lemma tcls_length s : Shape s -> length (tcls s) = length s.(threads).
Proof.
  intros [L _ _ _ _ _ _]. unfold tcls. rewrite zip_with_length, drop_length, stacks_length. unfold ncallers. lia.
Qed.
Lemma mq_keep s s' : (forall q, pq s' q = pq s q) -> forall q, pq s' q = m_q (mv s) !! q.
Proof. intros H q. by rewrite H, mq_lookup. Qed.
Lemma mq_step s s' q0 fl : (forall q, q <> q0 -> pq s' q = pq s q) -> pq s' q0 = Some fl -> is_Some (pq s q0) ->
  forall q, pq s' q = <[q0 := fl]> (m_q (mv s)) !! q.
Proof.
  intros H1 H2 [x Hx] q. destruct (decide (q = q0)) as [->|Hne].
  - rewrite list_lookup_insert; [done|]. apply lookup_lt_is_Some. rewrite mq_lookup. by eexists.
  - rewrite list_lookup_insert_ne by done. by rewrite H1, mq_lookup.
Qed.
Lemma ma_keep s s' : (forall b, fst <$> sc s' b = fst <$> sc s b) -> forall b, fst <$> sc s' b = m_a (mv s) !! b.
Proof. intros H b. by rewrite H, ma_lookup. Qed.
Lemma ma_step s s' a cl : (forall b, b <> a -> sc s' b = sc s b) -> fst <$> sc s' a = Some cl -> is_Some (sc s a) ->
  forall b, fst <$> sc s' b = <[a := cl]> (m_a (mv s)) !! b.
Proof.
  intros H1 H2 [x Hx] b. destruct (decide (b = a)) as [->|Hne].
  - rewrite list_lookup_insert; [done|]. apply lookup_lt_is_Some. rewrite ma_lookup, Hx. by eexists.
  - rewrite list_lookup_insert_ne by done. by rewrite H1, ma_lookup.
Qed.
Lemma tcls_keep s s' : ncallers s' = ncallers s -> (forall t, bt s' t = bt s t) ->
  (forall t, snd <$> sc s' (ncallers s + t) = snd <$> sc s (ncallers s + t)) -> forall t, tcls s' !! t = m_t (mv s) !! t.
Proof.
  intros Hn H1 H2 t. change (m_t (mv s)) with (tcls s). rewrite !tcls_lookup, Hn, H1. specialize (H2 t).
  destruct (bt s t); [|done]. destruct (sc s' (ncallers s + t)) as [[? ?]|], (sc s (ncallers s + t)) as [[? ?]|]; cbn in *; congruence.
Qed.
Lemma tcls_step s s' t0 c : Shape s -> ncallers s' = ncallers s ->
  (forall t, t <> t0 -> bt s' t = bt s t) -> (forall t, t <> t0 -> snd <$> sc s' (ncallers s + t) = snd <$> sc s (ncallers s + t)) ->
  (exists b cl, bt s' t0 = Some b /\ sc s' (ncallers s + t0) = Some cl /\ tcl_of b cl.2 = c) -> t0 < length s.(threads) ->
  forall t, tcls s' !! t = <[t0 := c]> (m_t (mv s)) !! t.
Proof.
  intros HS Hn H1 H2 (b & cl & E1 & E2 & E3) Hlt t. change (m_t (mv s)) with (tcls s). destruct (decide (t = t0)) as [->|Hne].
  - rewrite list_lookup_insert by (by rewrite tcls_length). rewrite tcls_lookup, Hn, E1, E2. by rewrite E3.
  - rewrite list_lookup_insert_ne by done. rewrite !tcls_lookup, Hn, H1 by done. specialize (H2 t Hne).
    destruct (bt s t); [|done]. destruct (sc s' (ncallers s + t)) as [[? ?]|], (sc s (ncallers s + t)) as [[? ?]|]; cbn in *; congruence.
Qed.
Lemma mv_m_c s s' : s'.(maxt) = s.(maxt) -> length s'.(threads) = length s.(threads) -> s'.(maxt) - length s'.(threads) = m_c (mv s).
Proof. intros -> ->. done. Qed.

(* ---------- more wrappers ---------- *)
Lemma pq_setstack X a st q : pq (setstack X a st) q = pq X q. Proof. done. Qed.
Lemma pq_upda X a f q : pq (upda X a f) q = pq X q. Proof. done. Qed.
Lemma pq_updt X t f q : pq (updt X t f) q = pq X q. Proof. done. Qed.
Lemma pq_foldl_notify F ws X q : pq (foldl (notify F) X ws) q = pq X q.
Proof. destruct (foldl_notify_frame F ws X) as (A & ->). done. Qed.
Lemma pq_run_job F X j q : pq (run_job F X j) q = pq X q.
Proof. destruct (run_job_frame F X j) as (A & R & ->). done. Qed.
Lemma bt_setstack X a st t : bt (setstack X a st) t = bt X t. Proof. done. Qed.
Lemma bt_upda X a f t : bt (upda X a f) t = bt X t. Proof. done. Qed.
Lemma bt_updq X q f t : bt (updq X q f) t = bt X t. Proof. done. Qed.
Lemma bt_foldl_notify F ws X t : bt (foldl (notify F) X ws) t = bt X t.
Proof. destruct (foldl_notify_frame F ws X) as (A & ->). done. Qed.
Lemma bt_run_job F X j t : bt (run_job F X j) t = bt X t.
Proof. destruct (run_job_frame F X j) as (A & R & ->). done. Qed.
Lemma sc_updq X q f b : sc (updq X q f) b = sc X b. Proof. done. Qed.
Lemma sc_updt X t f b : sc (updt X t f) b = sc X b. Proof. done. Qed.
Lemma sc_setstack_eq X a st : is_Some (sc X a) -> sc (setstack X a st) a = Some (scl st).
Proof. intros [x Hx]. rewrite sc_setstack, decide_True by done. unfold sc in Hx. by destruct (actors X !! a). Qed.
Lemma sc_setstack_ne X a st b : a <> b -> sc (setstack X a st) b = sc X b.
Proof. intros. by rewrite sc_setstack, decide_False. Qed.
Lemma sc_self s a ac : s.(actors) !! a = Some ac -> sc s a = Some (scl ac.(stack)).
Proof. unfold sc. by intros ->. Qed.

(* lengths *)
Lemma nthreads_foldl_notify F ws X : length (foldl (notify F) X ws).(threads) = length X.(threads).
Proof. destruct (foldl_notify_frame F ws X) as (A & ->). done. Qed.
Lemma nthreads_run_job F X j : length (run_job F X j).(threads) = length X.(threads).
Proof. destruct (run_job_frame F X j) as (A & R & ->). done. Qed.
Lemma maxt_foldl_notify F ws X : (foldl (notify F) X ws).(maxt) = X.(maxt).
Proof. destruct (foldl_notify_frame F ws X) as (A & ->). done. Qed.
Lemma maxt_run_job F X j : (run_job F X j).(maxt) = X.(maxt).
Proof. destruct (run_job_frame F X j) as (A & R & ->). done. Qed.
Lemma pq_updq_same X q f q' : (forall x, (f x).(qs) = x.(qs)) -> pq (updq X q f) q' = pq X q'.
Proof. intros Hf. rewrite pq_updq. case_decide; [|done]. unfold pq, pendq. destruct (queues X !! q'); cbn; [by rewrite Hf|done]. Qed.
Lemma bt_updt_same X t f t' : (forall x, (f x).(busy) = x.(busy)) -> bt (updt X t f) t' = bt X t'.
Proof. intros Hf. rewrite bt_updt. case_decide; [|done]. unfold bt. destruct (threads X !! t'); cbn; [by rewrite Hf|done]. Qed.
Lemma nthreads_setstack X a st : length (setstack X a st).(threads) = length X.(threads). Proof. done. Qed.
Lemma nthreads_upda X a f : length (upda X a f).(threads) = length X.(threads). Proof. done. Qed.
Lemma nthreads_updq X q f : length (updq X q f).(threads) = length X.(threads). Proof. done. Qed.
Lemma nactors_updq X q f : length (updq X q f).(actors) = length X.(actors). Proof. done. Qed.
Lemma nactors_updt X t f : length (updt X t f).(actors) = length X.(actors). Proof. done. Qed.
Lemma maxt_setstack X a st : (setstack X a st).(maxt) = X.(maxt). Proof. done. Qed.
Lemma maxt_upda X a f : (upda X a f).(maxt) = X.(maxt). Proof. done. Qed.
Lemma maxt_updq X q f : (updq X q f).(maxt) = X.(maxt). Proof. done. Qed.
Lemma maxt_updt X t f : (updt X t f).(maxt) = X.(maxt). Proof. done. Qed.

(* ---------- the shapes a step can have, seen from the pool view ---------- *)
(* everything but (possibly) the queue flags and the class of actor a is the same *)
Record rest_same (s s' : state) : Prop := {
  rs_n : ncallers s' = ncallers s; rs_bt : forall t, bt s' t = bt s t; rs_mx : s'.(maxt) = s.(maxt);
  rs_lt : length s'.(threads) = length s.(threads);
}.
Definition q_same (s s' : state) : Prop := forall q, pq s' q = pq s q.
Definition sc_same (s s' : state) : Prop := forall b, sc s' b = sc s b.

Lemma sim_stutter s s' : rest_same s s' -> sc_same s s' -> q_same s s' -> mv s' = mv s.
Proof.
  intros [R1 R2 R3 R4] Hsc Hq. apply mv_ext; [by apply mq_keep|apply tcls_keep; try done; intros; by rewrite Hsc|apply ma_keep; intros; by rewrite Hsc|by apply mv_m_c].
Qed.
(* the flag of one queue changes *)
Lemma sim_qflag s s' q fl : rest_same s s' -> sc_same s s' ->
  (forall q', q' <> q -> pq s' q' = pq s q') -> pq s' q = Some fl -> is_Some (pq s q) ->
  mv s' = {| m_q := <[q := fl]> (m_q (mv s)); m_t := m_t (mv s); m_a := m_a (mv s); m_c := m_c (mv s) |}.
Proof.
  intros [R1 R2 R3 R4] Hsc H1 H2 H3. apply mv_ext; cbn [m_q m_t m_a m_c];
    [by apply mq_step|apply tcls_keep; try done; intros; by rewrite Hsc|apply ma_keep; intros; by rewrite Hsc|by apply mv_m_c].
Qed.
(* a caller changes its class (and possibly a queue flag) *)
Lemma sim_caller s s' a cl q fl : Shape s -> rest_same s s' -> a < ncallers s ->
  (forall b, b <> a -> sc s' b = sc s b) -> sc s' a = Some cl -> is_Some (sc s a) ->
  (forall q', q' <> q -> pq s' q' = pq s q') -> pq s' q = Some fl -> is_Some (pq s q) ->
  mv s' = {| m_q := <[q := fl]> (m_q (mv s)); m_t := m_t (mv s); m_a := <[a := cl.1]> (m_a (mv s)); m_c := m_c (mv s) |}.
Proof.
  intros HS [R1 R2 R3 R4] Ha S1 S2 S3 H1 H2 H3. apply mv_ext; cbn [m_q m_t m_a m_c];
    [by apply mq_step| |apply ma_step; try done; by rewrite S2|by apply mv_m_c].
  apply tcls_keep; try done. intros t. rewrite S1 by lia. done.
Qed.
Lemma sim_caller_noq s s' a cl : Shape s -> rest_same s s' -> a < ncallers s ->
  (forall b, b <> a -> sc s' b = sc s b) -> sc s' a = Some cl -> is_Some (sc s a) -> q_same s s' ->
  mv s' = {| m_q := m_q (mv s); m_t := m_t (mv s); m_a := <[a := cl.1]> (m_a (mv s)); m_c := m_c (mv s) |}.
Proof.
  intros HS [R1 R2 R3 R4] Ha S1 S2 S3 Hq. apply mv_ext; cbn [m_q m_t m_a m_c];
    [by apply mq_keep| |apply ma_step; try done; by rewrite S2|by apply mv_m_c].
  apply tcls_keep; try done. intros t. rewrite S1 by lia. done.
Qed.

Lemma mstep_qflag v q fl : (fl = false \/ m_q v !! q = Some fl) ->
  mstep v {| m_q := <[q := fl]> (m_q v); m_t := m_t v; m_a := m_a v; m_c := m_c v |}.
Proof.
  intros [->|H]; [apply M_unpend|]. rewrite list_insert_id by done. destruct v. apply M_stutter.
Qed.
Lemma pq_self s q qq : s.(queues) !! q = Some qq -> pq s q = Some (pendq qq).
Proof. unfold pq. by intros ->. Qed.

(* a caller's scan wakes the dormant thread i *)
Lemma sim_wake s s' a cl i x : Shape s ->
  ncallers s' = ncallers s -> s'.(maxt) = s.(maxt) -> length s'.(threads) = length s.(threads) ->
  a < ncallers s -> (forall b, b <> a -> sc s' b = sc s b) -> sc s' a = Some cl -> is_Some (sc s a) -> q_same s s' ->
  (forall t, t <> i -> bt s' t = bt s t) -> bt s' i = Some true ->
  i < length s.(threads) -> sc s (ncallers s + i) = Some (x, PRecv) ->
  mv s' = {| m_q := m_q (mv s); m_t := <[i := THeading]> (m_t (mv s)); m_a := <[a := cl.1]> (m_a (mv s)); m_c := m_c (mv s) |}.
Proof.
  intros HS Hn Hmx Hlt Ha S1 S2 S3 Hq B1 B2 Hi Hsi. apply mv_ext; cbn [m_q m_t m_a m_c];
    [by apply mq_keep| |apply ma_step; try done; by rewrite S2|by apply mv_m_c].
  apply tcls_step; try done.
  - intros t Hne. rewrite S1 by lia. done.
  - exists true, (x, PRecv). split; [done|]. split; [|done]. rewrite S1 by lia. done.
Qed.

(* the pool actor of thread t0 moves *)
Lemma sim_pool s s' t0 b' cl' : Shape s ->
  ncallers s' = ncallers s -> s'.(maxt) = s.(maxt) -> length s'.(threads) = length s.(threads) ->
  (forall b, b <> ncallers s + t0 -> sc s' b = sc s b) -> sc s' (ncallers s + t0) = Some cl' -> fst <$> sc s (ncallers s + t0) = Some cl'.1 ->
  (forall t, t <> t0 -> bt s' t = bt s t) -> bt s' t0 = Some b' -> t0 < length s.(threads) ->
  (forall q, pq s' q = m_q (mv s) !! q) ->
  mv s' = {| m_q := m_q (mv s); m_t := <[t0 := tcl_of b' cl'.2]> (m_t (mv s)); m_a := m_a (mv s); m_c := m_c (mv s) |}.
Proof.
  intros HS Hn Hmx Hlt S1 S2 S3 B1 B2 Ht Hq. apply mv_ext; cbn [m_q m_t m_a m_c]; [done| | |by apply mv_m_c].
  - apply tcls_step; try done.
    + intros t Hne. rewrite S1 by lia. done.
    + by exists b', cl'.
  - apply ma_keep. intros b. destruct (decide (b = ncallers s + t0)) as [->|Hne]; [by rewrite S2, S3|by rewrite S1].
Qed.
Lemma sim_pool_q s s' t0 b' cl' q fl : Shape s ->
  ncallers s' = ncallers s -> s'.(maxt) = s.(maxt) -> length s'.(threads) = length s.(threads) ->
  (forall b, b <> ncallers s + t0 -> sc s' b = sc s b) -> sc s' (ncallers s + t0) = Some cl' -> fst <$> sc s (ncallers s + t0) = Some cl'.1 ->
  (forall t, t <> t0 -> bt s' t = bt s t) -> bt s' t0 = Some b' -> t0 < length s.(threads) ->
  (forall q', q' <> q -> pq s' q' = pq s q') -> pq s' q = Some fl -> is_Some (pq s q) ->
  mv s' = {| m_q := <[q := fl]> (m_q (mv s)); m_t := <[t0 := tcl_of b' cl'.2]> (m_t (mv s)); m_a := m_a (mv s); m_c := m_c (mv s) |}.
Proof.
  intros HS Hn Hmx Hlt S1 S2 S3 B1 B2 Ht Q1 Q2 Q3. apply mv_ext; cbn [m_q m_t m_a m_c]; [by apply mq_step| | |by apply mv_m_c].
  - apply tcls_step; try done.
    + intros t Hne. rewrite S1 by lia. done.
    + by exists b', cl'.
  - apply ma_keep. intros b. destruct (decide (b = ncallers s + t0)) as [->|Hne]; [by rewrite S2, S3|by rewrite S1].
Qed.

(* classes of pool threads read off the pool invariants *)
Lemma pool_actor s t th : Shape s -> s.(threads) !! t = Some th -> exists ap, s.(actors) !! (ncallers s + t) = Some ap.
Proof.
  intros [L _ _ _ _ _ _] Ht. apply lookup_lt_is_Some_2. apply lookup_lt_Some in Ht. unfold ncallers. lia.
Qed.
Lemma live_class s i th : Shape s -> PoolInv s -> s.(threads) !! i = Some th -> th.(held) = false -> th.(busy) = true ->
  exists c, m_t (mv s) !! i = Some c /\ livec c = true.
Proof.
  intros HS HP Ht Hh Hb. destruct (pool_actor s i th HS Ht) as [ap Eap]. pose proof HS as [L Ta Ca Po He Sh Th].
  pose proof (He i th ap Ht Eap) as Hheld. rewrite Hh in Hheld. pose proof (Po i ap Eap) as Hok.
  change (m_t (mv s)) with (tcls s). rewrite tcls_lookup. unfold bt, sc. rewrite Ht, Eap. cbn. rewrite Hb. eexists. split; [done|].
  destruct (stack ap) as [|fr rest]; [done|]. apply pool_ok_inv in Hok as [(-> & Hfr)|(-> & Hfr)]; destruct fr; try done.
Qed.
Lemma dormant_class s i th : Shape s -> PoolInv s -> s.(threads) !! i = Some th -> th.(busy) = false ->
  exists x, sc s (ncallers s + i) = Some (x, PRecv) /\ m_t (mv s) !! i = Some TDormant.
Proof.
  intros HS HP Ht Hb. destruct (pool_actor s i th HS Ht) as [ap Eap].
  assert (Hps : pool_state_ok th (stack ap) = true) by (apply (HP i th); [done|by rewrite stacks_lookup, Eap]).
  unfold pool_state_ok in Hps. rewrite Hb in Hps. destruct (chan th); [|done].
  destruct (stack ap) as [|[] [|]] eqn:Es; try done.
  exists AOther. unfold sc. rewrite Eap. cbn. rewrite Es. split; [done|].
  change (m_t (mv s)) with (tcls s). rewrite tcls_lookup. unfold bt, sc. rewrite Ht, Eap. cbn. by rewrite Hb, Es.
Qed.

(* a pool thread is spawned by caller a *)
Lemma sim_spawn s a ac newst nth nac :
  Shape s -> s.(actors) !! a = Some ac -> a < ncallers s ->
  nth.(busy) = false -> nac.(stack) = [FTrecv (length s.(threads))] ->
  mv (setstack (s <| threads := s.(threads) ++ [nth] |> <| actors := s.(actors) ++ [nac] |>) a newst) =
  {| m_q := m_q (mv s); m_t := m_t (mv s) ++ [TDormant]; m_a := <[a := aclass newst]> (m_a (mv s)) ++ [AOther];
     m_c := s.(maxt) - S (length s.(threads)) |}.
Proof.
  intros HS Ea Ha Hb Hst. pose proof HS as [L _ _ _ _ _ _].
  set (s1 := s <| threads := s.(threads) ++ [nth] |> <| actors := s.(actors) ++ [nac] |>).
  assert (Hlen : length (actors s) = ncallers s + length (threads s)) by (unfold ncallers; lia).
  assert (Hn : ncallers (setstack s1 a newst) = ncallers s).
  { unfold ncallers. rewrite length_actors_setstack. subst s1. cbn. rewrite !app_length. cbn. lia. }
  assert (Hsc : forall b, sc (setstack s1 a newst) b =
                 if decide (b = a) then Some (scl newst) else if decide (b = length (actors s)) then Some (AOther, PRecv) else sc s b).
  { intros b. rewrite sc_setstack. destruct (decide (a = b)) as [<-|Hne].
    - rewrite decide_True by done. subst s1. cbn. rewrite lookup_app_l by (by eapply lookup_lt_Some). by rewrite Ea.
    - rewrite decide_False by done. unfold sc. subst s1. cbn. case_decide as Hb'.
      + subst b. rewrite lookup_app_r by lia. rewrite Nat.sub_diag. cbn. by rewrite Hst.
      + destruct (decide (b < length (actors s))); [by rewrite lookup_app_l|].
        rewrite lookup_app_r by lia. rewrite (proj2 (lookup_ge_None (actors s) b)) by lia.
        destruct (b - length (actors s)) eqn:E; [lia|done]. }
  apply mv_ext; cbn [m_q m_t m_a m_c].
  - intros q. rewrite mq_lookup. done.
  - intros t. change (m_t (mv s)) with (tcls s). rewrite tcls_lookup, Hn, Hsc.
    rewrite decide_False by lia.
    assert (Hbt : bt (setstack s1 a newst) t = busy <$> (threads s ++ [nth]) !! t) by done. rewrite Hbt.
    destruct (decide (t < length (threads s))) as [Hlt|Hge].
    + rewrite lookup_app_l by done. rewrite lookup_app_l by (by rewrite tcls_length). rewrite decide_False by lia. by rewrite tcls_lookup.
    + destruct (decide (t = length (threads s))) as [->|Hne].
      * rewrite lookup_app_r by lia. rewrite Nat.sub_diag. rewrite decide_True by lia. cbn. rewrite Hb.
        rewrite lookup_app_r by (rewrite tcls_length by done; lia). by rewrite tcls_length, Nat.sub_diag.
      * rewrite lookup_ge_None_2 by (rewrite app_length; cbn; lia). cbn.
        symmetry. apply lookup_ge_None_2. rewrite app_length, tcls_length by done. cbn. lia.
  - intros b. rewrite Hsc.
    assert (Hla : length (m_a (mv s)) = length (actors s)) by (unfold mv; cbn; by rewrite fmap_length, stacks_length).
    assert (Hlta : a < length (actors s)) by (by eapply lookup_lt_Some).
    destruct (decide (b = a)) as [->|Hne].
    + cbn [fmap option_fmap option_map scl fst]. rewrite lookup_app_l by (rewrite insert_length; lia).
      rewrite list_lookup_insert by lia. done.
    + 
      case_decide as Hb'.
      * subst b. cbn [fmap option_fmap option_map fst]. rewrite lookup_app_r by (rewrite insert_length; lia). by rewrite insert_length, Hla, Nat.sub_diag.
      * destruct (decide (b < length (actors s))).
        -- rewrite lookup_app_l by (rewrite insert_length; lia). rewrite list_lookup_insert_ne by done. by rewrite ma_lookup.
        -- unfold sc. rewrite (proj2 (lookup_ge_None (actors s) b)) by lia. cbn [fmap option_fmap option_map]. symmetry. apply lookup_ge_None_2.
           rewrite app_length, insert_length, Hla. cbn. lia.
  - unfold s1. cbn. rewrite app_length. cbn. lia.
Qed.

Lemma mview_eta v : {| m_q := m_q v; m_t := m_t v; m_a := m_a v; m_c := m_c v |} = v.
Proof. by destruct v. Qed.
(* while nobody holds the threads lock nobody is scanning *)
Lemma noscan s : Shape s -> s.(threads_held) = None -> forall b i, m_a (mv s) !! b <> Some (AScan i).
Proof.
  intros [_ _ _ _ _ _ Th] Hn b i Hb. rewrite ma_lookup in Hb. unfold sc in Hb. destruct (actors s !! b) as [ab|] eqn:Eb; [|done].
  cbn in Hb. destruct (stack ab) as [|fr rest] eqn:Es; [done|]. destruct fr; try done.
  assert (threads_held s = Some b) by (apply Th; eauto). congruence.
Qed.
(* with an empty schedule every Pending queue is still in the hands of the caller that will schedule it *)
Definition fresh_q (st : list frame) : option nat := match st with FD2 q :: _ | FRQ2 q :: _ => Some q | _ => None end.
Lemma pending_le_fresh s : QInv s -> s.(sched) = [] -> nP (mv s) <= nF (mv s).
Proof.
  intros HQ Hs. unfold nP, nF, mv. cbn [m_q m_a]. rewrite !countb_fmap.
  etrans; [apply (countb_names (fun x => id (pendq x)) (queues s) fresh_q (stacks s))|].
  - intros q qq Hq Hp. destruct (HQ q qq Hq) as [_ C2 _]. unfold pendq, id in Hp. destruct (qs qq) eqn:Es; try done.
    destruct (C2 eq_refl) as [_ [Hin|[Ht|Ht]]]; [rewrite Hs in Hin; by apply elem_of_nil in Hin| |].
    all: destruct Ht as (b & st & Hb & Hh); exists st; split; [by eapply elem_of_list_lookup_2|]; destruct st as [|[] ?]; cbn in Hh; try done; by injection Hh as ->.
  - apply countb_mono. intros st _ H. apply bool_decide_eq_true in H as [q H]. destruct st as [|[] ?]; done.
Qed.
