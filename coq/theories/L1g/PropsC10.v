(* C10 - different Desync objects make progress independently.  Layer L1, for every program, number of objects,
   pool maximum and schedule.

   "Blocked for an arbitrarily long time" is modelled without changing the model: an actor that is inside a closure
   (a pool thread at FDRrun q j, or a sync caller at FROrun q j / FSIrun q) could always move, but simply never does.
   [frozen_ok s B]: every actor of B is at such a frame.  [terminal_except T F B s]: nobody outside B can move.
   [pool_free mx scripts s B]: the pool has a thread that is not frozen, or may still spawn one (fewer than mx exist).
   [quiet_except s B]: (1) every queue is Idle and empty - all its operations ran - unless a frozen actor is running it;
   (2) every caller outside B finished its script, or waits in sync (FSBwait q) with its job stored in a queue run by a frozen
   actor or held by a frozen actor; (3) every pool thread outside B is dormant.

   Fully proved.  The new ingredient is the matching invariant InvM (L1g/MView.v): the schedule_thread calls in flight cover
   the Pending queues that have no thread heading for the schedule, or they cover the whole idle capacity of the pool. *)
From stdpp Require Import list numbers option.
From L0 Require Import Types.
From Gen Require Import Tables.
From L1 Require Import Model Own Shape Stuck Live Wait Help Final Pool.
From L1g Require Import MView Frozen MainC10 ExamplesC10.

Theorem C10_blocked_objects_do_not_stop_the_others_L1 :
  forall (T : tables) (F : facts), core_tables T -> own_conditions T -> F.(f_dormant_blocks) = true ->
  forall nq mx scripts, wf_scripts nq scripts -> 1 <= mx ->
  forall tr s B,
    run T F (init nq mx scripts) tr = Some s -> frozen_ok s B -> terminal_except T F B s -> pool_free mx scripts s B ->
    quiet_except s B.
Proof. exact L_quiet_frozen. Qed.

(* k objects blocked on gates, pool maximum above k *)
Theorem C10_fewer_blocked_than_the_pool_maximum_L1 :
  forall (T : tables) (F : facts), core_tables T -> own_conditions T -> F.(f_dormant_blocks) = true ->
  forall nq mx scripts, wf_scripts nq scripts -> 1 <= mx ->
  forall tr s B,
    run T F (init nq mx scripts) tr = Some s -> frozen_ok s B -> terminal_except T F B s ->
    length (filter (fun a => length scripts <= a) B) < mx ->
    quiet_except s B.
Proof. exact L_quiet_frozen_count. Qed.

(* a thread blocked inside sync is a caller: it occupies no pool thread, and never stops the pool from serving the others *)
Theorem C10_blocked_in_sync_is_not_a_pool_thread_L1 :
  forall (T : tables) (F : facts) nq mx scripts tr s a ac fr rest,
    run T F (init nq mx scripts) tr = Some s -> s.(actors) !! a = Some ac -> ac.(stack) = fr :: rest -> sync_frame fr ->
    a < length scripts.
Proof. exact sync_blocked_is_caller. Qed.
Theorem C10_blocked_in_sync_does_not_stop_the_pool_L1 :
  forall (T : tables) (F : facts), core_tables T -> own_conditions T -> F.(f_dormant_blocks) = true ->
  forall nq mx scripts, wf_scripts nq scripts -> 1 <= mx ->
  forall tr s B,
    run T F (init nq mx scripts) tr = Some s ->
    (forall a, a ∈ B -> exists ac fr rest, s.(actors) !! a = Some ac /\ ac.(stack) = fr :: rest /\ sync_frame fr) ->
    terminal_except T F B s -> quiet_except s B.
Proof. exact L_quiet_blocked_in_sync. Qed.

(* the invariant behind it holds in every reachable state *)
Theorem C10_matching_invariant_L1 :
  forall (T : tables) (F : facts), core_tables T -> own_conditions T -> F.(f_dormant_blocks) = true ->
  forall nq mx scripts tr s, wf_scripts nq scripts -> 1 <= mx -> run T F (init nq mx scripts) tr = Some s -> All s /\ InvM (mv s).
Proof. exact reachable_invm. Qed.

Print Assumptions C10_blocked_objects_do_not_stop_the_others_L1.
Print Assumptions C10_fewer_blocked_than_the_pool_maximum_L1.
Print Assumptions C10_blocked_in_sync_is_not_a_pool_thread_L1.
Print Assumptions C10_blocked_in_sync_does_not_stop_the_pool_L1.
Print Assumptions C10_matching_invariant_L1.

(* non-vacuity: in run G the pool thread running object 0's job (actor 2) is frozen; nobody else can move; one of the two
   pool threads is not frozen; and indeed object 1 is Idle and empty, both callers are done, the other pool thread is dormant *)
Example C10_hypotheses_hold :
  exists s, run gen_tables gen_facts exG_init exG_trace = Some s /\ wf_scripts 2 exG_scripts /\
            frozen_ok s [2] /\ terminal_except gen_tables gen_facts [2] s /\ pool_free 2 exG_scripts s [2] /\
            length (filter (fun a => length exG_scripts <= a) [2]) < 2.
Proof.
  eexists. split; [vm_compute; reflexivity|]. split; [repeat constructor|].
  split; [apply frozen_b_sound; vm_compute; reflexivity|]. split; [apply texc_b_sound; vm_compute; reflexivity|].
  split; [|vm_compute; lia]. right. exists 1. split; [vm_compute; lia|]. cbn. intros H. apply elem_of_list_singleton in H. lia.
Qed.
(* in run S caller 0 is frozen inside its sync closure on object 0; caller 1's desync on object 1 ran, and its sync on
   object 0 waits behind caller 0 *)
Example C10_sync_hypotheses_hold :
  exists s, run gen_tables gen_facts exS_init exS_trace = Some s /\ wf_scripts 2 exS_scripts /\
            (forall a, a ∈ [0] -> exists ac fr rest, s.(actors) !! a = Some ac /\ ac.(stack) = fr :: rest /\ sync_frame fr) /\
            terminal_except gen_tables gen_facts [0] s.
Proof.
  eexists. split; [vm_compute; reflexivity|]. split; [repeat constructor|].
  split; [|apply texc_b_sound; vm_compute; reflexivity].
  intros a Ha. apply elem_of_list_singleton in Ha as ->. eexists _, _, _. split; [vm_compute; reflexivity|]. split; [reflexivity|done].
Qed.
