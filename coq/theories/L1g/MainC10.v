(* L1g: C10 - blocked objects do not stop the others.  The theorems about runs of the L1 model. *)
From stdpp Require Import list list_numbers numbers option.
From RecordUpdate Require Import RecordUpdate.
From L1 Require Import Model Own Shape Stuck Live Wait Help Final Pool.
From L1g Require Import Count MView MSimBase MSim MInv Frozen.

Section Main.
  Context (T : tables) (F : facts) (HK : core_tables T) (HT : own_conditions T) (HF : F.(f_dormant_blocks) = true).
  Context (nq mx : nat) (scripts : list (list op)) (Hwf : wf_scripts nq scripts) (Hmx : 1 <= mx).

  Lemma reach_pool tr s : run T F (init nq mx scripts) tr = Some s ->
    length s.(threads) <= mx /\ s.(maxt) = mx /\ ncallers s = length scripts.
  Proof.
    clear HK HT HF Hwf Hmx. intros Hr. destruct (reachable_pool_bounded T F nq mx scripts tr s Hr) as (H1 & H2 & H3). unfold ncallers. repeat split; [done|done|lia].
  Qed.

  (* the pool has a thread that is not frozen, or may still spawn one *)
  Definition pool_free (s : state) (B : list nat) : Prop :=
    length s.(threads) < mx \/ exists t, t < length s.(threads) /\ length scripts + t ∉ B.

  Theorem L_quiet_frozen tr s B :
    run T F (init nq mx scripts) tr = Some s -> frozen_ok s B -> terminal_except T F B s -> pool_free s B -> quiet_except s B.
  Proof.
    intros Hr HB Hterm Hfree. destruct (reachable_invm T F HK HT HF nq mx scripts tr s Hwf Hmx Hr) as [HA HM].
    destruct (reach_pool tr s Hr) as (P1 & P2 & P3).
    apply (frozen_quiet T F B s HA HM HB Hterm). rewrite P2, P3. exact Hfree.
  Qed.

  (* fewer than mx pool threads are frozen *)
  Lemma few_frozen_free tr s B : run T F (init nq mx scripts) tr = Some s ->
    length (filter (fun a => length scripts <= a) B) < mx -> pool_free s B.
  Proof.
    intros Hr Hlen. destruct (reach_pool tr s Hr) as (P1 & P2 & P3). unfold pool_free.
    destruct (decide (length (threads s) < mx)) as [|Hge]; [by left|]. right.
    destruct (decide (Forall (fun t => length scripts + t ∈ B) (seq 0 (length (threads s))))) as [HF'|Hn].
    2: { apply not_Forall_Exists in Hn; [|apply _]. apply list.Exists_exists in Hn as (t & Ht%elem_of_seq & Hnin). exists t. split; [lia|done]. }
    exfalso.
    assert (Hall : forall t, t < length (threads s) -> length scripts + t ∈ B).
    { intros t Ht. rewrite list.Forall_forall in HF'. apply HF'. apply elem_of_seq. lia. }
    set (L := (fun t => length scripts + t) <$> seq 0 (length (threads s))).
    assert (H1 : length L <= length (filter (fun a => length scripts <= a) B)).
    { apply submseteq_length, NoDup_submseteq.
      - apply NoDup_fmap_2; [intros ???; lia|apply NoDup_seq].
      - intros x (t & -> & Ht%elem_of_seq)%elem_of_list_fmap. apply elem_of_list_filter. split; [lia|]. apply Hall. lia. }
    unfold L in H1. rewrite fmap_length, seq_length in H1. lia.
  Qed.
  Corollary L_quiet_frozen_count tr s B :
    run T F (init nq mx scripts) tr = Some s -> frozen_ok s B -> terminal_except T F B s ->
    length (filter (fun a => length scripts <= a) B) < mx -> quiet_except s B.
  Proof. intros Hr HB Hterm Hlen. apply (L_quiet_frozen tr s B Hr HB Hterm). by eapply few_frozen_free. Qed.

  (* a thread blocked inside sync is a caller, not a pool thread: it occupies no pool thread *)
  Definition sync_frame (fr : frame) : Prop := match fr with FROrun _ _ | FSIrun _ => True | _ => False end.
  Lemma sync_blocked_is_caller tr s a ac fr rest :
    run T F (init nq mx scripts) tr = Some s -> s.(actors) !! a = Some ac -> ac.(stack) = fr :: rest -> sync_frame fr -> a < length scripts.
  Proof.
    clear HK HT HF Hwf Hmx. intros Hr Ea Es Hf. destruct (reach_pool tr s Hr) as (_ & _ & <-).
    pose proof (reachable_shape T F nq mx scripts tr s Hr) as HS.
    destruct (kind_of s a ac HS Ea) as [[Hlt _]|(t & -> & Hok)]; [done|]. exfalso.
    rewrite Es in Hok. apply pool_ok_inv in Hok as [(-> & H1)|(-> & H1)]; by destruct fr.
  Qed.
  Theorem L_quiet_blocked_in_sync tr s B :
    run T F (init nq mx scripts) tr = Some s ->
    (forall a, a ∈ B -> exists ac fr rest, s.(actors) !! a = Some ac /\ ac.(stack) = fr :: rest /\ sync_frame fr) ->
    terminal_except T F B s -> quiet_except s B.
  Proof.
    intros Hr HB Hterm.
    assert (HB' : frozen_ok s B).
    { intros a Ha. destruct (HB a Ha) as (ac & fr & rest & E1 & E2 & E3). exists ac, fr, rest. repeat split; try done. by destruct fr. }
    assert (Hcal : forall a, a ∈ B -> a < length scripts).
    { intros a Ha. destruct (HB a Ha) as (ac & fr & rest & E1 & E2 & E3). by eapply sync_blocked_is_caller. }
    apply (L_quiet_frozen tr s B Hr HB' Hterm). unfold pool_free.
    destruct (threads s) as [|th ths] eqn:Et; [left; cbn; lia|]. right. exists 0. split; [cbn; lia|].
    intros Hin. specialize (Hcal _ Hin). lia.
  Qed.
End Main.

(* checkable forms, for the examples *)
Definition texc_b (T : tables) (F : facts) (B : list nat) (s : state) : bool :=
  forallb (fun a => bool_decide (a ∈ B) || match step T F s a with None => true | Some _ => false end) (seq 0 (length s.(actors))).
Lemma texc_b_sound T F B s : texc_b T F B s = true -> terminal_except T F B s.
Proof.
  intros H a Ha. unfold texc_b in H. rewrite forallb_forall in H.
  destruct (decide (a < length (actors s))) as [Hlt|Hge].
  - assert (Hin : In a (seq 0 (length (actors s)))) by (apply in_seq; lia). specialize (H a Hin).
    rewrite bool_decide_false in H by done. cbn in H. by destruct (step T F s a).
  - unfold step. rewrite (proj2 (lookup_ge_None _ _)) by lia. done.
Qed.
Definition frozen_b (s : state) (B : list nat) : bool :=
  forallb (fun a => match s.(actors) !! a with
                    | Some ac => match ac.(stack) with (FDRrun _ _ | FROrun _ _ | FSIrun _) :: _ => true | _ => false end
                    | None => false end) B.
Lemma frozen_b_sound s B : frozen_b s B = true -> frozen_ok s B.
Proof.
  intros H a Ha. unfold frozen_b in H. rewrite forallb_forall in H. specialize (H a). rewrite <- elem_of_list_In in H. specialize (H Ha).
  destruct (actors s !! a) as [ac|]; [|done]. destruct (stack ac) as [|fr rest] eqn:E; [done|]. exists ac, fr, rest. repeat split; try done. by destruct fr.
Qed.
