(* L1g: every L1 step is a move of the abstract pool machine *)
From stdpp Require Import list numbers option.
From RecordUpdate Require Import RecordUpdate.
From L1 Require Import Model Own Shape Stuck Live Wait Help.
From L1g Require Import Count MView MSimBase.

Ltac pq_peel := repeat first
  [ rewrite pq_updq_same by done | rewrite pq_setstack | rewrite pq_upda | rewrite pq_updt | rewrite pq_foldl_notify | rewrite pq_run_job
  | lazymatch goal with |- context [pq (set ?fld ?f ?Y) ?q] => change (pq (set fld f Y) q) with (pq Y q) end ].
Ltac bt_peel := repeat first
  [ rewrite bt_updt_same by done | rewrite bt_setstack | rewrite bt_upda | rewrite bt_updq | rewrite bt_foldl_notify | rewrite bt_run_job
  | lazymatch goal with |- context [bt (set ?fld ?f ?Y) ?q] => change (bt (set fld f Y) q) with (bt Y q) end ].
Ltac sc_peel := repeat first
  [ rewrite sc_updq | rewrite sc_updt | rewrite sc_foldl_notify | rewrite sc_run_job | rewrite sc_upda by done
  | lazymatch goal with |- context [sc (set ?fld ?f ?Y) ?q] => change (sc (set fld f Y) q) with (sc Y q) end ].
Ltac len_peel := unfold ncallers;
  repeat first [ rewrite length_actors_setstack | rewrite length_actors_upda | rewrite nactors_updq | rewrite nactors_updt | rewrite foldl_notify_len | rewrite run_job_len
               | rewrite nthreads_setstack | rewrite nthreads_upda | rewrite nthreads_updq | rewrite length_threads_updt | rewrite nthreads_foldl_notify | rewrite nthreads_run_job
               | rewrite maxt_setstack | rewrite maxt_upda | rewrite maxt_updq | rewrite maxt_updt | rewrite maxt_foldl_notify | rewrite maxt_run_job ];
  cbn [actors threads maxt set]; try done.

Ltac rest_tac := split; [ len_peel | intros t'; bt_peel; reflexivity | len_peel | len_peel ].
Ltac scsame_tac Hsc := let b' := fresh "b'" in intros b'; lazymatch goal with |- sc (setstack ?X ?a ?st) _ = _ =>
  destruct (decide (a = b')) as [<-|Hne];
  [ rewrite sc_setstack_eq by (sc_peel; rewrite Hsc; by eexists); rewrite Hsc; reflexivity
  | rewrite sc_setstack_ne by done; sc_peel; reflexivity ] end.
Ltac scne_tac := let b' := fresh "b'" in let Hne := fresh "Hne" in intros b' Hne; rewrite sc_setstack_ne by done; sc_peel; reflexivity.
Ltac sceq_tac Hsc := rewrite sc_setstack_eq by (sc_peel; rewrite Hsc; by eexists); reflexivity.
Ltac qsame_tac := let q' := fresh "q'" in intros q'; pq_peel; reflexivity.
(* evaluate a table on the three states a queue of the prototype can be in *)
Ltac core_tab HK HQ :=
  match goal with Eq : queues _ !! ?q = Some ?qq |- _ =>
    let Hc := fresh "Hc" in
    destruct (qc_core _ _ _ (HQ _ _ Eq)) as [Hc|[Hc|Hc]];
    repeat match goal with E : context [qs qq] |- _ => lazymatch type of E with qs qq = _ => fail | _ => rewrite Hc in E end end;
    repeat match goal with
    | E : context [t_sync _ _ _] |- _ => first [rewrite (k_sync_i _ HK) in E | rewrite (k_sync_p _ HK) in E | rewrite (k_sync_r _ HK) in E]
    | E : context [t_trysync _ _ _] |- _ => first [rewrite (k_try_i _ HK) in E | rewrite (k_try_p _ HK) in E | rewrite (k_try_r _ HK) in E]
    | E : context [t_desync _ _] |- _ => first [rewrite (k_desync_i _ HK) in E | rewrite (k_desync_p _ HK) in E | rewrite (k_desync_r _ HK) in E]
    | E : context [t_resched _ _ _] |- _ => first [rewrite (k_resched_i _ HK) in E | rewrite (k_resched_p _ HK) in E | rewrite (k_resched_r _ HK) in E]
    | E : context [t_claim _ _] |- _ => first [rewrite (k_claim_i _ HK) in E | rewrite (k_claim_p _ HK) in E | rewrite (k_claim_r _ HK) in E]
    | E : context [t_next _ _] |- _ => first [rewrite (k_next_i _ HK) in E | rewrite (k_next_p _ HK) in E | rewrite (k_next_r _ HK) in E]
    | E : context [t_drain_fin _ Running _] |- _ => rewrite (k_fin _ HK) in E
    end;
    repeat match goal with E : context [if ?b then _ else _] |- _ => destruct b eqn:? end;
    simplify_eq
  end.

Ltac q_at Eq := unfold pq; repeat first
  [ rewrite queues_updq, decide_True by done | rewrite (proj1 (foldl_notify_obs _ _ _))
  | lazymatch goal with |- context [queues (set ?fld ?f ?Y)] => change (queues (set fld f Y)) with (queues Y) end ];
  rewrite ?list_lookup_fmap; rewrite Eq; cbn.
Ltac pqeq_tac Eq := rewrite pq_setstack; rewrite pq_updq, decide_True by done; q_at Eq; reflexivity.
Ltac pqne_tac := let q' := fresh "q'" in let Hne := fresh "Hne" in intros q' Hne; rewrite pq_setstack; repeat (rewrite pq_updq, decide_False by done); pq_peel; reflexivity.

Section MSim.
  Context (T : tables) (F : facts) (HK : core_tables T) (HF : F.(f_dormant_blocks) = true).

  Lemma step_msim s a s' : Shape s -> Inv s -> WF s -> PoolInv s -> QInv s -> step T F s a = Some s' -> mstep (mv s) (mv s').
  Proof.
    intros HS HIv HW HP HQ Hstep. unfold step in Hstep.
    destruct (actors s !! a) as [ac|] eqn:Ea; cbn in Hstep; [|congruence].
    destruct (stack ac) as [|fr rest] eqn:Est; [congruence|].
    pose proof (kind_of s a ac HS Ea) as Hkind. rewrite Est in Hkind.
    pose proof (sc_self s a ac Ea) as Hsc. rewrite Est in Hsc.
    pose proof (WF_self s a ac HW Ea) as Hwf. rewrite Est in Hwf. cbn [forallb] in Hwf. apply andb_true_iff in Hwf as [Hfrok _].
    destruct fr.
    all: cbn [frame_ok] in Hfrok.
    all: cbn beta iota zeta in Hstep.
    all: repeat (first
         [ match type of Hstep with
           | context [queues _ !! ?q] => let E := fresh "Eq" in destruct (queues s !! q) as [qq|] eqn:E; cbn in Hstep; [|congruence]
           | context [threads _ !! ?t] => let E := fresh "Et" in destruct (threads s !! t) as [th|] eqn:E; cbn in Hstep
           end
         | match type of Hstep with context [match ?x with _ => _ end] => let E := fresh "E" in destruct x eqn:E end; cbn in Hstep; try congruence ]).
    all: try discriminate.
    all: try (injection Hstep as <-).
    all: try (lazymatch goal with Eq : queues _ !! _ = Some _ |- _ => fail | _ => idtac end;
              apply bool_decide_eq_true in Hfrok; destruct (queue_exists s _ Hfrok) as [qq Eq]).
    all: destruct Hkind as [[Hlt Hok]|(t0 & Hat & Hok)];
         [ apply caller_ok_inv in Hok as [(-> & Hfr)|[(os & -> & Hsf)|(g & os & -> & Hpo)]]; try discriminate;
           try (cbn in Hpo; destruct g; try discriminate; try (apply bool_decide_eq_true in Hpo; subst))
         | apply pool_ok_inv in Hok as [(-> & Hfr)|(-> & Hfr)]; try discriminate; try (cbn in Hfr; apply bool_decide_eq_true in Hfr) ].
    (* steps the pool view does not see *)
    all: try (lazymatch goal with |- mstep _ (mv (setstack ?X _ ?st)) =>
              replace (mv (setstack X a st)) with (mv s); [apply M_stutter|]; symmetry; apply mv_ext;
              [ apply mq_keep; intros q'; pq_peel; reflexivity
              | apply tcls_keep; [ len_peel | intros t'; bt_peel; reflexivity
                                 | intros t'; destruct (decide (a = ncallers s + t')) as [Heq|Hne];
                                   [ rewrite <- Heq, sc_setstack_eq by (sc_peel; rewrite Hsc; by eexists); rewrite Hsc; reflexivity
                                   | rewrite sc_setstack_ne by done; sc_peel; reflexivity ] ]
              | apply ma_keep; intros b'; destruct (decide (a = b')) as [<-|Hne];
                [ rewrite sc_setstack_eq by (sc_peel; rewrite Hsc; by eexists); rewrite Hsc; reflexivity
                | rewrite sc_setstack_ne by done; sc_peel; reflexivity ]
              | apply mv_m_c; len_peel ] end; fail).
    (* the owner of a queue is running it *)
    all: try (match goal with Eq : queues _ !! ?q = Some ?qq |- _ => assert (Hrun : qs qq = Running)
               by (eapply (runner_owns s a q qq 0); [exact HIv| |exact Eq]; rewrite (stack_cnt_self s a ac q Ea), Est; cbn [cnt owns_b]; rewrite bool_decide_true by done; done) end).
    (* a queue changes its state, nothing else *)
    all: try (lazymatch goal with
              | Est : stack _ = FTexam _ :: _ |- _ => fail
              | E : t_desync _ _ = (_, DASchedule) |- _ => fail
              | E : t_resched _ _ _ = (_, true) |- _ => fail
              | E : t_drain_fin _ _ _ = (_, true) |- _ => fail
              | Eq : queues _ !! ?q = Some ?qq |- mstep _ (mv (setstack (updq ?X ?q ?g) _ ?st)) => idtac end;
              try core_tab HK HQ; try congruence;
              lazymatch goal with Eq : queues _ !! ?q = Some ?qq |- mstep _ (mv ?s1) =>
                erewrite (sim_qflag s s1 q); cycle 1;
                [ rest_tac | scsame_tac Hsc | pqne_tac | pqeq_tac Eq | rewrite (pq_self _ _ _ Eq); by eexists
                | apply mstep_qflag; first [left; reflexivity | right; rewrite mq_lookup, (pq_self _ _ _ Eq); unfold pendq; rewrite Hc; reflexivity] ] end; fail).
    (* a queue becomes Pending and its caller enters schedule_thread *)
    all: try (lazymatch goal with
              | E : t_desync _ _ = (_, DASchedule) |- _ => idtac
              | E : t_resched _ _ _ = (_, true) |- _ => idtac end;
              core_tab HK HQ; try congruence;
              lazymatch goal with Eq : queues _ !! ?q = Some ?qq |- mstep _ (mv ?s1) =>
                erewrite (sim_caller s s1 a _ q true HS); cycle 1;
                [ rest_tac | exact Hlt | scne_tac | sceq_tac Hsc | rewrite Hsc; by eexists | pqne_tac | pqeq_tac Eq | rewrite (pq_self _ _ _ Eq); by eexists
                | apply M_pend; [rewrite mq_lookup, (pq_self _ _ _ Eq); unfold pendq; rewrite Hc; reflexivity | rewrite ma_lookup, Hsc; reflexivity] ] end; fail).
    (* the scan of schedule_thread *)
    all: try (lazymatch goal with Est : stack _ = ?f :: _ |- mstep _ (mv ?s1) =>
              lazymatch f with FSTlock => idtac | FSTscan _ => idtac | FSTspawn => idtac end;
              erewrite (sim_caller_noq s s1 a _ HS); cycle 1;
              [ rest_tac | exact Hlt | scne_tac | sceq_tac Hsc | rewrite Hsc; by eexists | qsame_tac | ];
              first
              [ apply M_scan0; rewrite ma_lookup, Hsc; reflexivity
              | match goal with Et : threads _ !! ?i = Some ?th, H1 : held ?th = false, H2 : busy ?th = true |- _ =>
                  destruct (live_class s i th HS HP Et H1 H2) as (c & Hc1 & Hc2);
                  eapply M_scan_next; [rewrite ma_lookup, Hsc; reflexivity | exact Hc1 | exact Hc2] end
              | match goal with Et : threads _ !! ?i = None |- _ =>
                  eapply M_scan_end; [rewrite ma_lookup, Hsc; reflexivity | change (m_t (mv s)) with (tcls s); rewrite tcls_length by done; by apply lookup_ge_None] end
              | apply M_spawn_fail; [rewrite ma_lookup, Hsc; reflexivity | cbn; lia] ] end; fail).
    (* the scan finds a dormant thread and hands it the work *)
    all: try (lazymatch goal with Et : threads _ !! ?i = Some ?th, H2 : busy ?th = false |- mstep _ (mv ?s1) =>
              destruct (dormant_class s i th HS HP Et H2) as (x & Hx1 & Hx2);
              erewrite (sim_wake s s1 a _ i x HS); cycle 1;
              [ len_peel | len_peel | len_peel | exact Hlt | scne_tac | sceq_tac Hsc | rewrite Hsc; by eexists | qsame_tac
              | intros t' Hne; rewrite bt_setstack, bt_updt, decide_False by done; reflexivity
              | rewrite bt_setstack, bt_updt, decide_True by done; cbn [threads set]; rewrite Et; reflexivity
              | by eapply lookup_lt_Some | exact Hx1
              | apply M_scan_wake; [rewrite ma_lookup, Hsc; reflexivity | exact Hx2] ] end; fail).
    (* a thread is spawned *)
    all: try (lazymatch goal with |- mstep _ (mv (setstack (_ <| threads := _ ++ [?nth] |> <| actors := _ ++ [?nac] |>) _ ?st)) =>
              rewrite (sim_spawn s a ac st nth nac HS Ea Hlt eq_refl eq_refl);
              eapply M_spawn; [ rewrite ma_lookup, Hsc; reflexivity | cbn; lia | apply noscan; [done|]; locks; done ] end; fail).
    (* the pool actor of thread t0 *)
    all: try subst t.
    all: subst a.
    all: assert (Hlt0 : t0 < length (threads s)) by (pose proof HS as [L _ _ _ _ _ _]; apply lookup_lt_Some in Ea; unfold ncallers in Ea; lia).
    all: destruct (lookup_lt_is_Some_2 _ _ Hlt0) as [th0 Et0].
    all: assert (Hbt0 : bt s t0 = Some (busy th0)) by (unfold bt; by rewrite Et0).
    all: try core_tab HK HQ; try congruence.
    (* FTrecv: the woken thread starts *)
    1: { rewrite Et0 in Et. injection Et as <-.
         assert (Hb : busy th0 = true).
         { pose proof (HP t0 th0 (stack ac) Et0 ltac:(by rewrite stacks_lookup, Ea)) as Hps. rewrite Est in Hps. unfold pool_state_ok in Hps.
           rewrite E in Hps. by destruct (busy th0). }
         lazymatch goal with |- mstep _ (mv ?s1) => erewrite (sim_pool s s1 t0 _ _ HS); cycle 1 end;
         [ len_peel | len_peel | len_peel | scne_tac | sceq_tac Hsc | rewrite Hsc; reflexivity
         | intros t' Hne; bt_peel; reflexivity | bt_peel; exact Hbt0 | exact Hlt0 | apply mq_keep; qsame_tac | ].
         rewrite list_insert_id; [rewrite mview_eta; apply M_stutter|].
         change (m_t (mv s)) with (tcls s). rewrite tcls_lookup, Hbt0, Hsc. cbn. by rewrite Hb. }
    (* FTexam: nothing scheduled, the thread goes dormant *)
    1: { lazymatch goal with |- mstep _ (mv ?s1) => erewrite (sim_pool s s1 t0 _ _ HS); cycle 1 end;
         [ len_peel | len_peel | len_peel | scne_tac | sceq_tac Hsc | rewrite Hsc; reflexivity
         | intros t' Hne; bt_peel; reflexivity | bt_peel; exact Hbt0 | exact Hlt0 | apply mq_keep; qsame_tac | ].
         apply M_leave; [|by apply pending_le_fresh].
         change (m_t (mv s)) with (tcls s). rewrite tcls_lookup, Hbt0, Hsc. reflexivity. }
    (* FTexam: the thread takes the first Pending queue *)
    1: { lazymatch goal with Eq : queues _ !! ?q = Some ?qq |- mstep _ (mv ?s1) => erewrite (sim_pool_q s s1 t0 _ _ q false HS); cycle 1;
           [ len_peel | len_peel | len_peel | scne_tac | sceq_tac Hsc | rewrite Hsc; reflexivity
           | intros t' Hne; bt_peel; reflexivity | bt_peel; exact Hbt0 | exact Hlt0 | pqne_tac | pqeq_tac Eq | rewrite (pq_self _ _ _ Eq); by eexists | ];
           apply M_take;
           [ change (m_t (mv s)) with (tcls s); rewrite tcls_lookup, Hbt0, Hsc; reflexivity
           | rewrite mq_lookup, (pq_self _ _ _ Eq); unfold pendq; rewrite Hc; reflexivity ] end. }
    (* FTrelnone: the thread is dormant *)
    1: { lazymatch goal with |- mstep _ (mv ?s1) => erewrite (sim_pool s s1 t0 false _ HS); cycle 1 end;
         [ len_peel | len_peel | len_peel | scne_tac | sceq_tac Hsc | rewrite Hsc; reflexivity
         | intros t' Hne; rewrite bt_setstack, bt_updt, decide_False by done; reflexivity
         | rewrite bt_setstack, bt_updt, decide_True by done; rewrite Et0; reflexivity | exact Hlt0 | apply mq_keep; qsame_tac | ].
         eapply (M_thread _ t0 TLeaving TDormant); [|by right].
         change (m_t (mv s)) with (tcls s). rewrite tcls_lookup, Hbt0, Hsc. reflexivity. }
    (* FDRfin: the queue is drained, the thread returns to the schedule *)
    lazymatch goal with Eq : queues _ !! ?q = Some ?qq |- mstep _ (mv ?s1) => erewrite (sim_pool_q s s1 t0 _ _ q false HS); cycle 1;
      [ len_peel | len_peel | len_peel | scne_tac | sceq_tac Hsc | rewrite Hsc; reflexivity
      | intros t' Hne; bt_peel; reflexivity | bt_peel; exact Hbt0 | exact Hlt0 | pqne_tac | pqeq_tac Eq | rewrite (pq_self _ _ _ Eq); by eexists | ];
      rewrite (list_insert_id (m_q (mv s))) by (rewrite mq_lookup, (pq_self _ _ _ Eq); unfold pendq; by rewrite Hrun);
      eapply (M_thread _ t0 TWorking THeading); [|by left];
      change (m_t (mv s)) with (tcls s); rewrite tcls_lookup, Hbt0, Hsc; reflexivity end.
  Qed.
End MSim.
