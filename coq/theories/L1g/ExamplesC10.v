(* L1g: concrete runs for the non-vacuity examples of C10.  Definitions and vm_compute examples only. *)
From stdpp Require Import list numbers option.
From L0 Require Import Types.
From Gen Require Import Tables.
From L1 Require Import Model Stuck.

(* run G: two objects, a pool of two.  caller 0: desync(0); desync(1)    caller 1: sync(1).
   The pool thread that took object 0 (actor 2) stays inside object 0's job (blocked on a gate): it never moves again. *)
Definition exG_scripts : list (list op) := [[ODesync 0; ODesync 1]; [OSync 1]].
Definition exG_init : state := init 2 2 exG_scripts.
Definition exG_trace : list nat :=
  [0; 0; 0; 0; 0; 0; 0; 0; 2; 2; 2; 2; 2; 2; 0; 0; 0; 0; 0; 0; 0; 0; 0; 0; 1; 1; 1; 1; 1; 1; 1; 1; 1; 1; 1; 1; 3; 3; 3; 3; 3; 3].
Example exG_end : exists s, run gen_tables gen_facts exG_init exG_trace = Some s /\
  stack <$> s.(actors) = [[FTop []]; [FTop []]; [FDRrun 0 (JPlain 0); FTlock 0]; [FTrecv 1]] /\
  (fun q => (qs q, jobs q, owner q)) <$> s.(queues) = [(Running, [], Some 2); (Idle, [], None)] /\ s.(ran) = [2; 1].
Proof. eexists. split; [vm_compute; reflexivity|]. repeat split; vm_compute; reflexivity. Qed.

(* run S: two objects, a pool of one.  caller 0: sync(0)    caller 1: desync(1); sync(0).
   Caller 0 stays inside its (immediate) sync closure on object 0. *)
Definition exS_scripts : list (list op) := [[OSync 0]; [ODesync 1; OSync 0]].
Definition exS_init : state := init 2 1 exS_scripts.
Definition exS_trace : list nat := [0; 0; 1; 1; 1; 1; 1; 1; 1; 1; 1; 1; 1; 1; 1; 1; 1; 2; 2; 2; 2; 2; 2; 2; 2; 2; 2; 2; 2; 2].
Example exS_end : exists s, run gen_tables gen_facts exS_init exS_trace = Some s /\
  stack <$> s.(actors) = [[FSIrun 0; FTop []]; [FSBwait 0; FTop []]; [FTrecv 0]] /\
  (fun q => (qs q, jobs q, owner q)) <$> s.(queues) = [(Running, [JSyncBg 2 1], Some 0); (Idle, [], None)] /\ s.(ran) = [1].
Proof. eexists. split; [vm_compute; reflexivity|]. repeat split; vm_compute; reflexivity. Qed.
