(* L1g: C10 for the tables generated from the current source *)
From stdpp Require Import list numbers option.
From L0 Require Import Types.
From Gen Require Import Tables.
From L1 Require Import Model Own Shape Stuck Live Wait Help Final Pool.
From L1g Require Import MView Frozen MainC10 PropsC10.

Lemma clg_own : own_conditions gen_tables.
Proof.
  split; cbn.
  - intros st e st' act H. destruct st, e; inversion H; subst; cbn; try done; try (split; congruence).
  - intros st e st' act H. destruct st, e; inversion H; subst; cbn; try done; try (split; congruence).
  - intros st st' act H. destruct st; inversion H; subst; split; congruence.
  - intros st ne st' p H. destruct st, ne; inversion H; subst; split; congruence.
  - intros st st' H. destruct st; inversion H; subst; split; congruence.
  - intros st st' H. destruct st; inversion H; subst; split; congruence.
  - intros e st' d H. destruct e; inversion H; subst; cbn; congruence.
Qed.
Lemma clg_core : core_tables gen_tables.
Proof. split; try done; by intros []. Qed.
Lemma clg_dormant_blocks : gen_facts.(f_dormant_blocks) = true. Proof. reflexivity. Qed.
Lemma clg_spawn_cmp : fact_spawn_cmp = CLt. Proof. reflexivity. Qed.
Lemma clg_retry_after_spawn : fact_schedule_thread_retries_after_spawn = true. Proof. reflexivity. Qed.
(* a pool thread killed by a panicking job is reaped whatever its busy flag says, so its slot is free again (the model has no dead threads) *)
Lemma clg_reap_tests_only_is_finished : fact_reap_tests_only_is_finished = true. Proof. reflexivity. Qed.
Lemma clg_dormant_reaps_first : fact_dormant_reaps_first = true. Proof. reflexivity. Qed.
Lemma clg_busy_cleared_only_on_none : fact_busy_cleared_only_on_none = true. Proof. reflexivity. Qed.

Theorem C10_now : forall nq mx scripts, wf_scripts nq scripts -> 1 <= mx ->
  forall tr s B,
    run gen_tables gen_facts (init nq mx scripts) tr = Some s -> frozen_ok s B -> terminal_except gen_tables gen_facts B s ->
    pool_free mx scripts s B -> quiet_except s B.
Proof. exact (C10_blocked_objects_do_not_stop_the_others_L1 gen_tables gen_facts clg_core clg_own clg_dormant_blocks). Qed.
Theorem C10_count_now : forall nq mx scripts, wf_scripts nq scripts -> 1 <= mx ->
  forall tr s B,
    run gen_tables gen_facts (init nq mx scripts) tr = Some s -> frozen_ok s B -> terminal_except gen_tables gen_facts B s ->
    length (filter (fun a => length scripts <= a) B) < mx -> quiet_except s B.
Proof. exact (C10_fewer_blocked_than_the_pool_maximum_L1 gen_tables gen_facts clg_core clg_own clg_dormant_blocks). Qed.
Theorem C10_sync_now : forall nq mx scripts, wf_scripts nq scripts -> 1 <= mx ->
  forall tr s B,
    run gen_tables gen_facts (init nq mx scripts) tr = Some s ->
    (forall a, a ∈ B -> exists ac fr rest, s.(actors) !! a = Some ac /\ ac.(stack) = fr :: rest /\ sync_frame fr) ->
    terminal_except gen_tables gen_facts B s -> quiet_except s B.
Proof. exact (C10_blocked_in_sync_does_not_stop_the_pool_L1 gen_tables gen_facts clg_core clg_own clg_dormant_blocks). Qed.

Print Assumptions C10_now.
Print Assumptions C10_count_now.
Print Assumptions C10_sync_now.
