(* L-bound: the L1 scheduler model has no livelock.

   For all tables T that keep ownership exclusive (own_conditions, as for C01) and satisfy bound_conditions (an owner is
   never refused by dequeue; a drain that sees an empty queue ends), ALL facts F (in particular both variants of the
   dormant-thread scan and of the wake-up of sync_background), all numbers of objects and pool sizes (including 0),
   all well-formed scripts and all schedules:
   - every step from a reachable state strictly decreases the measure mu : state -> nat^4 in the lexicographic order;
   - hence the successor relation on states satisfying the invariants is well founded, no reachable state lies on a
     cycle, and no infinite run exists.
   Together with L_quiet (L1/Final.v: a reachable state without successor is complete) this gives: every maximal run is
   finite and ends in a complete state.
   The measure is in Measure.v; the invariants used are Shape, WF, Inv (exclusive ownership) and the job-location
   invariant GInv of JobLoc.v (the job of a caller that loops until its own job has run is in the queue it works on, or
   in the hand of an actor that runs that queue).
   L_bound is the explicit form: the length of every run is at most L1_bound mx scripts (Explicit.v), a polynomial in the
   pool size, the number of callers and the total number of operations of the scripts. *)
From stdpp Require Import list numbers option.
From L1 Require Import Model Own Shape Stuck.
From L1b Require Import Measure Good Bound Explicit.

Theorem L_bound_measure_decreases :
  forall (T : tables) (F : facts), own_conditions T -> bound_conditions T ->
  forall nq mx scripts tr s a s',
    wf_scripts nq scripts -> run T F (init nq mx scripts) tr = Some s -> step T F s a = Some s' ->
    lex4 (mu s') (mu s).
Proof. exact reachable_step_decreases. Qed.

Theorem L_bound_lex4_well_founded : well_founded lex4.
Proof. exact Sums.lex4_wf. Qed.

Theorem L_bound_successor_relation_well_founded :
  forall (T : tables) (F : facts), bound_conditions T -> well_founded (succ_of T F).
Proof. exact succ_wf. Qed.

Theorem L_bound_no_infinite_run :
  forall (T : tables) (F : facts), own_conditions T -> bound_conditions T ->
  forall nq mx scripts, wf_scripts nq scripts ->
    ~ exists f : nat -> nat, forall n, is_Some (run T F (init nq mx scripts) (f <$> seq 0 n)).
Proof. exact no_infinite_run. Qed.

Theorem L_bound_no_infinite_continuation :
  forall (T : tables) (F : facts), own_conditions T -> bound_conditions T ->
  forall nq mx scripts tr s, wf_scripts nq scripts -> run T F (init nq mx scripts) tr = Some s ->
    ~ exists f : nat -> nat, forall n, is_Some (run T F s (f <$> seq 0 n)).
Proof. exact no_infinite_continuation. Qed.

Theorem L_bound_no_cycle :
  forall (T : tables) (F : facts), own_conditions T -> bound_conditions T ->
  forall nq mx scripts tr s tr', wf_scripts nq scripts -> run T F (init nq mx scripts) tr = Some s ->
    tr' <> [] -> run T F s tr' <> Some s.
Proof. exact no_cycle. Qed.

(* the explicit bound:  L1_bound mx scripts = 16 * ops * W1 + mx * W2  where ops is the total number of operations,
   N = callers + mx, Lb = (13 + mx) * N, W3 = Lb + 1, W2 = 2 * N * W3 + Lb + 1, W1 = 5 * W2 + 2 * N * W3 + Lb + 1 *)
Theorem L_bound :
  forall (T : tables) (F : facts), own_conditions T -> bound_conditions T ->
  forall nq mx scripts tr s,
    wf_scripts nq scripts -> run T F (init nq mx scripts) tr = Some s -> length tr <= L1_bound mx scripts.
Proof. exact L_bound_explicit. Qed.

Print Assumptions L_bound.
Print Assumptions L_bound_measure_decreases.
Print Assumptions L_bound_lex4_well_founded.
Print Assumptions L_bound_successor_relation_well_founded.
Print Assumptions L_bound_no_infinite_run.
Print Assumptions L_bound_no_infinite_continuation.
Print Assumptions L_bound_no_cycle.
