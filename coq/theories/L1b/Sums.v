(* L1b: sums over lists that are compared pointwise; the lexicographic order is well founded. *)
From stdpp Require Import list numbers option list_numbers.
From Coq Require Import Wellfounded.
From L1b Require Import Measure.

Section Sums.
  Context {A : Type}.
  Implicit Types (f g : A -> nat) (l : list A).

  Lemma sum_pointwise_le f g l l' :
    length l' = length l ->
    (forall i x y, l !! i = Some x -> l' !! i = Some y -> g y <= f x) ->
    sum_list_with g l' <= sum_list_with f l.
  Proof.
    revert l'. induction l as [|x l IH]; intros [|y l'] Hlen H; cbn in *; try done.
    pose proof (H 0 x y eq_refl eq_refl). assert (sum_list_with g l' <= sum_list_with f l); [|lia].
    apply IH; [lia|]. intros i x' y' H1 H2. by apply (H (S i)).
  Qed.

  Lemma sum_pointwise_lt f g l l' a x y :
    length l' = length l ->
    (forall i x y, l !! i = Some x -> l' !! i = Some y -> g y <= f x) ->
    l !! a = Some x -> l' !! a = Some y -> g y < f x ->
    sum_list_with g l' < sum_list_with f l.
  Proof.
    revert l' a. induction l as [|x0 l IH]; intros [|y0 l'] a Hlen H Hx Hy Hlt; cbn in *; try done.
    destruct a as [|a]; cbn in *.
    - injection Hx as ->. injection Hy as ->.
      assert (sum_list_with g l' <= sum_list_with f l); [|lia].
      apply sum_pointwise_le; [lia|]. intros i x' y' H1 H2. by apply (H (S i)).
    - pose proof (H 0 x0 y0 eq_refl eq_refl). assert (sum_list_with g l' < sum_list_with f l); [|lia].
      eapply (IH l' a); [lia| |done|done|done]. intros i x' y' H1 H2. by apply (H (S i)).
  Qed.

  Lemma sum_pointwise_eq f g l l' :
    length l' = length l ->
    (forall i x y, l !! i = Some x -> l' !! i = Some y -> g y = f x) ->
    sum_list_with g l' = sum_list_with f l.
  Proof.
    revert l'. induction l as [|x l IH]; intros [|y l'] Hlen H; cbn in *; try done.
    rewrite (H 0 x y eq_refl eq_refl). f_equal. apply IH; [lia|]. intros i x' y' H1 H2. by apply (H (S i)).
  Qed.

  (* exactly one element changes *)
  Lemma sum_alter f (h : A -> A) l a x :
    l !! a = Some x -> sum_list_with f (alter h a l) + f x = sum_list_with f l + f (h x).
  Proof.
    revert a. induction l as [|x0 l IH]; intros [|a] Hx; cbn in *; try done.
    - injection Hx as ->. lia.
    - specialize (IH a Hx). lia.
  Qed.
End Sums.

(* ---------- the lexicographic order ---------- *)
Lemma lex4_intro a b c d a' b' c' d' :
  a <= a' -> (a = a' -> b < b' \/ (b <= b' /\ (b = b' -> c < c' \/ (c <= c' /\ (c = c' -> d < d'))))) ->
  lex4 (a, (b, (c, d))) (a', (b', (c', d'))).
Proof. unfold lex4. intros H1 H2. destruct (decide (a = a')) as [->|]; [|lia]. right. split; [done|]. specialize (H2 eq_refl). lia. Qed.

Lemma lex4b_spec x y : lex4b x y = true <-> lex4 x y.
Proof.
  destruct x as (a & b & c & d), y as (a' & b' & c' & d'). unfold lex4b, lex4.
  rewrite !orb_true_iff, !andb_true_iff, !orb_true_iff, !andb_true_iff, !orb_true_iff, !andb_true_iff, !Nat.ltb_lt, !Nat.eqb_eq. done.
Qed.

Definition code4 (x : nat * (nat * (nat * nat))) : nat * nat * nat * nat := let '(a, (b, (c, d))) := x in (a, b, c, d).

Lemma lex4_wf : well_founded lex4.
Proof.
  assert (H : forall a b c d, Acc lex4 (a, (b, (c, d)))).
  { induction a as [a IHa] using lt_wf_ind. induction b as [b IHb] using lt_wf_ind.
    induction c as [c IHc] using lt_wf_ind. induction d as [d IHd] using lt_wf_ind.
    constructor. intros (a' & b' & c' & d') Hlt. unfold lex4 in Hlt.
    destruct Hlt as [Hlt|(-> & [Hlt|(-> & [Hlt|(-> & Hlt)])])].
    - by apply IHa.
    - by apply IHb.
    - by apply IHc.
    - by apply IHd. }
  intros (a & b & c & d). apply H.
Qed.
