(* L1b: the invariants the bound rests on, and the one consequence it needs: a caller that loops until its own job
   has run always finds a job to run. *)
From stdpp Require Import list numbers option.
From RecordUpdate Require Import RecordUpdate.
From L1 Require Import Model Own Shape Stuck Live Wait Help Final.
From L1b Require Import Measure JobLoc JobStep.

Record Good (s : state) : Prop := {
  g_shape : Shape s; g_wf : WF s; g_inv : Inv s; g_bg : GInv true s; g_dr : GInv false s;
}.

Section GoodStep.
  Context (T : tables) (F : facts) (HT : own_conditions T).

  Lemma step_good s a s' : Good s -> step T F s a = Some s' -> Good s'.
  Proof.
    intros [H1 H2 H3 H4 H5] Hs. split.
    - by eapply step_shape.
    - by eapply step_wf.
    - by eapply step_inv.
    - by eapply step_g.
    - by eapply step_g.
  Qed.

  Lemma init_good nq mx scripts : wf_scripts nq scripts -> Good (init nq mx scripts).
  Proof. intros Hs. split; [apply init_shape|by apply init_wf|apply init_inv|apply init_g|apply init_g]. Qed.

  Lemma run_good s tr s' : Good s -> run T F s tr = Some s' -> Good s'.
  Proof.
    unfold run. revert s. induction tr as [|a tr IH]; intros s HG; cbn.
    - by intros [= <-].
    - destruct (step T F s a) as [s1|] eqn:E; cbn; [|by rewrite run_none]. apply IH. by eapply step_good.
  Qed.
End GoodStep.

(* an actor whose top frame runs a job of queue q is the owner of q *)
Lemma run_at_cnt s b ab q j : Shape s -> s.(actors) !! b = Some ab -> run_at q ab.(stack) j -> 1 <= cnt q ab.(stack).
Proof.
  intros HS Eb Hr. destruct (kind_of s b ab HS Eb) as [[_ Hok]|(t & _ & Hok)].
  - destruct (stack ab) as [|fr rest] eqn:Est; [by destruct Hr|].
    destruct Hr as [Hr|Hr]; cbn in Hr; injection Hr as ->.
    + apply caller_ok_inv in Hok as [(-> & Hfr)|[(os & -> & Hsf)|(g & os & -> & Hpo)]]; try done.
      destruct g; try done; cbn in Hpo; apply bool_decide_eq_true in Hpo; subst; cbn; rewrite bool_decide_true by done; lia.
    + apply caller_ok_inv in Hok as [(-> & Hfr)|[(os & -> & Hsf)|(g & os & -> & Hpo)]]; done.
  - destruct (stack ab) as [|fr rest] eqn:Est; [by destruct Hr|].
    destruct Hr as [Hr|Hr]; cbn in Hr; injection Hr as ->.
    + apply pool_ok_inv in Hok as [(-> & Hfr)|(-> & Hfr)]; done.
    + cbn. rewrite bool_decide_true by done. lia.
Qed.

Lemma dequeue_succeeds (T : tables) (HB : bound_conditions T) s a ac q g rest :
  Good s -> s.(actors) !! a = Some ac -> ac.(stack) = FROdeq q :: g :: rest ->
  (g = FSDloop q /\ ac.(result) = false) \/ (g = FSBsteal q /\ ac.(ready) = false) ->
  exists qq j l, s.(queues) !! q = Some qq /\ T.(t_dequeue_refuses) qq.(qs) = false /\ qq.(jobs) = j :: l.
Proof.
  intros [HS HW HI HG1 HG0] Ea Est Hg.
  assert (Hq : exists qq, queues s !! q = Some qq).
  { pose proof (WF_self s a ac HW Ea) as Hwf. rewrite Est in Hwf. cbn in Hwf. apply andb_true_iff in Hwf as [Hwf _].
    apply bool_decide_eq_true in Hwf. by apply lookup_lt_is_Some_2. }
  destruct Hq as [qq Eq].
  assert (Hown : qq.(owner) = Some a).
  { pose proof (inv_cnt s HI a q qq (cnt q (stack ac))) as H. unfold stack_cnt in H. rewrite Ea in H. specialize (H eq_refl Eq).
    rewrite Est in H. cbn in H. destruct (decide (owner qq = Some a)); [done|].
    destruct Hg as [[-> _]|[-> _]]; cbn in H; rewrite bool_decide_true in H by done; lia. }
  assert (Hloc : exists k w, locq k s w q /\ w = a).
  { destruct Hg as [[-> Hf]|[-> Hf]].
    - exists false, a. split; [|done]. apply (HG0 a ac q Ea); [by rewrite Est|done].
    - exists true, a. split; [|done]. apply (HG1 a ac q Ea); [by rewrite Est|done]. }
  destruct Hloc as (k & w & Hloc & ->).
  assert (Hne : qq.(jobs) <> []).
  { destruct Hloc as [(qq' & j & G1 & G2 & _)|(b & st & j & G1 & G2 & _)].
    - rewrite Eq in G1. injection G1 as <-. intros E. rewrite E in G2. by apply elem_of_nil in G2.
    - exfalso. rewrite stacks_lookup in G1. destruct (actors s !! b) as [ab|] eqn:Eb; [|done]. injection G1 as <-.
      pose proof (run_at_cnt s b ab q j HS Eb G2) as Hc.
      pose proof (inv_cnt s HI b q qq (cnt q (stack ab))) as H. unfold stack_cnt in H. rewrite Eb in H. specialize (H eq_refl Eq).
      destruct (decide (owner qq = Some b)) as [Hb|]; [|lia]. assert (b = a) by congruence. subst b.
      rewrite Ea in Eb. injection Eb as <-. rewrite Est in G2. destruct G2 as [G2|G2]; done. }
  assert (Hrun : qq.(qs) = Running) by (apply (inv_state s HI q qq Eq); by rewrite Hown).
  destruct (jobs qq) as [|j l] eqn:Ej; [done|]. exists qq, j, l. split; [done|]. split; [|done]. rewrite Hrun. apply (b_deq_running _ HB).
Qed.
