(* L1b: the L1 scheduler model has no livelock - on reachable states the inverse of the step relation is well
   founded (the measure mu decreases lexicographically), hence no run goes on for ever. *)
From stdpp Require Import list numbers option list_numbers.
From RecordUpdate Require Import RecordUpdate.
From L1 Require Import Model Own Shape Stuck Live Wait Help Final.
From L1b Require Import Measure Sums JobLoc JobStep Good Bystander Comp Decr.

Section Bound.
  Context (T : tables) (F : facts) (HT : own_conditions T) (HB : bound_conditions T).

  Theorem reachable_good nq mx scripts tr s :
    wf_scripts nq scripts -> run T F (init nq mx scripts) tr = Some s -> Good s.
  Proof. intros Hs Hr. eapply (run_good T F HT); [|exact Hr]. by apply init_good. Qed.

  (* every step from a reachable state decreases the measure *)
  Theorem reachable_step_decreases nq mx scripts tr s a s' :
    wf_scripts nq scripts -> run T F (init nq mx scripts) tr = Some s -> step T F s a = Some s' ->
    lex4 (mu s') (mu s).
  Proof. intros Hs Hr Hstep. eapply (step_decr T F HB); [|exact Hstep]. by eapply reachable_good. Qed.

  (* the successor relation restricted to states that satisfy the invariants *)
  Definition succ_of (s' s : state) : Prop := Good s /\ exists a, step T F s a = Some s'.

  Theorem succ_wf : well_founded succ_of.
  Proof.
    assert (H : forall x, Acc lex4 x -> forall s, mu s = x -> Acc succ_of s).
    { induction 1 as [x _ IH]. intros s <-. constructor. intros s' (HG & a & Hstep).
      eapply IH; [|reflexivity]. by eapply (step_decr T F HB). }
    intros s. eapply H; [apply lex4_wf|reflexivity].
  Qed.

  Lemma run_cons s a tr : run T F s (a :: tr) = s1 ← step T F s a; run T F s1 tr.
  Proof. unfold run. cbn. destruct (step T F s a); cbn; [done|by rewrite run_none]. Qed.

  (* no infinite run from a state that satisfies the invariants *)
  Lemma no_infinite_run_from s : Good s -> ~ exists f : nat -> nat, forall n, is_Some (run T F s (f <$> seq 0 n)).
  Proof.
    induction (succ_wf s) as [s _ IH]. intros HG (f & Hf).
    destruct (Hf 1) as [s1 H1]. cbn in H1. unfold run in H1. cbn in H1.
    destruct (step T F s (f 0)) as [s1'|] eqn:Hstep; cbn in H1; [|done]. injection H1 as ->.
    apply (IH s1).
    - split; [done|]. by exists (f 0).
    - by eapply (step_good T F HT).
    - exists (fun n => f (S n)). intros n. specialize (Hf (S n)). change (seq 0 (S n)) with (0 :: seq 1 n) in Hf. rewrite fmap_cons, run_cons, Hstep in Hf.
      change (is_Some (run T F s1 (f <$> seq 1 n))) in Hf. by rewrite <- fmap_S_seq, <- list_fmap_compose in Hf.
  Qed.

  Theorem no_infinite_run nq mx scripts :
    wf_scripts nq scripts -> ~ exists f : nat -> nat, forall n, is_Some (run T F (init nq mx scripts) (f <$> seq 0 n)).
  Proof. intros Hs. apply no_infinite_run_from. by apply init_good. Qed.

  (* the same, for the continuation of any reachable state *)
  Theorem no_infinite_continuation nq mx scripts tr s :
    wf_scripts nq scripts -> run T F (init nq mx scripts) tr = Some s ->
    ~ exists f : nat -> nat, forall n, is_Some (run T F s (f <$> seq 0 n)).
  Proof. intros Hs Hr. apply no_infinite_run_from. by eapply reachable_good. Qed.

  (* no lasso: a reachable state is not reachable from itself by a non-empty run *)
  Theorem no_cycle nq mx scripts tr s tr' :
    wf_scripts nq scripts -> run T F (init nq mx scripts) tr = Some s -> tr' <> [] -> run T F s tr' <> Some s.
  Proof.
    intros Hs Hr Hne Hcyc. pose proof (reachable_good _ _ _ _ _ Hs Hr) as HG.
    assert (Hle : forall tr2 s1 s2, Good s1 -> run T F s1 tr2 = Some s2 -> tr2 <> [] -> lex4 (mu s2) (mu s1)).
    { induction tr2 as [|a tr2 IH]; intros s1 s2 HG1 Hr2 Hn; [done|]. rewrite run_cons in Hr2.
      destruct (step T F s1 a) as [s1'|] eqn:Hstep; cbn in Hr2; [|done].
      pose proof (step_decr T F HB _ _ _ HG1 Hstep) as Hd. destruct tr2 as [|b tr2]; [cbn in Hr2; by injection Hr2 as <-|].
      assert (Hd2 : lex4 (mu s2) (mu s1')) by (eapply IH; [by eapply (step_good T F HT)|done|done]).
      destruct (mu s2) as (a1 & b1 & c1 & d1), (mu s1') as (a2 & b2 & c2 & d2), (mu s1) as (a3 & b3 & c3 & d3). unfold lex4 in *. lia. }
    specialize (Hle tr' s s HG Hcyc Hne). destruct (mu s) as (a1 & b1 & c1 & d1). unfold lex4 in Hle. lia.
  Qed.
End Bound.
