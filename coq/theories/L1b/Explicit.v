(* L1b: an explicit bound on the length of every run of the L1 model: the measure is turned into one number. *)
From stdpp Require Import list numbers option list_numbers.
From RecordUpdate Require Import RecordUpdate.
From L1 Require Import Model Own Shape Stuck Live Wait Help Final Pool.
From L1b Require Import Measure Sums JobLoc JobStep Good Bystander Comp Decr.

Lemma sum_alter_bound {A} (g : A -> nat) (f : A -> A) t (l : list A) c :
  (forall x, g (f x) <= g x + c) -> sum_list_with g (alter f t l) <= sum_list_with g l + c.
Proof.
  intros Hf. revert t. induction l as [|x l IH]; intros [|t]; cbn; try lia.
  - specialize (Hf x). lia.
  - specialize (IH t). lia.
Qed.

Lemma hand_le1 ac : hand ac <= 1.
Proof. unfold hand. destruct (stack ac) as [|fr ?]; [lia|]. destruct (Measure.is_runf fr); lia. Qed.

(* the resources of M grow by at most 5 in any step *)
Section MLe.
  Context (T : tables) (F : facts).

  Lemma hand_sum_by s s' a ac ac' :
    s.(actors) !! a = Some ac -> s'.(actors) !! a = Some ac' -> others_by s s' a ->
    sum_list_with hand s'.(actors) <= sum_list_with hand s.(actors) + 1.
  Proof.
    intros Ea Ea' [Hl Ho].
    assert (H : sum_list_with hand s'.(actors) <= sum_list_with (fun x => hand x + 0) (alter (fun _ => ac') a s.(actors))).
    { apply sum_pointwise_le; [by rewrite alter_length|]. intros i x y Hx Hy. destruct (decide (i = a)) as [->|Hne].
      - rewrite list_lookup_alter, Ea in Hx. cbn in Hx. injection Hx as <-. rewrite Ea' in Hy. injection Hy as <-. lia.
      - rewrite list_lookup_alter_ne in Hx by done. destruct (Ho i y Hy Hne) as (x' & Hx' & Hb). rewrite Hx in Hx'. injection Hx' as <-.
        rewrite (hand_by x y Hb). lia. }
    pose proof (sum_alter hand (fun _ => ac') (actors s) a ac Ea) as H2. pose proof (hand_le1 ac'). 
    assert (sum_list_with (fun x => hand x + 0) (alter (fun _ => ac') a (actors s)) = sum_list_with hand (alter (fun _ => ac') a (actors s))) as H3.
    { generalize (alter (fun _ => ac') a (actors s)). induction l as [|x l IH]; cbn; [done|]. rewrite IH. lia. }
    lia.
  Qed.

  Lemma step_M_le s a s' : step T F s a = Some s' -> muM s' <= muM s + 5.
  Proof.
    intros Hstep. unfold step in Hstep.
    destruct (actors s !! a) as [ac|] eqn:Ea; cbn in Hstep; [|congruence].
    destruct (stack ac) as [|fr rest] eqn:Est; [congruence|].
    destruct fr.
    all: cbn beta iota zeta in Hstep.
    all: repeat (first
         [ match type of Hstep with
           | context [queues _ !! ?q] => let E := fresh "Eq" in destruct (queues s !! q) as [qq|] eqn:E; cbn in Hstep; [|congruence]
           | context [threads _ !! ?t] => let E := fresh "Et" in destruct (threads s !! t) as [th|] eqn:E; cbn in Hstep
           end
         | match type of Hstep with context [match ?x with _ => _ end] => let E := fresh "E" in destruct x eqn:E end; cbn in Hstep; try congruence ]).
    all: try discriminate.
    all: try (injection Hstep as <-).
    (* class A *)
    all: try (lazymatch goal with |- muM (setstack ?X ?aa ?st) <= _ =>
              pose (s1 := setstack X aa st);
              destruct (alter_same s s1 aa ac _ Ea ltac:(actors_alter)) as [Hsame Ea'];
              pose proof (hand_sum_by s s1 aa ac _ Ea Ea' (others_same_by _ _ _ Hsame)) as HH;
              change (muM s1 <= muM s + 5); unfold muM;
              set (H1 := sum_list_with hand (actors s1)) in *; set (H0 := sum_list_with hand (actors s)) in *; clearbody H1 H0;
              subst s1; unfold setstack, upda, updq, updt; cbn; rewrite <- ?list_alter_compose;
              repeat match goal with
                | Eq : queues ?ss !! ?q = Some ?qq |- context [sum_list_with (fun qq => length (jobs qq)) (alter ?f ?q (queues ?ss))] =>
                    let HQ := fresh "HQ" in pose proof (sum_alter (fun qq => length qq.(jobs)) f (queues ss) q qq Eq) as HQ; cbn in HQ;
                    rewrite ?app_length in HQ; cbn in HQ;
                    set (Q1 := sum_list_with (fun qq => length qq.(jobs)) (alter f q (queues ss))) in *; clearbody Q1
                | |- context [sum_list_with (fun qq => length (jobs qq)) (alter ?f ?q ?l)] =>
                    let HQ := fresh "HQ" in
                    assert (HQ := sum_alter_bound (fun qq => length qq.(jobs)) f q l 1 ltac:(intros x; cbn; rewrite ?app_length; cbn; repeat case_match; lia));
                    set (Q1 := sum_list_with (fun qq => length qq.(jobs)) (alter f q l)) in *; clearbody Q1
                | Et : threads ?ss !! ?t = Some ?th |- context [sum_list_with chan (alter ?f ?t (threads ?ss))] =>
                    let HT := fresh "HT" in pose proof (sum_alter chan f (threads ss) t th Et) as HT; cbn in HT;
                    set (T1 := sum_list_with chan (alter f t (threads ss))) in *; clearbody T1
                | |- context [sum_list_with chan (alter ?f ?t ?l)] =>
                    let HT := fresh "HT" in
                    assert (HT := sum_alter_bound chan f t l 1 ltac:(intros x; cbn; lia));
                    set (T1 := sum_list_with chan (alter f t l)) in *; clearbody T1
                end;
              repeat match goal with E : jobs _ = _ |- _ => rewrite E in *; cbn in * end;
              repeat match goal with E : chan _ = _ |- _ => rewrite E in *; cbn in * end;
              try (match goal with |- context [filter ?P ?l] => pose proof (filter_length P l) end);
              rewrite ?alter_length, ?app_length; cbn;
              repeat match goal with E : sched _ = _ |- _ => rewrite E in *; cbn in * end;
              lia end; fail).
    (* run_job, notify: the other fields are untouched *)
    all: try (lazymatch goal with |- muM (setstack (run_job ?F ?s ?j) ?aa ?st) <= _ =>
              pose (s1 := setstack (run_job F s j) aa st);
              destruct (lookup_lt_is_Some_2 (actors (run_job F s j)) aa) as [ac1 Ea1]; [rewrite run_job_len; by eapply lookup_lt_Some|];
              assert (Ea' : actors s1 !! aa = Some (ac1 <| stack := st |>)) by (subst s1; rewrite actors_setstack_lookup, decide_True by done; by rewrite Ea1);
              assert (Ho : others_by s s1 aa) by (split; [subst s1; by rewrite length_actors_setstack, run_job_len|];
                 intros bb ab' Hb Hne; subst s1; rewrite actors_setstack_lookup, decide_False in Hb by done; by eapply run_job_by);
              pose proof (hand_sum_by s s1 aa ac _ Ea Ea' Ho) as HH;
              change (muM s1 <= muM s + 5); unfold muM; subst s1; destruct (run_job_frame F s j) as (A & R & Hfrm); rewrite Hfrm in *; cbn in *; lia end; fail).
    all: try (lazymatch goal with |- muM (setstack (updq (foldl (notify ?F) ?s ?ws) ?q ?g) ?aa ?st) <= _ =>
              pose (s1 := setstack (updq (foldl (notify F) s ws) q g) aa st);
              destruct (lookup_lt_is_Some_2 (actors (foldl (notify F) s ws)) aa) as [ac1 Ea1]; [rewrite foldl_notify_len; by eapply lookup_lt_Some|];
              assert (Ea' : actors s1 !! aa = Some (ac1 <| stack := st |>)) by (subst s1; rewrite actors_setstack_lookup, decide_True by done; cbn; by rewrite Ea1);
              assert (Ho : others_by s s1 aa) by (split; [subst s1; rewrite length_actors_setstack; cbn; by rewrite foldl_notify_len|];
                 intros bb ab' Hb Hne; subst s1; rewrite actors_setstack_lookup, decide_False in Hb by done; cbn in Hb; by eapply foldl_notify_by);
              pose proof (hand_sum_by s s1 aa ac _ Ea Ea' Ho) as HH;
              change (muM s1 <= muM s + 5); unfold muM; subst s1; destruct (foldl_notify_frame F ws s) as (A & Hfrm); rewrite Hfrm in *;
              unfold setstack, upda, updq in *; cbn in *;
              match goal with |- context [sum_list_with (fun qq => length (jobs qq)) (alter ?f ?q ?l)] =>
                 rewrite (sum_alter_same (fun qq => length qq.(jobs)) f q l) by (intros x; cbn; by repeat case_match) end;
              lia end; fail).
    pose proof (lookup_lt_Some _ _ _ Ea) as Hla.
    unfold muM, setstack, upda; cbn. rewrite alter_app_l by done. rewrite !sum_list_with_app, app_length. cbn.
    pose proof (sum_alter hand (fun x => x <| stack := FSTlock :: rest |>) (actors s) a ac Ea) as H.
    cbn beta in H. pose proof (hand_le1 (ac <| stack := FSTlock :: rest |>)). lia.
  Qed.
End MLe.

(* ---------- absolute bounds on the two lower components ---------- *)
Lemma sum_bound {A} (f : A -> nat) (l : list A) c : (forall x, f x <= c) -> sum_list_with f l <= c * length l.
Proof. intros Hf. induction l as [|x l IH]; cbn; [lia|]. specialize (Hf x). lia. Qed.
Lemma muK_bound s : muK s <= 2 * length s.(actors).
Proof.
  unfold muK. apply sum_bound. intros x. unfold kc. destruct (kicked x), (stack x) as [|fr ?]; try lia; destruct (is_woken fr); lia.
Qed.
Lemma muL_bound s : muL s <= (13 + length s.(threads)) * length s.(actors).
Proof.
  unfold muL. apply sum_bound. intros x. unfold lr. destruct (stack x) as [|fr ?]; [lia|].
  destruct fr; cbn; repeat case_match; lia.
Qed.

(* ---------- the potential ---------- *)
Section Phi.
  Context (Kb Lb : nat).
  Definition W3 : nat := Lb + 1.
  Definition W2 : nat := Kb * W3 + Lb + 1.
  Definition W1 : nat := 5 * W2 + Kb * W3 + Lb + 1.
  Definition phi (x : nat * (nat * (nat * nat))) : nat := let '(p, (m, (k, l))) := x in p * W1 + m * W2 + k * W3 + l.

  Lemma phi_decr x' x : lex4 x' x -> fst (snd x') <= fst (snd x) + 5 -> fst (snd (snd x')) <= Kb -> snd (snd (snd x')) <= Lb ->
    phi x' < phi x.
  Proof.
    destruct x' as (p' & m' & k' & l'), x as (p & m & k & l). cbn. unfold lex4.
    intros Hlex Hm Hk Hl.
    assert (Hk3 : k' * W3 <= Kb * W3) by (by apply Nat.mul_le_mono_r).
    assert (Hm2 : m' * W2 <= m * W2 + 5 * W2) by (rewrite <- Nat.mul_add_distr_r; by apply Nat.mul_le_mono_r).
    set (A := Kb * W3) in *. unfold W1, W2 in *. fold A in Hm2 |- *.
    destruct Hlex as [Hp|(-> & [Hm'|(-> & [Hk'|(-> & Hl')])])].
    - assert (Hp1 : p' * (5 * (A + Lb + 1) + A + Lb + 1) + (5 * (A + Lb + 1) + A + Lb + 1) <= p * (5 * (A + Lb + 1) + A + Lb + 1)).
      { rewrite <- (Nat.mul_1_l (5 * (A + Lb + 1) + A + Lb + 1)) at 2. rewrite <- Nat.mul_add_distr_r. apply Nat.mul_le_mono_r. lia. }
      lia.
    - assert (Hm1 : m' * (A + Lb + 1) + (A + Lb + 1) <= m * (A + Lb + 1)).
      { rewrite <- (Nat.mul_1_l (A + Lb + 1)) at 2. rewrite <- Nat.mul_add_distr_r. apply Nat.mul_le_mono_r. lia. }
      lia.
    - assert (Hk1 : k' * W3 + W3 <= k * W3).
      { rewrite <- (Nat.mul_1_l W3) at 2. rewrite <- Nat.mul_add_distr_r. apply Nat.mul_le_mono_r. lia. }
      unfold W3 in *. lia.
    - lia.
  Qed.
End Phi.

(* ---------- the explicit bound ---------- *)
Definition total_ops (scripts : list (list op)) : nat := sum_list_with length scripts.
Definition Kb (mx : nat) (scripts : list (list op)) : nat := 2 * (length scripts + mx).
Definition Lb (mx : nat) (scripts : list (list op)) : nat := (13 + mx) * (length scripts + mx).
Definition L1_bound (mx : nat) (scripts : list (list op)) : nat :=
  phi (Kb mx scripts) (Lb mx scripts) (16 * total_ops scripts, (mx, (0, 0))).

Lemma mu_init nq mx scripts : mu (init nq mx scripts) = (16 * total_ops scripts, (mx, (0, 0))).
Proof.
  unfold mu, muP, muM, muK, muL, init; cbn.
  assert (H1 : forall l : list (list op), sum_list_with pw ((fun sc => {| stack := [FTop sc]; ready := false; result := false; opctr := 0; kicked := false |}) <$> l) = 16 * total_ops l).
  { induction l as [|x l IH]; cbn; [done|]. rewrite IH. unfold pw, total_ops. cbn. lia. }
  assert (H2 : forall (f : actor -> nat) (l : list (list op)), (forall sc, f {| stack := [FTop sc]; ready := false; result := false; opctr := 0; kicked := false |} = 0) ->
              sum_list_with f ((fun sc => {| stack := [FTop sc]; ready := false; result := false; opctr := 0; kicked := false |}) <$> l) = 0).
  { intros f l Hf. induction l as [|x l IH]; cbn; [done|]. by rewrite IH, Hf. }
  assert (H3 : sum_list_with (fun qq : queue => length (jobs qq)) (replicate nq {| qs := Idle; jobs := []; wake_blocked := []; owner := None |}) = 0).
  { induction nq; cbn; done. }
  rewrite H1, H3, !H2 by done. f_equal. f_equal. lia.
Qed.

Section Explicit.
  Context (T : tables) (F : facts) (HT : own_conditions T) (HB : bound_conditions T).

  Lemma run_snoc s tr a : run T F s (tr ++ [a]) = s1 ← run T F s tr; step T F s1 a.
  Proof. unfold run. by rewrite foldl_app. Qed.

  Theorem run_length_bound nq mx scripts tr s :
    wf_scripts nq scripts -> run T F (init nq mx scripts) tr = Some s ->
    length tr + phi (Kb mx scripts) (Lb mx scripts) (mu s) <= L1_bound mx scripts.
  Proof.
    intros Hwf. revert s. induction tr as [|a tr IH] using rev_ind; intros s Hr.
    - cbn in Hr. injection Hr as <-. rewrite mu_init. unfold L1_bound. apply Nat.le_refl.
    - rewrite run_snoc in Hr. destruct (run T F (init nq mx scripts) tr) as [s1|] eqn:Hr1; [|done]. cbn in Hr.
      specialize (IH s1 eq_refl).
      assert (HG : Good s1) by (eapply (run_good T F HT); [by apply init_good|exact Hr1]).
      pose proof (step_decr T F HB s1 a s HG Hr) as Hlex. pose proof (step_M_le T F s1 a s Hr) as HM.
      assert (Hr2 : run T F (init nq mx scripts) (tr ++ [a]) = Some s) by (by rewrite run_snoc, Hr1).
      destruct (reachable_pool_bounded T F nq mx scripts (tr ++ [a]) s Hr2) as (Ht & _ & Ha).
      pose proof (muK_bound s) as HK. pose proof (muL_bound s) as HL.
      assert (HK' : muK s <= Kb mx scripts) by (unfold Kb; rewrite Ha in HK; lia).
      assert (HL' : muL s <= Lb mx scripts).
      { unfold Lb. rewrite Ha in HL. etrans; [exact HL|]. apply Nat.mul_le_mono; lia. }
      pose proof (phi_decr (Kb mx scripts) (Lb mx scripts) (mu s) (mu s1) Hlex HM HK' HL'). rewrite app_length. change (length [a]) with 1. lia.
  Qed.

  Corollary L_bound_explicit nq mx scripts tr s :
    wf_scripts nq scripts -> run T F (init nq mx scripts) tr = Some s -> length tr <= L1_bound mx scripts.
  Proof. intros Hwf Hr. pose proof (run_length_bound nq mx scripts tr s Hwf Hr). lia. Qed.
End Explicit.
