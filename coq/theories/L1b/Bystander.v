(* L1b: what a step does to the actors that do not take it (wake-ups by notify and run_job), and how the
   per-actor parts of the measure react. *)
From stdpp Require Import list numbers option list_numbers.
From RecordUpdate Require Import RecordUpdate.
From L1 Require Import Model Own Shape Stuck.
From L1b Require Import Measure Sums.

(* flags only become true; the stack is unchanged or a waiter is woken *)
Definition by_ok (ab ab' : actor) : Prop :=
  (ab.(ready) = true -> ab'.(ready) = true) /\ (ab.(result) = true -> ab'.(result) = true) /\
  (ab'.(stack) = ab.(stack) \/ exists q r, ab.(stack) = FSBwait q :: r /\ ab'.(stack) = FSBwoken q :: r).

Lemma by_ok_refl ab : by_ok ab ab.
Proof. split_and!; auto. Qed.
Lemma by_ok_trans a b c : by_ok a b -> by_ok b c -> by_ok a c.
Proof.
  intros (A1 & A2 & A3) (B1 & B2 & B3). split_and!; auto.
  destruct A3 as [A3|(q & r & A3 & A4)], B3 as [B3|(q' & r' & B3 & B4)].
  - left. congruence.
  - right. exists q', r'. split; congruence.
  - right. exists q, r. split; congruence.
  - rewrite A4 in B3. done.
Qed.

Lemma wfr_mono fr : wfr true fr <= wfr false fr.
Proof. destruct fr; cbn; lia. Qed.
Lemma sum_wfr_mono st : sum_list_with (wfr true) st <= sum_list_with (wfr false) st.
Proof. induction st as [|fr st IH]; cbn; [done|]. pose proof (wfr_mono fr). lia. Qed.

Lemma pw_by ab ab' : by_ok ab ab' -> pw ab' <= pw ab.
Proof.
  intros (H1 & _ & H3). unfold pw.
  assert (Hs : forall r, sum_list_with (wfr r) (stack ab') <= sum_list_with (wfr r) (stack ab)).
  { intros r. destruct H3 as [->|(q & st & -> & ->)]; [done|]. cbn. destruct r; lia. }
  destruct (ready ab) eqn:E.
  - rewrite H1 by done. apply Hs.
  - destruct (ready ab'); [|apply Hs]. etrans; [apply sum_wfr_mono|apply Hs].
Qed.
Lemma hand_by ab ab' : by_ok ab ab' -> hand ab' = hand ab.
Proof. intros (_ & _ & [H|(q & r & H1 & H2)]); unfold hand; [by rewrite H|by rewrite H1, H2]. Qed.

(* ---------- notify, run_job ---------- *)
Lemma upda_by s w f b ab' : (forall x, by_ok x (f x)) ->
  (upda s w f).(actors) !! b = Some ab' -> exists ab, s.(actors) !! b = Some ab /\ by_ok ab ab'.
Proof.
  intros Hf Hb. rewrite actors_upda_lookup in Hb. case_decide; [subst|].
  - apply fmap_Some in Hb as (ab & E & ->). eauto.
  - exists ab'. split; [done|apply by_ok_refl].
Qed.
Lemma wake_by s w q rest aw b ab' :
  s.(actors) !! w = Some aw -> aw.(stack) = FSBwait q :: rest ->
  (setstack s w (FSBwoken q :: rest)).(actors) !! b = Some ab' -> exists ab, s.(actors) !! b = Some ab /\ by_ok ab ab'.
Proof.
  intros Ew Es Hb. rewrite actors_setstack_lookup in Hb. case_decide; [subst|].
  - rewrite Ew in Hb. cbn in Hb. injection Hb as <-. exists aw. split; [done|]. split_and!; auto. right. exists q, rest. done.
  - exists ab'. split; [done|apply by_ok_refl].
Qed.

Lemma notify_by F s w b ab' :
  (notify F s w).(actors) !! b = Some ab' -> exists ab, s.(actors) !! b = Some ab /\ by_ok ab ab'.
Proof.
  unfold notify. set (s1 := if f_sticky_notify F then upda s w (fun x => x <| kicked := true |>) else s).
  assert (H1 : forall ab1, s1.(actors) !! b = Some ab1 -> exists ab, s.(actors) !! b = Some ab /\ by_ok ab ab1).
  { subst s1. destruct (f_sticky_notify F); [|intros ab1 H; exists ab1; split; [done|apply by_ok_refl]].
    intros ab1 H. eapply upda_by; [|exact H]. intros x. split_and!; auto. }
  destruct (actors s1 !! w) as [aw|] eqn:Ew; [|apply H1].
  destruct (stack aw) as [|fr rest] eqn:Es; [apply H1|]. destruct fr; try apply H1.
  intros Hb. destruct (wake_by s1 w q rest aw b ab' Ew Es Hb) as (ab1 & E1 & B1).
  destruct (H1 ab1 E1) as (ab & E & B). exists ab. split; [done|by eapply by_ok_trans].
Qed.
Lemma foldl_notify_by F ws s b ab' :
  (foldl (notify F) s ws).(actors) !! b = Some ab' -> exists ab, s.(actors) !! b = Some ab /\ by_ok ab ab'.
Proof.
  revert s ab'. induction ws as [|w ws IH]; intros s ab' Hb; cbn in Hb.
  - exists ab'. split; [done|apply by_ok_refl].
  - destruct (IH _ _ Hb) as (ab1 & E1 & B1). destruct (notify_by F s w b ab1 E1) as (ab & E & B).
    exists ab. split; [done|by eapply by_ok_trans].
Qed.
Lemma run_job_by F s j b ab' :
  (run_job F s j).(actors) !! b = Some ab' -> exists ab, s.(actors) !! b = Some ab /\ by_ok ab ab'.
Proof.
  destruct j as [o|o c|o c]; unfold run_job.
  - intros H. exists ab'. split; [done|apply by_ok_refl].
  - intros H. eapply upda_by; [|exact H]. intros x. split_and!; auto.
  - set (s1 := upda _ c _).
    assert (H1 : forall ab1, s1.(actors) !! b = Some ab1 -> exists ab, s.(actors) !! b = Some ab /\ by_ok ab ab1).
    { intros ab1 H. subst s1. eapply upda_by; [|exact H]. intros x. split_and!; auto. }
    destruct (actors s1 !! c) as [acc|] eqn:Ec; [|apply H1].
    destruct (stack acc) as [|fr rest] eqn:Es; [apply H1|]. destruct fr; try apply H1.
    intros Hb. destruct (wake_by s1 c q rest acc b ab' Ec Es Hb) as (ab1 & E1 & B1).
    destruct (H1 ab1 E1) as (ab & E & B). exists ab. split; [done|by eapply by_ok_trans].
Qed.
