(* L-bound, non-vacuity: concrete runs of programs that use desync, sync (immediate, draining and waiting in the
   background) and try_sync; the measure is computed along the run and decreases at every step until the state is
   terminal and complete. *)
From stdpp Require Import list numbers option list_numbers.
From L1 Require Import Model Own Shape Stuck Final.
From L1b Require Import Measure Sums Explicit.

Definition T0 := fixed_trysync orig_tables.

(* a deterministic scheduler: the first enabled actor, searching from a pseudo-random start *)
Fixpoint first_enabled (T : tables) (F : facts) (s : state) (n start k : nat) : option (nat * state) :=
  match k with
  | 0 => None
  | S k' => let a := start mod n in
            match step T F s a with Some s' => Some (a, s') | None => first_enabled T F s n (S start) k' end
  end.
(* returns the trace, the final state, and whether every step decreased the measure *)
Fixpoint auto (T : tables) (F : facts) (fuel seed : nat) (s : state) (acc : list nat) (ok : bool) : list nat * state * bool :=
  match fuel with
  | 0 => (rev acc, s, ok)
  | S f => let n := length s.(actors) in
           match first_enabled T F s n (seed * 7 + length acc * 13 + (seed * length acc) mod 5) n with
           | None => (rev acc, s, ok)
           | Some (a, s') => auto T F f seed s' (a :: acc) (ok && lex4b (mu s') (mu s))
           end
  end.

Definition F_sticky := {| f_dormant_blocks := true; f_sticky_notify := true |}.
Definition F_plain := {| f_dormant_blocks := true; f_sticky_notify := false |}.
Definition prog : list (list op) :=
  [[OSync 0; ODesync 0; OSync 1]; [ODesync 0; OSync 0; OTrySync 0]; [OSync 0; OSync 0; ODesync 1]; [ODesync 1; OSync 1; OSync 0]].

Definition passes_through (T : tables) (F : facts) (s : state) (tr : list nat) (p : state -> bool) : bool :=
  (fix go (s : state) (tr : list nat) : bool :=
     p s || match tr with [] => false | a :: tr => match step T F s a with Some s' => go s' tr | None => false end end) s tr.
Definition someone_at (p : frame -> bool) (s : state) : bool :=
  existsb (fun ac => match ac.(stack) with fr :: _ => p fr | [] => false end) s.(actors).

(* pool of two threads, sticky notification: 149 steps, every one decreases the measure, the end is complete; on the
   way some caller went through the claim of sync_background and some pool thread drained a queue *)
Example ex_run_pool2 :
  let '(tr, s, ok) := auto T0 F_sticky 5000 0 (init 2 2 prog) [] true in
  run T0 F_sticky (init 2 2 prog) tr = Some s /\ length tr = 149 /\ ok = true /\
  terminal_b T0 F_sticky s = true /\ complete s = true /\
  mu (init 2 2 prog) = (192, (2, (0, 0))) /\ mu s = (0, (0, (0, 2))) /\
  passes_through T0 F_sticky (init 2 2 prog) tr (someone_at (fun fr => match fr with FSBclaim _ => true | _ => false end)) = true /\
  passes_through T0 F_sticky (init 2 2 prog) tr (someone_at (fun fr => match fr with FDRrun _ _ => true | _ => false end)) = true.
Proof. vm_compute. repeat split; reflexivity. Qed.

(* no pool thread at all, plain condition-variable notification *)
Example ex_run_pool0 :
  let '(tr, s, ok) := auto T0 F_plain 5000 3 (init 2 0 prog) [] true in
  run T0 F_plain (init 2 0 prog) tr = Some s /\ ok = true /\ terminal_b T0 F_plain s = true /\ 100 <= length tr.
Proof. vm_compute. repeat split; try reflexivity. lia. Qed.

(* the explicit bound for this program and pool size: 16 * 12 * 7098 + 2 * 1183 = 1365182 (the run above has 149 steps) *)
Example ex_bound_value :
  total_ops prog = 12 /\ Kb 2 prog = 12 /\ Lb 2 prog = 90 /\ W2 (Kb 2 prog) (Lb 2 prog) = 1183 /\ W1 (Kb 2 prog) (Lb 2 prog) = 7098 /\
  L1_bound 2 prog = 16 * total_ops prog * W1 (Kb 2 prog) (Lb 2 prog) + 2 * W2 (Kb 2 prog) (Lb 2 prog) + 0 * W3 (Lb 2 prog) + 0.
Proof. repeat split; reflexivity. Qed.
