(* L1b: a well-founded measure for the L1 scheduler model (definitions only).

   mu s = (P s, M s, K s, L s), ordered lexicographically.
   P  phase potential: the sum over all actors and all frames of their stacks of a weight that never increases along
      the control flow of an operation and is constant exactly on the loops of the model; the not yet started
      operations of a script weigh 16 each.  The weight of three frames of sync_background depends on the actor's
      `ready` flag, which only goes from false to true during an operation.
   M  consumable resources that are produced only by steps that decrease P: queued jobs (twice) and jobs in hand,
      entries of the schedule, channel tokens of pool threads, threads that may still be spawned.
   K  wake-up credits of the waiters of sync_background: the `kicked` flag and the woken state.
   L  position inside the remaining loops: depends on the top frame only, and on the part of the state the loop
      condition looks at (result/ready flag, number of threads, emptiness of the queue). *)
From stdpp Require Import list numbers option list_numbers.
From RecordUpdate Require Import RecordUpdate.
From L1 Require Import Model.

Definition wfr (rdy : bool) (fr : frame) : nat :=
  match fr with
  | FTop os => 16 * length os
  | FD1 _ => 3 | FD2 _ => 2
  | FSTlock | FSTscan _ | FSTspawn => 1
  | FS1 _ => 15
  | FSIrun _ => 5 | FSIidle _ => 4
  | FSDpush _ => 6 | FSDloop _ => 5 | FSDidle _ => 4
  | FSBreg _ => 14 | FSBpush _ => 13
  | FSBcheck _ | FSBwoken _ => if rdy then 2 else 9
  | FSBwait _ | FSBclaim _ => 9
  | FSBsteal _ => if rdy then 7 else 8
  | FSBstealidle _ => if rdy then 6 else 13
  | FSBdone _ => 1
  | FTS1 _ => 6
  | FRQ1 _ => 3 | FRQ2 _ => 2
  | _ => 0
  end.
Definition pw (ac : actor) : nat := sum_list_with (wfr ac.(ready)) ac.(stack).

Definition is_runf (fr : frame) : bool := match fr with FROrun _ _ | FDRrun _ _ => true | _ => false end.
Definition hand (ac : actor) : nat := match ac.(stack) with fr :: _ => if is_runf fr then 1 else 0 | [] => 0 end.
Definition is_woken (fr : frame) : bool := match fr with FSBwoken _ => true | _ => false end.
Definition kc (ac : actor) : nat :=
  (if ac.(kicked) then 1 else 0) + match ac.(stack) with fr :: _ => if is_woken fr then 1 else 0 | [] => 0 end.

Definition lrank (s : state) (ac : actor) (fr : frame) : nat :=
  match fr with
  | FSDloop _ => if ac.(result) then 0 else 2
  | FSBsteal _ => if ac.(ready) then 0 else 2
  | FROdeq _ => 1
  | FSBclaim _ => 3 | FSBcheck _ => 2 | FSBwait _ => 1
  | FSTlock => 3 + length s.(threads) | FSTscan i => 2 + (length s.(threads) - i) | FSTspawn => 1
  | FTrecv _ => 1 | FTrelnone _ => 2 | FTexam _ => 3 | FTnext _ => 4 | FTlock _ => 5
  | FTrelsome _ _ => 10 | FDRdeq _ => 8 | FDRrun _ _ => 8
  | FDRfin q => match s.(queues) !! q with
                | Some qq => match qq.(jobs) with [] => 7 | _ => 9 end
                | None => 7
                end
  | _ => 0
  end.
Definition lr (s : state) (ac : actor) : nat := match ac.(stack) with fr :: _ => lrank s ac fr | [] => 0 end.

Definition muP (s : state) : nat := sum_list_with pw s.(actors).
Definition muM (s : state) : nat :=
  2 * sum_list_with (fun qq => length qq.(jobs)) s.(queues) + sum_list_with hand s.(actors)
  + length s.(sched) + sum_list_with chan s.(threads) + (s.(maxt) - length s.(threads)).
Definition muK (s : state) : nat := sum_list_with kc s.(actors).
Definition muL (s : state) : nat := sum_list_with (lr s) s.(actors).

Definition mu (s : state) : nat * (nat * (nat * nat)) := (muP s, (muM s, (muK s, muL s))).

(* lexicographic order on the measure *)
Definition lex4 (x y : nat * (nat * (nat * nat))) : Prop :=
  let '(a, (b, (c, d))) := x in let '(a', (b', (c', d'))) := y in
  a < a' \/ (a = a' /\ (b < b' \/ (b = b' /\ (c < c' \/ (c = c' /\ d < d'))))).
Definition lex4b (x y : nat * (nat * (nat * nat))) : bool :=
  let '(a, (b, (c, d))) := x in let '(a', (b', (c', d'))) := y in
  (a <? a') || ((a =? a') && ((b <? b') || ((b =? b') && ((c <? c') || ((c =? c') && (d <? d')))))).

(* what the bound needs from the tables, beyond the conditions of exclusive ownership (own_conditions):
   an owner is never refused by dequeue, and a drain that sees an empty queue ends *)
Record bound_conditions (T : tables) : Prop := {
  b_deq_running : T.(t_dequeue_refuses) Running = false;
  b_fin_empty : forall st st' d, T.(t_drain_fin) st true = (st', d) -> d = true;
}.
