(* L1b: where is the job of a caller that loops until its own job has run?
   [k = true]: a waiter of sync_background (flag `ready`, positions of Wait.wp_q, jobs JSyncBg);
   [k = false]: a draining sync (flag `result`, frames FSDloop and its callees, jobs JSyncDrain).
   While the flag is false the job is in the queue the caller works on, or in the hand of an actor that runs THAT
   queue.  (Wait.JInv says the same for waiters without tying the queue of the running actor.) *)
From stdpp Require Import list numbers option.
From RecordUpdate Require Import RecordUpdate.
From L1 Require Import Model Own Shape Stuck Live Wait.

Definition dp_q (st : list frame) : option nat :=
  match st with
  | FSDloop q :: _ => Some q
  | _ :: FSDloop q :: _ => Some q
  | _ => None
  end.
Definition run_at (q : nat) (st : list frame) (j : job) : Prop :=
  hd_error st = Some (FROrun q j) \/ hd_error st = Some (FDRrun q j).
Definition is_runf (fr : frame) : bool := match fr with FROrun _ _ | FDRrun _ _ => true | _ => false end.
Definition no_run (st : list frame) : Prop := match st with fr :: _ => is_runf fr = false | [] => True end.

Lemma run_at_inj q q' st j j' : run_at q st j -> run_at q' st j' -> j = j'.
Proof. intros [H1|H1] [H2|H2]; congruence. Qed.
Lemma no_run_at st q j : no_run st -> ~ run_at q st j.
Proof. destruct st as [|[] ?]; cbn; intros H [H'|H']; try done; try discriminate. Qed.

Section Kind.
  Context (k : bool).
  Definition flg (ac : actor) : bool := if k then ac.(ready) else ac.(result).
  Definition pos (st : list frame) : option nat := if k then wp_q st else dp_q st.
  Definition mine (w : nat) (j : job) : bool :=
    match j with
    | JSyncBg _ c => k && bool_decide (c = w)
    | JSyncDrain _ c => negb k && bool_decide (c = w)
    | JPlain _ => false
    end.
  Definition locq (s : state) (w q : nat) : Prop :=
    (exists qq j, s.(queues) !! q = Some qq /\ j ∈ qq.(jobs) /\ mine w j = true) \/
    (exists b st j, stacks s !! b = Some st /\ run_at q st j /\ mine w j = true).
  Definition flgs (s : state) : list bool := flg <$> s.(actors).
  Definition GInv (s : state) : Prop :=
    forall w ac q, s.(actors) !! w = Some ac -> pos ac.(stack) = Some q -> flg ac = false -> locq s w q.

  Definition jobs_mono (s s' : state) : Prop :=
    forall q0 qq j, s.(queues) !! q0 = Some qq -> j ∈ qq.(jobs) -> exists qq', s'.(queues) !! q0 = Some qq' /\ j ∈ qq'.(jobs).

  Lemma locq_mono s s' a ac newst w q :
    s.(actors) !! a = Some ac -> stacks s' = <[a := newst]> (stacks s) -> jobs_mono s s' -> no_run ac.(stack) ->
    locq s w q -> locq s' w q.
  Proof.
    intros Ea Hst Hjobs Hnr [(qq & j & Hq & Hin & Hm)|(b & st & j & Hb & Hr & Hm)].
    - left. destruct (Hjobs q qq j Hq Hin) as (qq' & H1 & H2). eauto.
    - right. exists b, st, j. split; [|done]. rewrite Hst. destruct (decide (a = b)) as [->|]; [|by rewrite list_lookup_insert_ne].
      exfalso. rewrite stacks_lookup, Ea in Hb. cbn in Hb. injection Hb as <-. by eapply no_run_at.
  Qed.

  Lemma actor_after_insert' s s' a ac newst b ab' :
    s.(actors) !! a = Some ac -> stacks s' = <[a := newst]> (stacks s) -> flgs s' = flgs s ->
    s'.(actors) !! b = Some ab' ->
    exists ab, s.(actors) !! b = Some ab /\ flg ab' = flg ab /\ ab'.(stack) = if decide (a = b) then newst else ab.(stack).
  Proof.
    intros Ea Hst Hr Hb.
    assert (H1 : flgs s' !! b = Some (flg ab')) by (unfold flgs; by rewrite list_lookup_fmap, Hb).
    rewrite Hr in H1. unfold flgs in H1. rewrite list_lookup_fmap in H1. destruct (actors s !! b) as [ab|] eqn:Eb; [|done]. injection H1 as H1.
    exists ab. split; [done|]. split; [done|].
    assert (H2 : stacks s' !! b = Some ab'.(stack)) by (by rewrite stacks_lookup, Hb).
    rewrite Hst in H2. case_decide; subst.
    - rewrite list_lookup_insert in H2; [by injection H2|]. unfold stacks. rewrite fmap_length. by eapply lookup_lt_Some.
    - rewrite list_lookup_insert_ne in H2 by done. rewrite stacks_lookup, Eb in H2. by injection H2.
  Qed.

  Lemma G_update s s' a ac newst :
    GInv s -> s.(actors) !! a = Some ac ->
    stacks s' = <[a := newst]> (stacks s) -> flgs s' = flgs s -> jobs_mono s s' -> no_run ac.(stack) ->
    (pos newst = None \/ pos newst = pos ac.(stack)) ->
    GInv s'.
  Proof.
    intros HG Ea Hst Hr Hjobs Hnr Hwp b ab' q Hb Hq Hrf.
    destruct (actor_after_insert' s s' a ac newst b ab' Ea Hst Hr Hb) as (ab & Eb & Hrd & Hstk).
    rewrite Hrd in Hrf. eapply locq_mono; [exact Ea|exact Hst|exact Hjobs|exact Hnr|].
    apply (HG b ab q Eb); [|done]. rewrite Hstk in Hq. case_decide; [subst b|done].
    rewrite Ea in Eb. injection Eb as <-. destruct Hwp as [Hwp|Hwp]; congruence.
  Qed.

  (* the stepping actor starts a new operation: its flags are reset, it is in no position *)
  Lemma G_update_reset s s' a ac newst :
    GInv s -> s.(actors) !! a = Some ac ->
    stacks s' = <[a := newst]> (stacks s) ->
    (forall b ab', s'.(actors) !! b = Some ab' -> b <> a -> exists ab, s.(actors) !! b = Some ab /\ flg ab' = flg ab) ->
    s'.(queues) = s.(queues) -> no_run ac.(stack) -> pos newst = None ->
    GInv s'.
  Proof.
    intros HG Ea Hst Hr Hq Hnr Hwp b ab' q Hb Hpq Hrf.
    assert (H2 : stacks s' !! b = Some ab'.(stack)) by (by rewrite stacks_lookup, Hb).
    rewrite Hst in H2. destruct (decide (a = b)) as [<-|Hne].
    - rewrite list_lookup_insert in H2 by (unfold stacks; rewrite fmap_length; by eapply lookup_lt_Some). injection H2 as H2. congruence.
    - rewrite list_lookup_insert_ne in H2 by done. destruct (Hr b ab' Hb) as (ab & Eb & Hrd); [done|].
      rewrite stacks_lookup, Eb in H2. injection H2 as H2. rewrite <- H2 in Hpq. rewrite Hrd in Hrf.
      eapply locq_mono; [exact Ea|exact Hst| |exact Hnr|by eapply HG]. intros q0 qq j H1 H3. rewrite Hq. eauto.
  Qed.

  Lemma G_same s1 s : stacks s1 = stacks s -> flgs s1 = flgs s -> s1.(queues) = s.(queues) -> GInv s -> GInv s1.
  Proof.
    intros Hst Hr Hq HG b ab' q Hb Hpq Hrf.
    assert (H1 : flgs s1 !! b = Some (flg ab')) by (unfold flgs; by rewrite list_lookup_fmap, Hb).
    rewrite Hr in H1. unfold flgs in H1. rewrite list_lookup_fmap in H1. destruct (actors s !! b) as [ab|] eqn:Eb; [|done]. injection H1 as H1.
    assert (H2 : stacks s1 !! b = Some ab'.(stack)) by (by rewrite stacks_lookup, Hb).
    rewrite Hst, stacks_lookup, Eb in H2. injection H2 as H2.
    rewrite <- H2 in Hpq. rewrite <- H1 in Hrf.
    destruct (HG b ab q Eb Hpq Hrf) as [(qq & j & G1 & G2)|(x & st & j & G1 & G2)]; [left|right].
    - rewrite Hq. eauto.
    - rewrite Hst. eauto.
  Qed.

  Lemma flgs_setstack s a st : flgs (setstack s a st) = flgs s.
  Proof.
    unfold flgs, setstack, upda; cbn. apply list_eq. intros i. rewrite !list_lookup_fmap.
    destruct (decide (a = i)) as [->|]; [rewrite list_lookup_alter|by rewrite list_lookup_alter_ne]. by destruct (actors s !! i).
  Qed.
  Lemma flgs_upda_same s a f : (forall x, flg (f x) = flg x) -> flgs (upda s a f) = flgs s.
  Proof.
    intros Hf. unfold flgs, upda; cbn. apply list_eq. intros i. rewrite !list_lookup_fmap.
    destruct (decide (a = i)) as [->|]; [rewrite list_lookup_alter|by rewrite list_lookup_alter_ne]. destruct (actors s !! i); cbn; [by rewrite Hf|done].
  Qed.
  Lemma jobs_mono_refl s s' : s'.(queues) = s.(queues) -> jobs_mono s s'.
  Proof. intros Hq q0 qq j H1 H2. rewrite Hq. eauto. Qed.

  Lemma pos_wake q rest : pos (FSBwoken q :: rest) = pos (FSBwait q :: rest).
  Proof. unfold pos. destruct k; [done|]. by destruct rest as [|[] ?]. Qed.

  Lemma G_wake s w ac q rest : GInv s -> s.(actors) !! w = Some ac -> ac.(stack) = FSBwait q :: rest -> GInv (setstack s w (FSBwoken q :: rest)).
  Proof.
    intros HG Ew Est. eapply (G_update s _ w ac); [done|done|apply stacks_setstack|apply flgs_setstack|by apply jobs_mono_refl| |].
    - by rewrite Est.
    - right. rewrite Est. apply pos_wake.
  Qed.
  Lemma G_notify F s w : GInv s -> GInv (notify F s w).
  Proof.
    intros HG. unfold notify. set (s1 := if f_sticky_notify F then upda s w (fun x => x <| kicked := true |>) else s).
    assert (H1 : GInv s1).
    { subst s1; destruct (f_sticky_notify F); [|done]. apply (G_same _ s); try done; [by apply stacks_upda_same|apply flgs_upda_same]. intros x. unfold flg. by destruct k. }
    destruct (actors s1 !! w) as [aw|] eqn:Ew; [|done]. destruct (stack aw) as [|[] rest] eqn:Es; try done. by eapply G_wake.
  Qed.
  Lemma G_foldl_notify F ws s : GInv s -> GInv (foldl (notify F) s ws).
  Proof. revert s; induction ws as [|w ws IH]; intros s HG; cbn; [done|]. apply IH. by apply G_notify. Qed.

  (* ---------- running a job ---------- *)
  (* what run_job does to an actor: flags can only become true, the flag of the job's caller does; stacks change only
     by a wake-up *)
  Definition job_caller (j : job) : option nat := match j with JPlain _ => None | JSyncDrain _ c | JSyncBg _ c => Some c end.
  Lemma run_job_actor F s j b ab1 :
    (run_job F s j).(actors) !! b = Some ab1 ->
    exists ab, s.(actors) !! b = Some ab /\
      (flg ab = true -> flg ab1 = true) /\ (mine b j = true -> flg ab1 = true) /\
      (job_caller j <> Some b -> flg ab1 = flg ab) /\
      pos ab1.(stack) = pos ab.(stack) /\ (forall q j', run_at q ab1.(stack) j' <-> run_at q ab.(stack) j') /\
      (no_run ab.(stack) -> no_run ab1.(stack)).
  Proof.
    intros Hb. destruct j as [o|o c|o c]; unfold run_job in Hb.
    - exists ab1. cbn in Hb. split; [done|]. split; [done|]. split; [done|]. split; [done|]. split; [done|]. done.
    - rewrite actors_upda_lookup in Hb. destruct (decide (c = b)) as [<-|Hne].
      + apply fmap_Some in Hb as (ab & E & ->). exists ab. split; [done|]. cbn.
        unfold flg, mine; cbn. destruct k; cbn; split_and!; try done.
      + exists ab1. split; [done|]. unfold mine. cbn. split_and!; try done.
        * rewrite bool_decide_false by done. by rewrite andb_false_r.
    - set (s1 := upda _ c _) in Hb.
      assert (H1 : forall x ax1, s1.(actors) !! x = Some ax1 -> exists ax, s.(actors) !! x = Some ax /\ ax1.(stack) = ax.(stack) /\
               (flg ax = true -> flg ax1 = true) /\ (x = c -> flg ax1 = true) /\ (x <> c -> flg ax1 = flg ax)).
      { intros x ax1 Hx. subst s1. rewrite actors_upda_lookup in Hx. cbn in Hx. destruct (decide (c = x)) as [<-|Hne].
        - apply fmap_Some in Hx as (ax & E & ->). exists ax. cbn. unfold flg; cbn. destruct k; split_and!; done.
        - exists ax1. split_and!; try done. }
      assert (Hfin : forall ab1', (ab1'.(stack) = ab1.(stack) \/ exists q r, ab1'.(stack) = FSBwait q :: r /\ ab1.(stack) = FSBwoken q :: r) ->
                flg ab1' = flg ab1 -> s1.(actors) !! b = Some ab1' ->
                exists ab, s.(actors) !! b = Some ab /\
                  (flg ab = true -> flg ab1 = true) /\ (mine b (JSyncBg o c) = true -> flg ab1 = true) /\
                  (job_caller (JSyncBg o c) <> Some b -> flg ab1 = flg ab) /\
                  pos ab1.(stack) = pos ab.(stack) /\ (forall q j', run_at q ab1.(stack) j' <-> run_at q ab.(stack) j') /\
                  (no_run ab.(stack) -> no_run ab1.(stack))).
      { intros ab1' Hs Hf Hx. destruct (H1 b ab1' Hx) as (ab & E1 & E2 & E3 & E4 & E5). exists ab. split; [done|].
        rewrite <- Hf. split; [done|]. split.
        { unfold mine. intros [_ Hc%bool_decide_eq_true]%andb_true_iff. by apply E4. }
        split; [intros Hc; apply E5; cbn in Hc; congruence|].
        rewrite <- E2. destruct Hs as [->|(q & r & -> & ->)]; [done|]. split; [apply pos_wake|].
        split; [|done]. intros q0 j'; split; intros [H|H]; done. }
      destruct (actors s1 !! c) as [acc|] eqn:Ec; [|by apply (Hfin ab1); [left|done|]].
      destruct (stack acc) as [|fr rest] eqn:Es; [by apply (Hfin ab1); [left|done|]|].
      destruct fr; try (by apply (Hfin ab1); [left|done|]).
      rewrite actors_setstack_lookup in Hb. destruct (decide (c = b)) as [<-|Hne]; [|by apply (Hfin ab1); [left|done|]].
      rewrite Ec in Hb. cbn in Hb. injection Hb as <-. apply (Hfin acc); [right; eauto|done|done].
  Qed.

  Lemma locq_after_run F s a ac j q0 newst w q :
    s.(actors) !! a = Some ac -> run_at q0 ac.(stack) j -> mine w j = false ->
    locq s w q -> locq (setstack (run_job F s j) a newst) w q.
  Proof.
    intros Ea Hrun Hm [(qq & j' & G1 & G2 & G3)|(x & st & j' & G1 & G2 & G3)].
    - left. exists qq, j'. split; [|done]. destruct (run_job_frame F s j) as (A & R & ->). done.
    - right. destruct (decide (x = a)) as [->|Hxa].
      { rewrite stacks_lookup, Ea in G1. injection G1 as <-. pose proof (run_at_inj _ _ _ _ _ Hrun G2). congruence. }
      assert (Hx1 : exists ax1, actors (run_job F s j) !! x = Some ax1).
      { apply lookup_lt_is_Some_2. rewrite run_job_len. apply lookup_lt_Some in G1. unfold stacks in G1. by rewrite fmap_length in G1. }
      destruct Hx1 as (ax1 & Ex1). destruct (run_job_actor F s j x ax1 Ex1) as (ax & Eax & _ & _ & _ & _ & Hiff & _).
      rewrite stacks_lookup, Eax in G1. injection G1 as <-.
      exists x, (stack ax1), j'. split; [|split; [by apply Hiff|done]].
      rewrite stacks_setstack, list_lookup_insert_ne by done. by rewrite stacks_lookup, Ex1.
  Qed.

  Lemma G_run F s a ac j q0 newst :
    GInv s -> s.(actors) !! a = Some ac -> run_at q0 ac.(stack) j ->
    (pos newst = None \/ pos newst = pos ac.(stack)) ->
    GInv (setstack (run_job F s j) a newst).
  Proof.
    intros HG Ea Hrun Hwp b ab' q Hb Hpq Hrf. rewrite actors_setstack_lookup in Hb.
    destruct (decide (a = b)) as [<-|Hab].
    - apply fmap_Some in Hb as (ab1 & Eb1 & ->). cbn in Hpq. change (flg ab1 = false) in Hrf.
      destruct (run_job_actor F s j a ab1 Eb1) as (ab & Eab & H1 & H2 & _). rewrite Ea in Eab. injection Eab as <-.
      assert (Hf : flg ac = false) by (destruct (flg ac); [by rewrite H1 in Hrf|done]).
      assert (Hm : mine a j = false) by (destruct (mine a j); [by rewrite H2 in Hrf|done]).
      eapply locq_after_run; [done|done|done|]. apply (HG a ac q Ea); [|done]. destruct Hwp as [Hwp|Hwp]; congruence.
    - destruct (run_job_actor F s j b ab' Hb) as (ab & Eab & H1 & H2 & _ & H4 & _).
      assert (Hf : flg ab = false) by (destruct (flg ab); [by rewrite H1 in Hrf|done]).
      assert (Hm : mine b j = false) by (destruct (mine b j); [by rewrite H2 in Hrf|done]).
      eapply locq_after_run; [done|done|done|]. apply (HG b ab q Eab); [congruence|done].
  Qed.

  (* ---------- pushing the caller's own job, popping a job ---------- *)
  Lemma G_push s s' a ac q j newst :
    GInv s -> s.(actors) !! a = Some ac ->
    stacks s' = <[a := newst]> (stacks s) -> flgs s' = flgs s ->
    (forall q0, s'.(queues) !! q0 = if decide (q = q0) then (fun x => x <| jobs := x.(jobs) ++ [j] |>) <$> (s.(queues) !! q0) else s.(queues) !! q0) ->
    is_Some (s.(queues) !! q) -> no_run ac.(stack) ->
    (pos newst = None \/ pos newst = pos ac.(stack) \/ (pos newst = Some q /\ mine a j = true)) ->
    GInv s'.
  Proof.
    intros HG Ea Hst Hr Hq [qq0 Eq0] Hnr Hwp b ab' q1 Hb Hq1 Hrf.
    assert (Hmono : jobs_mono s s').
    { intros q0 qq j0 H1 H2. rewrite Hq. case_decide; subst; rewrite H1; cbn; eexists; split; try done. cbn. apply elem_of_app. by left. }
    destruct (actor_after_insert' s s' a ac newst b ab' Ea Hst Hr Hb) as (ab & Eb & Hrd & Hstk).
    rewrite Hstk in Hq1. rewrite Hrd in Hrf. destruct (decide (a = b)) as [<-|Hne].
    - rewrite Ea in Eb. injection Eb as <-. destruct Hwp as [Hwp|[Hwp|[Hwp Hm]]]; [congruence| |].
      + eapply locq_mono; [exact Ea|exact Hst|exact Hmono|exact Hnr|]. apply (HG a ac q1 Ea); [congruence|done].
      + assert (q1 = q) by congruence. subst q1. left. exists (qq0 <| jobs := jobs qq0 ++ [j] |>), j. split; [|split; [|done]].
        * rewrite Hq, decide_True by done. by rewrite Eq0.
        * cbn. apply elem_of_app. right. by apply elem_of_list_singleton.
    - eapply locq_mono; [exact Ea|exact Hst|exact Hmono|exact Hnr|]. by apply (HG b ab q1 Eb).
  Qed.

  Lemma G_pop s s' a ac q j l newst :
    GInv s -> s.(actors) !! a = Some ac ->
    stacks s' = <[a := newst]> (stacks s) -> flgs s' = flgs s ->
    (forall q0, s'.(queues) !! q0 = if decide (q = q0) then (fun x => x <| jobs := l |>) <$> (s.(queues) !! q0) else s.(queues) !! q0) ->
    (forall qq, s.(queues) !! q = Some qq -> qq.(jobs) = j :: l) ->
    run_at q newst j -> no_run ac.(stack) ->
    (pos newst = None \/ pos newst = pos ac.(stack)) ->
    GInv s'.
  Proof.
    intros HG Ea Hst Hr Hq Hjobs Hrun Hnr Hwp b ab' q1 Hb Hq1 Hrf.
    destruct (actor_after_insert' s s' a ac newst b ab' Ea Hst Hr Hb) as (ab & Eb & Hrd & Hstk).
    assert (Hloc : forall w q2, locq s w q2 -> locq s' w q2).
    { intros w q2 [(qq & j' & G1 & G2 & G3)|(x & st & j' & G1 & G2 & G3)].
      - destruct (decide (q = q2)) as [<-|Hne].
        + rewrite (Hjobs qq G1) in G2. apply elem_of_cons in G2 as [G2|G2].
          * right. exists a, newst, j'. split; [|subst j'; done].
            rewrite Hst, list_lookup_insert; [done|]. unfold stacks. rewrite fmap_length. by eapply lookup_lt_Some.
          * left. exists (qq <| jobs := l |>), j'. split; [|done]. rewrite Hq, decide_True by done. by rewrite G1.
        + left. exists qq, j'. split; [|done]. by rewrite Hq, decide_False.
      - right. exists x, st, j'. split; [|done]. rewrite Hst. destruct (decide (a = x)) as [<-|]; [|by rewrite list_lookup_insert_ne].
        exfalso. rewrite stacks_lookup, Ea in G1. injection G1 as <-. by eapply no_run_at. }
    rewrite Hrd in Hrf. apply Hloc. apply (HG b ab q1 Eb); [|done]. rewrite Hstk in Hq1. destruct (decide (a = b)) as [<-|]; [|done].
    rewrite Ea in Eb. injection Eb as <-. destruct Hwp as [Hwp|Hwp]; congruence.
  Qed.

  Lemma G_add_actor s s1 new :
    s1.(queues) = s.(queues) -> s1.(actors) = s.(actors) ++ [new] -> pos new.(stack) = None ->
    GInv s -> GInv s1.
  Proof.
    intros Hq Ha Hwp HG b ab q Hb Hpq Hrf. rewrite Ha in Hb.
    assert (Hloc : forall w q, locq s w q -> locq s1 w q).
    { intros w q' [(qq & j & G1 & G2)|(x & st & j & G1 & G2)]; [left; rewrite Hq; eauto|right].
      exists x, st, j. split; [|done]. unfold stacks. rewrite Ha, fmap_app. by apply lookup_app_l_Some. }
    apply lookup_app_Some in Hb as [Hb|[_ Hb]].
    - apply Hloc. by eapply HG.
    - destruct (b - length (actors s)); [|done]. cbn in Hb. injection Hb as <-. congruence.
  Qed.
End Kind.
