From stdpp Require Import list numbers option list_numbers.
From RecordUpdate Require Import RecordUpdate.
From L1 Require Import Model Own Shape Stuck Live Wait Help Final.
From L1b Require Import Measure Sums JobLoc JobStep Good Bystander Comp.

(* L1b: every step of the L1 model from a state that satisfies the invariants strictly decreases the measure. *)

Lemma alter_same s s' a ac (h : actor -> actor) :
  s.(actors) !! a = Some ac -> s'.(actors) = alter h a s.(actors) ->
  others_same s s' a /\ s'.(actors) !! a = Some (h ac).
Proof.
  intros Ea Hs. unfold others_same. rewrite Hs. split; [split|].
  - by rewrite alter_length.
  - intros b Hb. by rewrite list_lookup_alter_ne.
  - by rewrite list_lookup_alter, Ea.
Qed.

(* ---------- steps that wake other actors ---------- *)
Lemma run_step_decr F s a ac fr rest j newst :
  s.(actors) !! a = Some ac -> ac.(stack) = fr :: rest -> Measure.is_runf fr = true ->
  match newst with g :: _ => Measure.is_runf g = false | [] => True end ->
  (forall r, sum_list_with (wfr r) newst <= sum_list_with (wfr r) rest) ->
  lex4 (mu (setstack (run_job F s j) a newst)) (mu s).
Proof.
  intros Ea Est Hfr Hrest Hw. set (s' := setstack (run_job F s j) a newst).
  destruct (lookup_lt_is_Some_2 (actors (run_job F s j)) a) as [ac1 Ea1]; [rewrite run_job_len; by eapply lookup_lt_Some|].
  destruct (run_job_by F s j a ac1 Ea1) as (ac0 & E0 & Hby). rewrite Ea in E0. injection E0 as <-.
  assert (Ea' : actors s' !! a = Some (ac1 <| stack := newst |>)).
  { subst s'. rewrite actors_setstack_lookup, decide_True by done. by rewrite Ea1. }
  assert (Ho : others_by s s' a).
  { split; [subst s'; by rewrite length_actors_setstack, run_job_len|].
    intros b ab' Hb Hne. subst s'. rewrite actors_setstack_lookup, decide_False in Hb by done. by eapply run_job_by. }
  assert (Hw0 : forall r, wfr r fr = 0) by (intros r; by destruct fr).
  unfold mu. apply lex4_M.
  - eapply (muP_le s s' a ac _ Ea Ea'); [done|]. apply pw_flag_le; [apply Hby|]. intros r. cbn. rewrite Est. cbn. rewrite Hw0. specialize (Hw r). lia.
  - pose proof (hand_sum_lt s s' a ac _ Ea Ea' Ho) as Hh.
    assert (hand (ac1 <| stack := newst |>) < hand ac) as Hlt.
    { unfold hand. cbn. rewrite Est, Hfr. destruct newst as [|g ?]; [lia|]. rewrite Hrest. lia. }
    specialize (Hh Hlt). unfold muM. subst s'. destruct (run_job_frame F s j) as (A & R & Hfrm). rewrite Hfrm in *. cbn in *. lia.
Qed.

Lemma notify_step_decr F s a ac q rest ws g newst :
  s.(actors) !! a = Some ac -> ac.(stack) = FRQ1 q :: rest ->
  (forall r, sum_list_with (wfr r) newst < 3 + sum_list_with (wfr r) rest) ->
  lex4 (mu (setstack (updq (foldl (notify F) s ws) q g) a newst)) (mu s).
Proof.
  intros Ea Est Hw. set (s' := setstack _ a newst).
  destruct (lookup_lt_is_Some_2 (actors (foldl (notify F) s ws)) a) as [ac1 Ea1]; [rewrite foldl_notify_len; by eapply lookup_lt_Some|].
  destruct (foldl_notify_by F ws s a ac1 Ea1) as (ac0 & E0 & Hby). rewrite Ea in E0. injection E0 as <-.
  assert (Ea' : actors s' !! a = Some (ac1 <| stack := newst |>)).
  { subst s'. rewrite actors_setstack_lookup, decide_True by done. cbn. by rewrite Ea1. }
  assert (Ho : others_by s s' a).
  { split; [subst s'; rewrite length_actors_setstack; cbn; by rewrite foldl_notify_len|].
    intros b ab' Hb Hne. subst s'. rewrite actors_setstack_lookup, decide_False in Hb by done. cbn in Hb. by eapply foldl_notify_by. }
  unfold mu. apply lex4_P. eapply (muP_lt s s' a ac _ Ea Ea'); [done|]. apply pw_flag_lt; [apply Hby|].
  intros r. cbn. rewrite Est. cbn. apply Hw.
Qed.

Lemma sum_same_eq s s' a ac ac' (f g : actor -> nat) :
  s.(actors) !! a = Some ac -> s'.(actors) !! a = Some ac' -> others_same s s' a -> (forall x, g x = f x) ->
  sum_list_with g s'.(actors) + f ac = sum_list_with f s.(actors) + g ac'.
Proof.
  intros Ea Ea' [Hl Ho] Hfg.
  assert (Hal : actors s' = alter (fun _ => ac') a (actors s)).
  { apply list_eq. intros i. destruct (decide (i = a)) as [->|Hne].
    - by rewrite list_lookup_alter, Ea, Ea'.
    - rewrite list_lookup_alter_ne by done. by apply Ho. }
  rewrite Hal. assert (Hext : forall l, sum_list_with g l = sum_list_with f l) by (induction l as [|x l IH]; cbn; [done|by rewrite Hfg, IH]).
  rewrite Hext. pose proof (sum_alter f (fun _ => ac') (actors s) a ac Ea). rewrite Hfg. lia.
Qed.

Lemma jobs_lookup_alter (f : queue -> queue) q (l : list queue) q' :
  (forall x, (f x).(jobs) = x.(jobs)) -> (fun qq => qq.(jobs)) <$> (alter f q l !! q') = (fun qq => qq.(jobs)) <$> (l !! q').
Proof.
  intros Hf. destruct (decide (q = q')) as [->|]; [|by rewrite list_lookup_alter_ne].
  rewrite list_lookup_alter. destruct (l !! q'); cbn; [by rewrite Hf|done].
Qed.

Lemma sum_alter_same {A} (g : A -> nat) (f : A -> A) t (l : list A) :
  (forall x, g (f x) = g x) -> sum_list_with g (alter f t l) = sum_list_with g l.
Proof.
  intros Hf. revert t. induction l as [|x l IH]; intros [|t]; cbn; try done; [by rewrite Hf|by rewrite IH].
Qed.

Lemma owner_not_refused (T : tables) (HB : bound_conditions T) s a ac q qq :
  Good s -> s.(actors) !! a = Some ac -> 1 <= cnt q ac.(stack) -> s.(queues) !! q = Some qq ->
  T.(t_dequeue_refuses) qq.(qs) = false.
Proof.
  intros HG Ea Hc Eq. pose proof (g_inv _ HG) as HI.
  pose proof (inv_cnt s HI a q qq (cnt q (stack ac))) as H. unfold stack_cnt in H. rewrite Ea in H. specialize (H eq_refl Eq).
  destruct (decide (owner qq = Some a)) as [Ho|]; [|lia].
  assert (Hrun : qq.(qs) = Running) by (apply (inv_state s HI q qq Eq); by rewrite Ho).
  rewrite Hrun. apply (b_deq_running _ HB).
Qed.

Lemma spawn_step_decr s a ac rest :
  s.(actors) !! a = Some ac -> ac.(stack) = FSTspawn :: rest -> length s.(threads) < s.(maxt) ->
  lex4 (mu (setstack (s <| threads := s.(threads) ++ [ {| busy := false; held := false; chan := 0; tactor := length s.(actors) |} ] |>
                        <| actors := s.(actors) ++ [ {| stack := [FTrecv (length s.(threads))]; ready := false; result := false; opctr := 0; kicked := false |} ] |>)
                  a (FSTlock :: rest))) (mu s).
Proof.
  intros Ea Est Hlt. pose proof (lookup_lt_Some _ _ _ Ea) as Hla.
  unfold mu. apply lex4_M.
  - unfold muP, setstack, upda; cbn. rewrite alter_app_l by done. rewrite sum_list_with_app. cbn.
    pose proof (sum_alter pw (fun x => x <| stack := FSTlock :: rest |>) (actors s) a ac Ea) as H.
    unfold pw in H at 2 3. cbn in H. rewrite Est in H. cbn in H. unfold pw at 2. cbn. lia.
  - unfold muM, setstack, upda; cbn. rewrite alter_app_l by done. rewrite !sum_list_with_app, app_length. cbn.
    pose proof (sum_alter hand (fun x => x <| stack := FSTlock :: rest |>) (actors s) a ac Ea) as H.
    unfold hand in H at 2 3. cbn in H. rewrite Est in H. cbn in H. unfold hand at 2. cbn. lia.
Qed.

Ltac actors_alter := unfold setstack, upda, updq, updt; cbn; rewrite <- ?list_alter_compose; reflexivity.

Section Decr.
  Context (T : tables) (F : facts) (HT : own_conditions T) (HB : bound_conditions T).

  Lemma step_decr s a s' : Good s -> step T F s a = Some s' -> lex4 (mu s') (mu s).
  Proof.
    intros HG Hstep. pose proof (g_shape _ HG) as HS. unfold step in Hstep.
    destruct (actors s !! a) as [ac|] eqn:Ea; cbn in Hstep; [|congruence].
    destruct (stack ac) as [|fr rest] eqn:Est; [congruence|].
    destruct fr.
    all: cbn beta iota zeta in Hstep.
    all: repeat (first
         [ match type of Hstep with
           | context [queues _ !! ?q] => let E := fresh "Eq" in destruct (queues s !! q) as [qq|] eqn:E; cbn in Hstep; [|congruence]
           | context [threads _ !! ?t] => let E := fresh "Et" in destruct (threads s !! t) as [th|] eqn:E; cbn in Hstep
           end
         | match type of Hstep with context [match ?x with _ => _ end] => let E := fresh "E" in destruct x eqn:E end; cbn in Hstep; try congruence ]).
    all: try discriminate.
    all: try (injection Hstep as <-).
    all: pose proof (kind_of s a ac HS Ea) as Hkind; rewrite Est in Hkind;
         destruct Hkind as [[Hlt Hok]|(t0 & Hat & Hok)];
         [ apply caller_ok_inv in Hok as [(-> & Hfr)|[(os & -> & Hsf)|(g & os & -> & Hpo)]]; try discriminate;
           try (cbn in Hpo; destruct g; try discriminate; try (apply bool_decide_eq_true in Hpo; subst))
         | apply pool_ok_inv in Hok as [(-> & Hfr)|(-> & Hfr)]; try discriminate; try (cbn in Hfr; apply bool_decide_eq_true in Hfr; subst) ].
    all: unfold mu.
    (* class A, the phase potential decreases *)
    all: try (lazymatch goal with |- lex4 (muP ?s1, _) _ =>
              destruct (alter_same s s1 a ac _ Ea ltac:(actors_alter)) as [Hsame Ea'];
              apply lex4_P; eapply (muP_lt s s1 a ac _ Ea Ea'); [by apply others_same_by|];
              unfold pw; cbn; rewrite Est; cbn; repeat case_match; lia end; fail).
    (* running a job; reschedule_queue *)
    all: try (lazymatch goal with |- lex4 (muP (setstack (run_job _ _ _) _ _), _) _ =>
              eapply (run_step_decr F s _ ac _ _ j _ Ea Est); [done|done|intros r; cbn; lia] end; fail).
    all: try (lazymatch goal with |- lex4 (muP (setstack (updq (foldl (notify _) _ _) _ _) _ _), _) _ =>
              eapply (notify_step_decr F s _ ac _ _ _ _ _ Ea Est); intros r; cbn; repeat case_match; lia end; fail).
    (* the loops that end only when the caller's own job has run: the dequeue cannot come back empty-handed *)
    all: try (lazymatch goal with Est : stack _ = FROdeq ?q :: FSDloop ?q :: _ |- lex4 (muP (setstack _ _ (FSDloop _ :: _)), _) _ =>
              destruct (result ac) eqn:Eflag;
              [ | exfalso; destruct (dequeue_succeeds T HB s a ac q _ _ HG Ea Est) as (qq' & j' & l' & G1 & G2 & G3); [by left|];
                  match goal with Eq : queues _ !! q = Some _ |- _ => rewrite Eq in G1; injection G1 as <- end; congruence ] end).
    all: try (lazymatch goal with Est : stack _ = FROdeq ?q :: FSBsteal ?q :: _ |- lex4 (muP (setstack _ _ (FSBsteal _ :: _)), _) _ =>
              destruct (ready ac) eqn:Eflag;
              [ | exfalso; destruct (dequeue_succeeds T HB s a ac q _ _ HG Ea Est) as (qq' & j' & l' & G1 & G2 & G3); [by right|];
                  match goal with Eq : queues _ !! q = Some _ |- _ => rewrite Eq in G1; injection G1 as <- end; congruence ] end).
    (* the owner is not refused by dequeue *)
    all: try (lazymatch goal with Est : stack _ = FDRdeq ?q :: _, E : t_dequeue_refuses _ _ = true |- _ =>
              exfalso; match goal with Eq : queues _ !! q = Some ?qq |- _ =>
                pose proof (owner_not_refused T HB s a ac q qq HG Ea) as Hnr; rewrite Est in Hnr; cbn in Hnr; rewrite bool_decide_true in Hnr by done;
                specialize (Hnr ltac:(lia) Eq); congruence end end).
    (* a drain that is not finished has seen a job *)
    all: try (lazymatch goal with Est : stack _ = FDRfin ?q :: _, E : t_drain_fin _ _ _ = (_, false) |- _ =>
              match goal with Eq : queues _ !! q = Some ?qq |- _ =>
                destruct (jobs qq) as [|j0 l0] eqn:Ejobs;
                [ exfalso; rewrite bool_decide_true in E by done; by pose proof (b_fin_empty T HB _ _ _ E) | ] end end).
    (* class A: the other actors are untouched; exact accounting *)
    all: try (match goal with E : threads _ !! _ = Some _ |- _ => pose proof (lookup_lt_Some _ _ _ E) end).
    all: try (lazymatch goal with |- lex4 (muP (setstack ?X ?aa ?st), _) _ =>
              pose (s1 := setstack X aa st);
              destruct (alter_same s s1 aa ac _ Ea ltac:(actors_alter)) as [Hsame Ea'];
              pose proof (sum_same_eq s s1 aa ac _ pw pw Ea Ea' Hsame ltac:(done)) as HP;
              pose proof (sum_same_eq s s1 aa ac _ hand hand Ea Ea' Hsame ltac:(done)) as HH;
              pose proof (sum_same_eq s s1 aa ac _ kc kc Ea Ea' Hsame ltac:(done)) as HK;
              first [ pose proof (sum_same_eq s s1 aa ac _ (lr s) (lr s1) Ea Ea' Hsame
                        ltac:(intros x; apply lr_same; [subst s1; cbn; rewrite ?alter_length; done
                                                       | intros q'; subst s1; cbn; rewrite <- ?list_alter_compose; first [done | apply jobs_lookup_alter; done]])) as HL
                    | idtac ];
              change (lex4 (muP s1, (muM s1, (muK s1, muL s1))) (muP s, (muM s, (muK s, muL s))));
              unfold muP, muM, muK, muL, lex4;
              set (P1 := sum_list_with pw (actors s1)) in *; set (P0 := sum_list_with pw (actors s)) in *;
              set (H1 := sum_list_with hand (actors s1)) in *; set (H0 := sum_list_with hand (actors s)) in *;
              set (K1 := sum_list_with kc (actors s1)) in *; set (K0 := sum_list_with kc (actors s)) in *;
              set (L1 := sum_list_with (lr s1) (actors s1)) in *; set (L0 := sum_list_with (lr s) (actors s)) in *;
              clearbody P1 P0 H1 H0 K1 K0 L1 L0; subst s1;
              unfold pw, hand, kc, lr in *; cbn in *; rewrite Est in *; cbn in *; rewrite <- ?list_alter_compose;
              repeat match goal with
                | Eq : queues ?ss !! ?q = Some ?qq |- context [alter ?f ?q (queues ?ss)] =>
                    let HQ := fresh "HQ" in pose proof (sum_alter (fun qq => length qq.(jobs)) f (queues ss) q qq Eq) as HQ; cbn in HQ;
                    set (Q1 := sum_list_with (fun qq => length qq.(jobs)) (alter f q (queues ss))) in *; clearbody Q1
                | Et : threads ?ss !! ?t = Some ?th |- context [alter ?f ?t (threads ?ss)] =>
                    let HT := fresh "HT" in pose proof (sum_alter chan f (threads ss) t th Et) as HT; cbn in HT;
                    set (T1 := sum_list_with chan (alter f t (threads ss))) in *; clearbody T1
                end;
              rewrite ?(sum_alter_same chan) in * by done; rewrite ?alter_length in *;
              repeat match goal with Eq : queues _ !! _ = Some _ |- _ => rewrite Eq in * end; cbn in *;
              repeat match goal with E : jobs _ = _ |- _ => rewrite E in *; cbn in * end;
              repeat match goal with E : chan _ = _ |- _ => rewrite E in *; cbn in * end;
              repeat match goal with E : sched _ = _ |- _ => rewrite E in *; cbn in * end;
              repeat case_match; lia end; fail).
    all: try (eapply spawn_step_decr; [done|done|lia]; fail).
  Qed.
End Decr.
