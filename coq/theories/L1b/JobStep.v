(* L1b: the job-location invariant GInv (both kinds) is preserved by every step. *)
From stdpp Require Import list numbers option.
From RecordUpdate Require Import RecordUpdate.
From L1 Require Import Model Own Shape Stuck Live Wait.
From L1b Require Import JobLoc.

Ltac gb_flgs := rewrite flgs_setstack; first [reflexivity | by rewrite flgs_upda_same].
Ltac gb_mono := let H1 := fresh in let H2 := fresh in intros ?q0 ?qq0 ?j0 H1 H2;
  first [ solve [eexists; split; [exact H1 | exact H2]]
        | rewrite ?queues_setstack, ?queues_upda, ?queues_updt; rewrite ?queues_updq; repeat case_decide; subst;
          first [ solve [eexists; split; [exact H1 | exact H2]]
                | rewrite H1; eexists; (split; [reflexivity|]); cbn; first [exact H2 | apply elem_of_app; left; exact H2] ] ].
Ltac gb_nr Est := rewrite Est; done.
Ltac gb_pos Est := rewrite Est; cbn; first [by left | by right].

Section GStep.
  Context (T : tables) (F : facts).

  Lemma step_g k s a s' : Shape s -> WF s -> GInv k s -> step T F s a = Some s' -> GInv k s'.
  Proof.
    intros HS HW HG Hstep. unfold step in Hstep.
    destruct (actors s !! a) as [ac|] eqn:Ea; cbn in Hstep; [|congruence].
    destruct (stack ac) as [|fr rest] eqn:Est; [congruence|].
    destruct fr.
    all: cbn beta iota zeta in Hstep.
    all: repeat (first
         [ match type of Hstep with
           | context [queues _ !! ?q] => let E := fresh "Eq" in destruct (queues s !! q) as [qq|] eqn:E; cbn in Hstep; [|congruence]
           | context [threads _ !! ?t] => let E := fresh "Et" in destruct (threads s !! t) as [th|] eqn:E; cbn in Hstep
           end
         | match type of Hstep with context [match ?x with _ => _ end] => let E := fresh "E" in destruct x eqn:E end; cbn in Hstep; try congruence ]).
    all: try discriminate.
    all: try (injection Hstep as <-).
    (* make the stack concrete *)
    all: pose proof (kind_of s a ac HS Ea) as Hkind; rewrite Est in Hkind;
         destruct Hkind as [[Hlt Hok]|(t0 & Hat & Hok)];
         [ apply caller_ok_inv in Hok as [(-> & Hfr)|[(os & -> & Hsf)|(g & os & -> & Hpo)]]; try discriminate;
           try (cbn in Hpo; destruct g; try discriminate; try (apply bool_decide_eq_true in Hpo; subst))
         | apply pool_ok_inv in Hok as [(-> & Hfr)|(-> & Hfr)]; try discriminate; try (cbn in Hfr; apply bool_decide_eq_true in Hfr; subst) ].
    all: destruct k.
    (* the generic case *)
    all: try (eapply (G_update _ s _ _ ac _ HG Ea);
              [ ob_stacks | gb_flgs | gb_mono | gb_nr Est | gb_pos Est ]; fail).
    (* a new operation: the flags are reset, the thread is in no position *)
    all: try (lazymatch goal with Est : stack _ = [FTop _] |- _ => idtac end;
              eapply (G_update_reset _ s _ a ac _ HG Ea);
              [ ob_stacks
              | intros b ab' Hb Hne; rewrite actors_setstack_lookup, decide_False in Hb by done; rewrite actors_upda_lookup, decide_False in Hb by done; eauto
              | done | gb_nr Est | done ]; fail).
    (* spawn *)
    all: try (lazymatch goal with |- GInv ?kk (setstack (_ <| threads := _ |> <| actors := ?A |>) _ _) =>
          set (s1 := s <| threads := _ |> <| actors := _ |>);
          assert (HG1 : GInv kk s1) by (eapply (G_add_actor _ s s1); [done|done|done|exact HG]) end;
          assert (Ea1 : actors s1 !! a = Some ac) by (subst s1; cbn; by apply lookup_app_l_Some);
          eapply (G_update _ s1 _ _ ac _ HG1 Ea1);
              [ ob_stacks | gb_flgs | gb_mono | gb_nr Est | gb_pos Est ]; fail).
    (* running a job *)
    all: try (lazymatch goal with |- GInv _ (setstack (run_job ?F ?s ?j) ?a ?st) =>
              eapply (G_run _ F s a ac j _ st HG Ea); [ rewrite Est; first [by left | by right] | gb_pos Est ] end; fail).
    (* taking or claiming a queue: the inner record update does not touch the queues *)
    all: try (eapply (G_update _ s _ _ ac _ HG Ea);
              [ ob_stacks | gb_flgs
              | intros ?q0 ?qq0 ?j0 ?H1 ?H2; rewrite queues_setstack, queues_updq; cbn [queues set]; case_decide; subst;
                [ match goal with H : queues _ !! _ = Some _ |- _ => rewrite H end; eexists; (split; [reflexivity|]); cbn; done | eexists; split; [eassumption|done] ]
              | gb_nr Est | gb_pos Est ]; fail).
    (* a job is pushed: the caller's own job for FSBpush (k = true) and FSDpush (k = false) *)
    all: try (lazymatch goal with Est : stack _ = ?fr ?q :: _ |- GInv _ (setstack (updq _ ?q (fun x => x <| jobs := jobs x ++ [?j] |>)) _ _) =>
              eapply (G_push _ s _ a ac q j _ HG Ea);
              [ ob_stacks | gb_flgs | obs_q2 | by eexists | gb_nr Est
              | rewrite Est; cbn; first [by left | right; left; done | right; right; split; [done|]; unfold mine; cbn; by rewrite bool_decide_true] ] end; fail).
    (* a runner pops the next job *)
    all: try (lazymatch goal with |- GInv _ (setstack (updq _ ?q (fun x => x <| jobs := ?l |>)) _ (?fr ?q' ?j :: _)) =>
              eapply (G_pop _ s _ _ ac q j l _ HG Ea);
              [ ob_stacks | gb_flgs | obs_q2
              | intros ?qq0 ?H; match goal with Eq : queues _ !! _ = Some _ |- _ => rewrite Eq in H; injection H as <-; done end
              | first [by left | by right] | gb_nr Est | gb_pos Est ] end; fail).
    (* reschedule_queue: wake the waiters first *)
    all: try (lazymatch goal with |- GInv _ (setstack (updq (foldl (notify ?F) ?s ?ws) ?q ?g) ?a ?st) =>
              assert (HG1 : GInv _ (foldl (notify F) s ws)) by (by apply G_foldl_notify);
              destruct (foldl_notify_self F ws s a ac Ea) as (ac1 & Ea1 & Est1); [by rewrite Est|]; rewrite Est in Est1;
              destruct (foldl_notify_frame F ws s) as (A & Hfr2); rewrite Hfr2 in *;
              eapply (G_update _ _ _ a ac1 _ HG1 Ea1);
              [ ob_stacks | gb_flgs
              | intros ?q0 ?qq0 ?j0 ?H1 ?H2; rewrite queues_setstack, queues_updq; cbn [queues set] in *; case_decide; subst;
                [ match goal with H : queues _ !! _ = Some _ |- _ => rewrite H end; eexists; (split; [reflexivity|]); cbn; done | eexists; split; [eassumption|done] ]
              | gb_nr Est1 | gb_pos Est1 ] end; fail).
    eapply (G_push _ s _ a ac q _ [FSDloop q; FTop os] HG Ea).
    - rewrite stacks_setstack. done.
    - gb_flgs.
    - obs_q2.
    - pose proof (WF_self s a ac HW Ea) as Hwf. rewrite Est in Hwf. cbn in Hwf. apply andb_true_iff in Hwf as [Hwf _].
      apply bool_decide_eq_true in Hwf. by apply lookup_lt_is_Some_2.
    - gb_nr Est.
    - rewrite Est. cbn. right; right. split; [done|]. unfold mine; cbn. by rewrite bool_decide_true.
  Qed.

  Lemma init_g k nq mx scripts : GInv k (init nq mx scripts).
  Proof.
    intros w ac q Hw Hq. unfold init in Hw; cbn in Hw. rewrite list_lookup_fmap in Hw. destruct (scripts !! w); [|done]. injection Hw as <-.
    cbn in Hq. by destruct k.
  Qed.
End GStep.
