(* L1b: how the four components of the measure change when one actor takes a step. *)
From stdpp Require Import list numbers option list_numbers.
From RecordUpdate Require Import RecordUpdate.
From L1 Require Import Model Own Shape Stuck.
From L1b Require Import Measure Sums Bystander.

Lemma lex4_P a b c d a' b' c' d' : a < a' -> lex4 (a, (b, (c, d))) (a', (b', (c', d'))).
Proof. unfold lex4. lia. Qed.
Lemma lex4_M a b c d a' b' c' d' : a <= a' -> b < b' -> lex4 (a, (b, (c, d))) (a', (b', (c', d'))).
Proof. unfold lex4. lia. Qed.
Lemma lex4_K a b c d a' b' c' d' : a <= a' -> b <= b' -> c < c' -> lex4 (a, (b, (c, d))) (a', (b', (c', d'))).
Proof. unfold lex4. lia. Qed.
Lemma lex4_L a b c d a' b' c' d' : a <= a' -> b <= b' -> c <= c' -> d < d' -> lex4 (a, (b, (c, d))) (a', (b', (c', d'))).
Proof. unfold lex4. lia. Qed.

(* the other actors: unchanged, or changed as by a wake-up *)
Definition others_by (s s' : state) (a : nat) : Prop :=
  length s'.(actors) = length s.(actors) /\
  forall b ab', s'.(actors) !! b = Some ab' -> b <> a -> exists ab, s.(actors) !! b = Some ab /\ by_ok ab ab'.
Definition others_same (s s' : state) (a : nat) : Prop :=
  length s'.(actors) = length s.(actors) /\ forall b, b <> a -> s'.(actors) !! b = s.(actors) !! b.

Lemma others_same_by s s' a : others_same s s' a -> others_by s s' a.
Proof. intros [H1 H2]. split; [done|]. intros b ab' Hb Hne. rewrite H2 in Hb by done. exists ab'. split; [done|apply by_ok_refl]. Qed.

Section Comp.
  Context (s s' : state) (a : nat) (ac ac' : actor).
  Context (Ea : s.(actors) !! a = Some ac) (Ea' : s'.(actors) !! a = Some ac').

  Lemma sum_by_lt (f : actor -> nat) : others_by s s' a -> (forall x y, by_ok x y -> f y <= f x) -> f ac' < f ac ->
    sum_list_with f s'.(actors) < sum_list_with f s.(actors).
  Proof.
    intros [Hl Ho] Hf Hlt. eapply (sum_pointwise_lt f f _ _ a ac ac'); try done.
    intros i x y Hx Hy. destruct (decide (i = a)) as [->|Hne]; [rewrite Ea in Hx; rewrite Ea' in Hy; injection Hx as <-; injection Hy as <-; lia|].
    destruct (Ho i y Hy Hne) as (x' & Hx' & Hb). rewrite Hx in Hx'. injection Hx' as <-. by apply Hf.
  Qed.
  Lemma sum_by_le (f : actor -> nat) : others_by s s' a -> (forall x y, by_ok x y -> f y <= f x) -> f ac' <= f ac ->
    sum_list_with f s'.(actors) <= sum_list_with f s.(actors).
  Proof.
    intros [Hl Ho] Hf Hlt. eapply (sum_pointwise_le f f); try done.
    intros i x y Hx Hy. destruct (decide (i = a)) as [->|Hne]; [rewrite Ea in Hx; rewrite Ea' in Hy; injection Hx as <-; by injection Hy as <-|].
    destruct (Ho i y Hy Hne) as (x' & Hx' & Hb). rewrite Hx in Hx'. injection Hx' as <-. by apply Hf.
  Qed.

  Lemma muP_lt : others_by s s' a -> pw ac' < pw ac -> muP s' < muP s.
  Proof. intros Ho Hlt. unfold muP. apply sum_by_lt; [done|apply pw_by|done]. Qed.
  Lemma muP_le : others_by s s' a -> pw ac' <= pw ac -> muP s' <= muP s.
  Proof. intros Ho Hlt. unfold muP. apply sum_by_le; [done|apply pw_by|done]. Qed.

  Lemma hand_sum_lt : others_by s s' a -> hand ac' < hand ac -> sum_list_with hand s'.(actors) < sum_list_with hand s.(actors).
  Proof. intros Ho Hlt. apply sum_by_lt; [done| |done]. intros x y H. by rewrite (hand_by x y H). Qed.
  Lemma hand_sum_le : others_by s s' a -> hand ac' <= hand ac -> sum_list_with hand s'.(actors) <= sum_list_with hand s.(actors).
  Proof. intros Ho Hlt. apply sum_by_le; [done| |done]. intros x y H. by rewrite (hand_by x y H). Qed.

  (* with the other actors untouched the sum moves exactly with the stepping actor *)
  Lemma sum_same (f g : actor -> nat) : others_same s s' a -> (forall x, g x <= f x) -> g ac' <= f ac ->
    sum_list_with g s'.(actors) <= sum_list_with f s.(actors).
  Proof.
    intros [Hl Ho] Hfg Hle. eapply (sum_pointwise_le f g); try done.
    intros i x y Hx Hy. destruct (decide (i = a)) as [->|Hne]; [rewrite Ea in Hx; rewrite Ea' in Hy; injection Hx as <-; by injection Hy as <-|].
    rewrite Ho in Hy by done. rewrite Hx in Hy. injection Hy as <-. apply Hfg.
  Qed.
  Lemma sum_same_lt (f g : actor -> nat) : others_same s s' a -> (forall x, g x <= f x) -> g ac' < f ac ->
    sum_list_with g s'.(actors) < sum_list_with f s.(actors).
  Proof.
    intros [Hl Ho] Hfg Hlt. eapply (sum_pointwise_lt f g _ _ a ac ac'); try done.
    intros i x y Hx Hy. destruct (decide (i = a)) as [->|Hne]; [rewrite Ea in Hx; rewrite Ea' in Hy; injection Hx as <-; injection Hy as <-; lia|].
    rewrite Ho in Hy by done. rewrite Hx in Hy. injection Hy as <-. apply Hfg.
  Qed.
End Comp.

(* the weight of the stepping actor when its ready flag may have been set by a job that ran *)
Lemma pw_flag_lt ac ac' : (ac.(ready) = true -> ac'.(ready) = true) ->
  (forall r, sum_list_with (wfr r) ac'.(stack) < sum_list_with (wfr r) ac.(stack)) -> pw ac' < pw ac.
Proof.
  intros Hr Hs. unfold pw. destruct (ready ac) eqn:E; [rewrite Hr by done; apply Hs|].
  destruct (ready ac'); [|apply Hs]. eapply Nat.le_lt_trans; [apply sum_wfr_mono|apply Hs].
Qed.
Lemma pw_flag_le ac ac' : (ac.(ready) = true -> ac'.(ready) = true) ->
  (forall r, sum_list_with (wfr r) ac'.(stack) <= sum_list_with (wfr r) ac.(stack)) -> pw ac' <= pw ac.
Proof.
  intros Hr Hs. unfold pw. destruct (ready ac) eqn:E; [rewrite Hr by done; apply Hs|].
  destruct (ready ac'); [|apply Hs]. etrans; [apply sum_wfr_mono|apply Hs].
Qed.

(* the local rank looks at the number of threads and at the emptiness of queues only *)
Lemma lr_same s s' x : length s'.(threads) = length s.(threads) ->
  (forall q, (fun qq => qq.(jobs)) <$> (s'.(queues) !! q) = (fun qq => qq.(jobs)) <$> (s.(queues) !! q)) ->
  lr s' x = lr s x.
Proof.
  intros Ht Hq. unfold lr. destruct (stack x) as [|fr ?]; [done|]. destruct fr; cbn; rewrite ?Ht; try done.
  specialize (Hq q). destruct (queues s' !! q) as [qq'|], (queues s !! q) as [qq|]; cbn in Hq; try done. injection Hq as ->. done.
Qed.
