(* L-bound on the code as it is now: the generated tables meet the conditions. *)
From stdpp Require Import list numbers option.
From L0 Require Import Types.
From Gen Require Import Tables.
From L1 Require Import Model Own Shape Stuck.
From L1b Require Import Measure Good Bound Explicit PropsLbound.

Lemma clb_own : own_conditions gen_tables.
Proof.
  split; cbn.
  - intros st e st' act H. destruct st, e; inversion H; subst; cbn; auto; split; congruence.
  - intros st e st' act H. destruct st, e; inversion H; subst; cbn; auto; split; congruence.
  - intros st st' act H. destruct st; inversion H; subst; split; congruence.
  - intros st ne st' p H. destruct st, ne; inversion H; subst; split; congruence.
  - intros st st' H. destruct st; inversion H; subst; split; congruence.
  - intros st st' H. destruct st; inversion H; subst; split; congruence.
  - intros e st' d H. destruct e; inversion H; subst; cbn; congruence.
Qed.
Lemma clb_bound : bound_conditions gen_tables.
Proof. split; cbn; [done|]. intros st st' d H. destruct st; inversion H; done. Qed.

Theorem L_bound_measure_decreases_now :
  forall nq mx scripts tr s a s',
    wf_scripts nq scripts -> run gen_tables gen_facts (init nq mx scripts) tr = Some s -> step gen_tables gen_facts s a = Some s' ->
    lex4 (mu s') (mu s).
Proof. exact (L_bound_measure_decreases gen_tables gen_facts clb_own clb_bound). Qed.

Theorem L_bound_no_infinite_run_now :
  forall nq mx scripts, wf_scripts nq scripts ->
    ~ exists f : nat -> nat, forall n, is_Some (run gen_tables gen_facts (init nq mx scripts) (f <$> seq 0 n)).
Proof. exact (L_bound_no_infinite_run gen_tables gen_facts clb_own clb_bound). Qed.

Theorem L_bound_no_cycle_now :
  forall nq mx scripts tr s tr', wf_scripts nq scripts -> run gen_tables gen_facts (init nq mx scripts) tr = Some s ->
    tr' <> [] -> run gen_tables gen_facts s tr' <> Some s.
Proof. exact (L_bound_no_cycle gen_tables gen_facts clb_own clb_bound). Qed.

Theorem L_bound_now :
  forall nq mx scripts tr s,
    wf_scripts nq scripts -> run gen_tables gen_facts (init nq mx scripts) tr = Some s -> length tr <= L1_bound mx scripts.
Proof. exact (L_bound gen_tables gen_facts clb_own clb_bound). Qed.

Print Assumptions L_bound_now.
Print Assumptions L_bound_measure_decreases_now.
Print Assumptions L_bound_no_infinite_run_now.
Print Assumptions L_bound_no_cycle_now.
