(* C15 - a panicked queue stays panicked and refuses everything.
   Every place where the code decides on or rewrites the queue state through a `match core.state` is a table generated
   from the source; this file proves, for EVERY family of tables that maps Panicked the way `panic_conditions` says, that no
   sequence of such events - in any order, from any thread, any number of times - leaves the Panicked state, and that every
   scheduling entry point answers with its Panic outcome.  (The only plain assignments to the state - `state = Idle`,
   `WaitingForWake`, `WaitingForPoll(id)` - are executed by a runner after its job returned normally; a runner that unwinds
   runs the ActiveQueue guard instead, whose presence on every runner is one of the facts checked in the instance file.) *)
From stdpp Require Import list numbers option.
From L0 Require Import Types.

Record qtables := {
  q_desync : qstate -> qstate * desyncact;
  q_sync : qstate -> bool -> qstate * syncact;
  q_sync_np : qstate -> bool -> qstate * syncact;
  q_trysync : qstate -> bool -> qstate * tryact;
  q_poll : nat -> qstate -> qstate * pollact;
  q_resched : qstate -> bool -> qstate * bool;
  q_next : qstate -> option qstate;
  q_claim : qstate -> option qstate;
  q_drain_pend : qstate -> qstate;
  q_drain_fin : qstate -> bool -> qstate * bool;
  q_roj_pend : qstate -> option qstate;
  q_wake_queue : qstate -> qstate * bool;
  q_wake_thread : qstate -> qstate;
}.

(* everything that can happen to the state word of one queue *)
Inductive qev :=
| EvDesync | EvSync (empty : bool) | EvSyncNoPanic (empty : bool) | EvTrySync (empty : bool) | EvPoll (me : nat)
| EvResched (nonempty : bool) | EvNext | EvClaim | EvDrainPend | EvDrainFin (empty : bool) | EvRojPend | EvWakeQueue | EvWakeThread.

Definition apply (T : qtables) (st : qstate) (ev : qev) : qstate :=
  match ev with
  | EvDesync => fst (T.(q_desync) st)
  | EvSync e => fst (T.(q_sync) st e)
  | EvSyncNoPanic e => fst (T.(q_sync_np) st e)
  | EvTrySync e => fst (T.(q_trysync) st e)
  | EvPoll me => fst (T.(q_poll) me st)
  | EvResched ne => fst (T.(q_resched) st ne)
  | EvNext => default st (T.(q_next) st)
  | EvClaim => default st (T.(q_claim) st)
  | EvDrainPend => T.(q_drain_pend) st
  | EvDrainFin e => fst (T.(q_drain_fin) st e)
  | EvRojPend => default st (T.(q_roj_pend) st)
  | EvWakeQueue => fst (T.(q_wake_queue) st)
  | EvWakeThread => T.(q_wake_thread) st
  end.

Record panic_conditions (T : qtables) : Prop := {
  pc_desync : T.(q_desync) Panicked = (Panicked, DAPanic);
  pc_sync : forall e, T.(q_sync) Panicked e = (Panicked, SAPanic);
  pc_sync_np : forall e, T.(q_sync_np) Panicked e = (Panicked, SAPanic);
  pc_trysync : forall e, T.(q_trysync) Panicked e = (Panicked, TAPanic);
  pc_poll : forall me, T.(q_poll) me Panicked = (Panicked, PAPanic);
  pc_resched : forall ne, T.(q_resched) Panicked ne = (Panicked, false);
  pc_next : T.(q_next) Panicked = None;
  pc_claim : T.(q_claim) Panicked = None;
  pc_drain_pend : T.(q_drain_pend) Panicked = Panicked;
  pc_drain_fin : forall e, fst (T.(q_drain_fin) Panicked e) = Panicked;
  pc_roj_pend : T.(q_roj_pend) Panicked = None;
  pc_wake_queue : fst (T.(q_wake_queue) Panicked) = Panicked;
  pc_wake_thread : T.(q_wake_thread) Panicked = Panicked;
  (* nothing but the guard produces Panicked: no table maps a healthy state to it *)
  pc_only_guard : forall st ev, st <> Panicked -> apply T st ev <> Panicked;
}.

Section Absorb.
  Context (T : qtables) (HC : panic_conditions T).

  Lemma apply_panicked ev : apply T Panicked ev = Panicked.
  Proof.
    destruct ev; cbn.
    - by rewrite (pc_desync _ HC).
    - by rewrite (pc_sync _ HC).
    - by rewrite (pc_sync_np _ HC).
    - by rewrite (pc_trysync _ HC).
    - by rewrite (pc_poll _ HC).
    - by rewrite (pc_resched _ HC).
    - by rewrite (pc_next _ HC).
    - by rewrite (pc_claim _ HC).
    - by rewrite (pc_drain_pend _ HC).
    - by rewrite (pc_drain_fin _ HC).
    - by rewrite (pc_roj_pend _ HC).
    - by rewrite (pc_wake_queue _ HC).
    - by rewrite (pc_wake_thread _ HC).
  Qed.

  (* absorbing: whatever happens afterwards, in whatever order and however often *)
  Theorem panicked_absorbing (evs : list qev) : foldl (apply T) Panicked evs = Panicked.
  Proof. induction evs as [|ev evs IH]; cbn; [done|]. by rewrite apply_panicked. Qed.

  (* every scheduling entry point fails loudly, no pool thread or waiter ever takes the queue again *)
  Theorem panicked_refuses :
    snd (T.(q_desync) Panicked) = DAPanic /\ (forall e, snd (T.(q_sync) Panicked e) = SAPanic) /\
    (forall e, snd (T.(q_trysync) Panicked e) = TAPanic) /\ (forall me, snd (T.(q_poll) me Panicked) = PAPanic) /\
    T.(q_next) Panicked = None /\ T.(q_claim) Panicked = None /\ (forall ne, snd (T.(q_resched) Panicked ne) = false).
  Proof.
    repeat split; intros.
    - by rewrite (pc_desync _ HC).
    - by rewrite (pc_sync _ HC).
    - by rewrite (pc_trysync _ HC).
    - by rewrite (pc_poll _ HC).
    - apply (pc_next _ HC).
    - apply (pc_claim _ HC).
    - by rewrite (pc_resched _ HC).
  Qed.

  (* a healthy queue is never marked panicked by anybody else's events: the damage stays with the object whose job panicked *)
  Theorem healthy_stays_healthy st (evs : list qev) : st <> Panicked -> foldl (apply T) st evs <> Panicked.
  Proof.
    revert st. induction evs as [|ev evs IH]; intros st Hst; cbn; [done|]. apply IH. by apply (pc_only_guard _ HC).
  Qed.
End Absorb.
