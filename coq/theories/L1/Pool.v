From stdpp Require Import list numbers option.
From RecordUpdate Require Import RecordUpdate.
From L1 Require Import Model Own Shape Stuck.


(* wake-ups change neither the pool nor the number of actors *)
Definition same_pool (s1 s : state) : Prop := threads s1 = threads s /\ maxt s1 = maxt s /\ length (actors s1) = length (actors s).
Lemma same_pool_upda s a f : same_pool (upda s a f) s.
Proof. unfold same_pool, upda; cbn. by rewrite alter_length. Qed.
Lemma same_pool_trans s1 s2 s3 : same_pool s1 s2 -> same_pool s2 s3 -> same_pool s1 s3.
Proof. unfold same_pool. intros (?&?&?) (?&?&?). repeat split; congruence. Qed.
Lemma same_pool_refl s : same_pool s s. Proof. done. Qed.
Lemma notify_pool F s w : same_pool (notify F s w) s.
Proof.
  unfold notify. set (s1 := if f_sticky_notify F then _ else s).
  assert (H1 : same_pool s1 s) by (subst s1; destruct (f_sticky_notify F); [apply same_pool_upda|apply same_pool_refl]).
  destruct (actors s1 !! w) as [aw|]; [|done]. destruct (stack aw) as [|[] ?]; try done.
  eapply same_pool_trans; [apply same_pool_upda|done].
Qed.
Lemma foldl_notify_pool F ws s : same_pool (foldl (notify F) s ws) s.
Proof.
  revert s; induction ws as [|w ws IH]; intros s; cbn; [done|].
  eapply same_pool_trans; [apply IH|apply notify_pool].
Qed.
Lemma run_job_pool F s j : same_pool (run_job F s j) s.
Proof.
  destruct j as [o|o c|o c]; unfold run_job.
  - done.
  - eapply same_pool_trans; [apply same_pool_upda|done].
  - set (s1 := upda _ _ _). assert (H1 : same_pool s1 s) by (subst s1; eapply same_pool_trans; [apply same_pool_upda|done]).
    destruct (actors s1 !! c) as [ac|]; [|exact H1]. destruct (stack ac) as [|[] ?]; try exact H1.
    eapply same_pool_trans; [apply same_pool_upda|exact H1].
Qed.

(* ---------- the pool never exceeds its maximum (C17), for arbitrary tables and facts ---------- *)
Section Pool.
  Context (T : tables) (F : facts).

  (* one step: the maximum is unchanged; the pool is unchanged in size or grows by one while below the maximum;
     every new pool thread comes with exactly one new actor *)
  Lemma step_threads s a s' : step T F s a = Some s' ->
    s'.(maxt) = s.(maxt) /\
    ((length s'.(threads) = length s.(threads) /\ length s'.(actors) = length s.(actors)) \/
     (length s.(threads) < s.(maxt) /\ length s'.(threads) = S (length s.(threads)) /\ length s'.(actors) = S (length s.(actors)))).
  Proof.
    intros Hstep. unfold step in Hstep.
    destruct (actors s !! a) as [ac|] eqn:Ea; cbn in Hstep; [|congruence].
    destruct (stack ac) as [|fr rest] eqn:Est; [congruence|].
    destruct fr.
    all: cbn beta iota zeta in Hstep.
    all: repeat (first
         [ match type of Hstep with
           | context [queues _ !! ?q] => let E := fresh "Eq" in destruct (queues s !! q) as [qq|] eqn:E; cbn in Hstep; [|congruence]
           | context [threads _ !! ?t] => let E := fresh "Et" in destruct (threads s !! t) as [th|] eqn:E; cbn in Hstep
           end
         | match type of Hstep with context [match ?x with _ => _ end] => let E := fresh "E" in destruct x eqn:E end; cbn in Hstep; try congruence ]).
    all: try discriminate.
    all: try (injection Hstep as <-).
    all: try (lazymatch goal with |- context [run_job ?F ?s ?j] => destruct (run_job_pool F s j) as (P1 & P2 & P3); revert P1 P2 P3; generalize (run_job F s j); intros s0 P1 P2 P3 end).
    all: try (lazymatch goal with |- context [foldl (notify ?F) ?s ?ws] => destruct (foldl_notify_pool F ws s) as (P1 & P2 & P3); revert P1 P2 P3; generalize (foldl (notify F) s ws); intros s0 P1 P2 P3 end).
    all: cbn.
    all: unfold setstack, upda, updq, updt; cbn.
    all: rewrite ?alter_length, ?app_length; cbn.
    all: try rewrite P1; try rewrite P2; try rewrite P3.
    all: try (split; [done|left; split; done]).
    all: try (split; [done|left; split; [done|lia]]).
    all: try (split; [done|right; repeat split; lia]).
  Qed.

  Definition pool_bounded (s : state) : Prop := length s.(threads) <= s.(maxt).

  Lemma step_pool_bounded s a s' : pool_bounded s -> step T F s a = Some s' -> pool_bounded s'.
  Proof. unfold pool_bounded. intros H Hs. destruct (step_threads _ _ _ Hs) as (Hm & [(Ht & _)|(Hlt & Ht & _)]); lia. Qed.

  Definition run' (s : state) (tr : list nat) : option state := foldl (fun os a => o ← os; step T F o a) (Some s) tr.

  Lemma run_threads s tr s' : run' s tr = Some s' ->
    s'.(maxt) = s.(maxt) /\ (pool_bounded s -> pool_bounded s') /\
    length s'.(actors) + length s.(threads) = length s.(actors) + length s'.(threads).
  Proof.
    unfold run'. revert s. induction tr as [|a tr IH]; intros s; cbn.
    - intros [= <-]. done.
    - destruct (step T F s a) as [s1|] eqn:E; cbn.
      + intros Hr. destruct (IH _ Hr) as (Hm & Hb & Hl). destruct (step_threads _ _ _ E) as (Hm1 & Hc).
        split; [congruence|]. split; [intros H0; apply Hb; by eapply step_pool_bounded|]. destruct Hc as [(?&?)|(?&?&?)]; lia.
      + intros Hr. exfalso. clear -Hr. induction tr as [|b tr IH]; cbn in Hr; [done|]. by apply IH.
  Qed.

  (* every reachable state of every program respects the maximum; with a maximum of zero there is no pool thread
     and no actor beyond the callers *)
  Theorem reachable_pool_bounded nq mx scripts tr s :
    run' (init nq mx scripts) tr = Some s ->
    length s.(threads) <= mx /\ s.(maxt) = mx /\ length s.(actors) = length scripts + length s.(threads).
  Proof.
    intros Hr. destruct (run_threads _ _ _ Hr) as (Hm & Hb & Hl). cbn in *.
    rewrite fmap_length in Hl. split; [|split; [done|lia]].
    rewrite <- Hm. apply Hb. unfold pool_bounded; cbn; lia.
  Qed.

  Corollary no_pool_without_maximum nq scripts tr s :
    run' (init nq 0 scripts) tr = Some s -> s.(threads) = [] /\ length s.(actors) = length scripts.
  Proof.
    intros Hr. destruct (reachable_pool_bounded _ _ _ _ _ Hr) as (H1 & _ & H2).
    destruct (threads s); cbn in *; [split; [done|lia]|lia].
  Qed.
End Pool.

Print Assumptions reachable_pool_bounded.
