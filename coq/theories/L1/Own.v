From stdpp Require Import list numbers option.
From RecordUpdate Require Import RecordUpdate.
From L1 Require Import Model.

(* ---------- which frames run a queue ---------- *)
Definition owns_b (q : nat) (fr : frame) : bool :=
  match fr with
  | FSIrun q' | FSIidle q' | FSDpush q' | FSDloop q' | FSDidle q' | FSBsteal q' | FSBstealidle q'
  | FTrelsome _ q' | FDRdeq q' | FDRrun q' _ | FDRfin q' => bool_decide (q' = q)
  | _ => false
  end.
Fixpoint cnt (q : nat) (st : list frame) : nat :=
  match st with [] => 0 | fr :: r => (if owns_b q fr then 1 else 0) + cnt q r end.
Definition stack_cnt (s : state) (b q : nat) : option nat := (fun ac => cnt q ac.(stack)) <$> (s.(actors) !! b).

(* ---------- conditions on the tables under which ownership is exclusive ---------- *)
Record own_conditions (T : tables) : Prop := {
  c_sync : forall st e st' act, T.(t_sync) st e = (st', act) ->
     match act with SAImmediate | SADrain => st <> Running /\ st' = Running | _ => st' = st end;
  c_try : forall st e st' act, T.(t_trysync) st e = (st', act) ->
     match act with TAImmediate => st <> Running /\ st' = Running | _ => st' = st end;
  c_desync : forall st st' act, T.(t_desync) st = (st', act) -> (st' = Running <-> st = Running);
  c_resched : forall st ne st' p, T.(t_resched) st ne = (st', p) -> (st' = Running <-> st = Running);
  c_next : forall st st', T.(t_next) st = Some st' -> st <> Running /\ st' = Running;
  c_claim : forall st st', T.(t_claim) st = Some st' -> st <> Running /\ st' = Running;
  c_fin : forall e st' d, T.(t_drain_fin) Running e = (st', d) -> if d then st' <> Running else st' = Running;
}.

Lemma fixed_tables_ok : own_conditions (fixed_trysync orig_tables).
Proof.
  split; cbn.
  - intros st e st' act H. destruct st, e; inversion H; subst; cbn; auto; split; congruence.
  - intros st e st' act H. destruct st, e; inversion H; subst; cbn; auto; split; congruence.
  - intros st st' act H. destruct st; inversion H; subst; split; congruence.
  - intros st ne st' p H. destruct st, ne; inversion H; subst; split; congruence.
  - intros st st' H. destruct st; inversion H; subst; split; congruence.
  - intros st st' H. destruct st; inversion H; subst; split; congruence.
  - intros e st' d H. destruct e; inversion H; subst; cbn; congruence.
Qed.

(* the unrepaired try_sync table does not meet them *)
Lemma orig_tables_not_ok : ~ own_conditions orig_tables.
Proof. intros [_ Htry _ _ _ _ _]. specialize (Htry Idle false Running TABusy eq_refl). cbn in Htry. congruence. Qed.

(* ---------- the invariant ---------- *)
Record Inv (s : state) : Prop := {
  inv_cnt : forall b q qq n, stack_cnt s b q = Some n -> s.(queues) !! q = Some qq ->
            n = if decide (qq.(owner) = Some b) then 1 else 0;
  inv_state : forall q qq, s.(queues) !! q = Some qq -> (is_Some qq.(owner) <-> qq.(qs) = Running);
  inv_valid : forall q qq b, s.(queues) !! q = Some qq -> qq.(owner) = Some b -> b < length s.(actors);
}.

(* ---------- how the basic updates act on the two observations ---------- *)
Lemma queues_updq s q f q' : (updq s q f).(queues) !! q' = if decide (q = q') then f <$> (s.(queues) !! q') else s.(queues) !! q'.
Proof. unfold updq; cbn. destruct (decide (q = q')) as [->|]; [by rewrite list_lookup_alter|by rewrite list_lookup_alter_ne]. Qed.
Lemma actors_updq s q f : (updq s q f).(actors) = s.(actors). Proof. done. Qed.
Lemma queues_upda s a f : (upda s a f).(queues) = s.(queues). Proof. done. Qed.
Lemma queues_updt s t f : (updt s t f).(queues) = s.(queues). Proof. done. Qed.
Lemma actors_updt s t f : (updt s t f).(actors) = s.(actors). Proof. done. Qed.
Lemma queues_setstack s a st : (setstack s a st).(queues) = s.(queues). Proof. done. Qed.

Lemma stack_cnt_updq s q f b q' : stack_cnt (updq s q f) b q' = stack_cnt s b q'. Proof. done. Qed.
Lemma stack_cnt_updt s t f b q' : stack_cnt (updt s t f) b q' = stack_cnt s b q'. Proof. done. Qed.
Lemma stack_cnt_upda s a f b q' : (forall x, (f x).(stack) = x.(stack)) -> stack_cnt (upda s a f) b q' = stack_cnt s b q'.
Proof.
  intros Hf. unfold stack_cnt, upda; cbn. destruct (decide (a = b)) as [->|].
  - rewrite list_lookup_alter. destruct (actors s !! b); cbn; [by rewrite Hf|done].
  - by rewrite list_lookup_alter_ne.
Qed.
Lemma stack_cnt_setstack s a st b q' :
  stack_cnt (setstack s a st) b q' = if decide (a = b) then (fun _ => cnt q' st) <$> (s.(actors) !! b) else stack_cnt s b q'.
Proof.
  unfold stack_cnt, setstack, upda; cbn. destruct (decide (a = b)) as [->|].
  - rewrite list_lookup_alter. by destruct (actors s !! b).
  - by rewrite list_lookup_alter_ne.
Qed.
Lemma length_actors_upda s a f : length (upda s a f).(actors) = length s.(actors).
Proof. unfold upda; cbn. by rewrite alter_length. Qed.
Lemma length_actors_setstack s a st : length (setstack s a st).(actors) = length s.(actors).
Proof. apply length_actors_upda. Qed.

(* ---------- notify / run_job only move a waiter between two non-owning frames ---------- *)
Lemma notify_obs F s w :
  (notify F s w).(queues) = s.(queues) /\ (forall b q, stack_cnt (notify F s w) b q = stack_cnt s b q)
  /\ length (notify F s w).(actors) = length s.(actors).
Proof.
  unfold notify.
  set (s1 := if f_sticky_notify F then upda s w (fun x => x <| kicked := true |>) else s).
  assert (H1 : s1.(queues) = s.(queues) /\ (forall b q, stack_cnt s1 b q = stack_cnt s b q) /\ length s1.(actors) = length s.(actors)).
  { subst s1. destruct (f_sticky_notify F); [|done]. split; [done|]. split; [|apply length_actors_upda].
    intros. by apply stack_cnt_upda. }
  destruct H1 as (Hq & Hc & Hl).
  destruct (actors s1 !! w) as [aw|] eqn:Ew; [|done].
  destruct (stack aw) as [|[] rest] eqn:Es; try done.
  split; [by rewrite queues_setstack|]. split; [|by rewrite length_actors_setstack].
  intros b q0. rewrite stack_cnt_setstack. destruct (decide (w = b)) as [->|]; [|done].
  rewrite <- Hc. unfold stack_cnt. rewrite Ew. cbn. by rewrite Es.
Qed.

Lemma foldl_notify_obs F ws s :
  (foldl (notify F) s ws).(queues) = s.(queues) /\ (forall b q, stack_cnt (foldl (notify F) s ws) b q = stack_cnt s b q)
  /\ length (foldl (notify F) s ws).(actors) = length s.(actors).
Proof.
  revert s; induction ws as [|w ws IH]; intros s; cbn; [done|].
  destruct (IH (notify F s w)) as (H1 & H2 & H3). destruct (notify_obs F s w) as (G1 & G2 & G3).
  split; [congruence|]. split; [|congruence]. intros; by rewrite H2, G2.
Qed.

Lemma run_job_obs F s j :
  (run_job F s j).(queues) = s.(queues) /\ (forall b q, stack_cnt (run_job F s j) b q = stack_cnt s b q)
  /\ length (run_job F s j).(actors) = length s.(actors).
Proof.
  destruct j as [o|o c|o c]; unfold run_job.
  - done.
  - split; [done|]. split; [|by rewrite length_actors_upda]. intros; by rewrite stack_cnt_upda.
  - set (s1 := upda _ c _).
    assert (H1 : s1.(queues) = s.(queues) /\ (forall b q, stack_cnt s1 b q = stack_cnt s b q) /\ length s1.(actors) = length s.(actors)).
    { subst s1. split; [done|]. split; [|by rewrite length_actors_upda]. intros; by rewrite stack_cnt_upda. }
    destruct H1 as (Hq & Hc & Hl).
    destruct (actors s1 !! c) as [ac|] eqn:Ec; [|done].
    destruct (stack ac) as [|[] rest] eqn:Es; try done.
    split; [by rewrite queues_setstack|]. split; [|by rewrite length_actors_setstack].
    intros b q0. rewrite stack_cnt_setstack. destruct (decide (c = b)) as [->|]; [|done].
    rewrite <- Hc. unfold stack_cnt. rewrite Ec. cbn. by rewrite Es.
Qed.

(* Inv only looks at three observations of the state *)
Definition obs_eq (s1 s : state) : Prop :=
  s1.(queues) = s.(queues) /\ (forall b q, stack_cnt s1 b q = stack_cnt s b q) /\ length s1.(actors) = length s.(actors).
Lemma Inv_obs s1 s : obs_eq s1 s -> Inv s -> Inv s1.
Proof.
  intros (Hq & Hc & Hl) [I1 I2 I3]. split.
  - intros b q qq n. rewrite Hc, Hq. apply I1.
  - intros q qq. rewrite Hq. apply I2.
  - intros q qq b. rewrite Hq, Hl. apply I3.
Qed.

Lemma inv_update s s' a oldc q g newst :
  Inv s ->
  (forall q', stack_cnt s a q' = Some (oldc q')) ->
  (forall q', s'.(queues) !! q' = if decide (q = q') then g <$> (s.(queues) !! q') else s.(queues) !! q') ->
  (forall b q', stack_cnt s' b q' = if decide (a = b) then Some (cnt q' newst) else stack_cnt s b q') ->
  length s.(actors) <= length s'.(actors) ->
  (forall q', q' <> q -> cnt q' newst = oldc q') ->
  (forall qq, s.(queues) !! q = Some qq ->
      (owner (g qq) = owner qq /\ (qs (g qq) = Running <-> qs qq = Running) /\ cnt q newst = oldc q)
      \/ (qs qq <> Running /\ owner (g qq) = Some a /\ qs (g qq) = Running /\ cnt q newst = S (oldc q))
      \/ (oldc q = S (cnt q newst) /\ owner (g qq) = None /\ qs (g qq) <> Running)) ->
  Inv s'.
Proof.
  intros [I1 I2 I3] Hold Hq Hc Hl Hother Hthis.
  assert (Ha : a < length s.(actors)).
  { specialize (Hold 0). unfold stack_cnt in Hold. destruct (actors s !! a) eqn:E; [|done]. by eapply lookup_lt_Some. }
  split.
  - intros b q' qq' n Hn Hqq. rewrite Hc in Hn. rewrite Hq in Hqq.
    destruct (decide (q = q')) as [<-|Hne].
    + destruct (queues s !! q) as [qq|] eqn:Eq; [|done]. cbn in Hqq. injection Hqq as <-.
      pose proof (fun b => I1 b q qq) as I1'. specialize (I2 q qq Eq).
      destruct (Hthis qq eq_refl) as [(Ho & Hs & Hn') | [(Hs & Ho & Hs' & Hn') | (Hn' & Ho & Hs')]].
      * rewrite Ho. destruct (decide (a = b)) as [<-|]; [|by apply (I1' b)].
        injection Hn as <-. rewrite Hn'. apply (I1' a); [apply Hold|done].
      * assert (Hnone : owner qq = None).
        { destruct (owner qq) eqn:E; [|done]. exfalso. apply Hs, I2. by eexists. }
        rewrite Ho. destruct (decide (a = b)) as [<-|Hab].
        -- injection Hn as <-. rewrite Hn'. rewrite (I1' a (oldc q) (Hold q) Eq). rewrite Hnone.
           repeat case_decide; congruence.
        -- rewrite (I1' b n Hn Eq). rewrite Hnone. repeat case_decide; congruence.
      * rewrite Ho. pose proof (I1' a (oldc q) (Hold q) Eq) as Hown.
        destruct (decide (owner qq = Some a)) as [Hoa|]; [|lia].
        destruct (decide (a = b)) as [<-|Hab].
        -- injection Hn as <-. repeat case_decide; try congruence; lia.
        -- rewrite (I1' b n Hn Eq). repeat case_decide; congruence.
    + destruct (decide (a = b)) as [<-|]; [|by eapply (I1 b q')].
      injection Hn as <-. rewrite (Hother q') by congruence. exact (I1 a q' qq' (oldc q') (Hold q') Hqq).
  - intros q' qq' Hqq. rewrite Hq in Hqq. destruct (decide (q = q')) as [<-|]; [|exact (I2 q' qq' Hqq)].
    destruct (queues s !! q) as [qq|] eqn:Eq; [|done]. cbn in Hqq. injection Hqq as <-.
    specialize (I2 q qq Eq).
    destruct (Hthis qq eq_refl) as [(Ho & Hs & Hn') | [(Hs & Ho & Hs' & Hn') | (Hn' & Ho & Hs')]].
    + rewrite Ho, Hs. done.
    + rewrite Ho, Hs'. split; [done|by eexists].
    + rewrite Ho. split; [by intros [? ?]|done].
  - intros q' qq' b Hqq Ho. rewrite Hq in Hqq. destruct (decide (q = q')) as [<-|].
    + destruct (queues s !! q) as [qq|] eqn:Eq; [|done]. cbn in Hqq. injection Hqq as <-.
      destruct (Hthis qq eq_refl) as [(Ho' & _) | [(_ & Ho' & _) | (_ & Ho' & _)]].
      * rewrite Ho' in Ho. specialize (I3 q qq b Eq Ho). lia.
      * rewrite Ho' in Ho. injection Ho as <-. lia.
      * congruence.
    + specialize (I3 q' qq' b Hqq Ho). lia.
Qed.

Lemma inv_update_noq s s' a oldc newst :
  Inv s ->
  (forall q', stack_cnt s a q' = Some (oldc q')) ->
  s'.(queues) = s.(queues) ->
  (forall b q', stack_cnt s' b q' = if decide (a = b) then Some (cnt q' newst) else stack_cnt s b q') ->
  length s.(actors) <= length s'.(actors) ->
  (forall q', cnt q' newst = oldc q') ->
  Inv s'.
Proof.
  intros HI Hold Hq Hc Hl Hsame.
  apply (inv_update s s' a oldc 0 id newst HI Hold); [ | exact Hc | exact Hl | intros; apply Hsame | ].
  - intros q'. rewrite Hq. case_decide; [|done]. by destruct (queues s !! q').
  - intros qq _. left. split; [done|]. split; [done|]. apply Hsame.
Qed.

(* stack_cnt of the stepping actor *)
Lemma stack_cnt_self s a ac q' : s.(actors) !! a = Some ac -> stack_cnt s a q' = Some (cnt q' ac.(stack)).
Proof. unfold stack_cnt. by intros ->. Qed.

Lemma is_Some_actors_upda s c f a : is_Some (s.(actors) !! a) -> is_Some ((upda s c f).(actors) !! a).
Proof. unfold upda; cbn. intros [x Hx]. destruct (decide (c = a)) as [->|]; [rewrite list_lookup_alter, Hx; by eexists|rewrite list_lookup_alter_ne by done; by eexists]. Qed.
Lemma stack_cnt_setstack' s a st b q' : is_Some (s.(actors) !! a) ->
  stack_cnt (setstack s a st) b q' = if decide (a = b) then Some (cnt q' st) else stack_cnt s b q'.
Proof. intros [x Hx]. rewrite stack_cnt_setstack. case_decide; [subst; by rewrite Hx|done]. Qed.

Ltac some_actor Ea := first [ by (eexists; exact Ea) | by (apply is_Some_actors_upda; eexists; exact Ea) | by (repeat apply is_Some_actors_upda; eexists; exact Ea) ].
Ltac obs_q := intros; rewrite ?queues_setstack, ?queues_upda, ?queues_updt, ?queues_updq; try done.
Ltac obs_c Ea := intros; rewrite stack_cnt_setstack' by some_actor Ea;
                 rewrite ?stack_cnt_updq, ?stack_cnt_updt; rewrite ?stack_cnt_upda by done; try done.
Ltac obs_len := rewrite ?length_actors_setstack, ?length_actors_upda; cbn; rewrite ?length_actors_upda; try done; try lia.
Ltac cnt_same := intros; cbn [cnt owns_b]; repeat case_bool_decide; subst; try done; try lia.

Ltac noq HI Hold Ea := eapply inv_update_noq; [exact HI | exact Hold | obs_q | obs_c Ea | obs_len | cnt_same].

Ltac obs_q2 := intros; rewrite ?queues_setstack, ?queues_upda, ?queues_updt; rewrite ?queues_updq; cbn [queues];
                repeat case_decide; subst; try done;
                match goal with |- context [queues ?s !! ?q] => destruct (queues s !! q); done end.
Ltac cnt_other := intros; cbn [cnt owns_b]; repeat case_bool_decide; subst; try done; try lia.
(* the three ways a step can treat the queue it touches *)
Ltac same_qq H := try (match goal with E : queues _ !! _ = Some _ |- _ => rewrite E in H; injection H as <- end).
Ltac this_keep Eq := let qq0 := fresh "qq" in let H := fresh in intros qq0 H; same_qq H; left; cbn;
                     split; [done|]; split; [try done|cnt_other].
Ltac withq HI Hold Ea q g := eapply (inv_update _ _ _ _ q g); [exact HI | exact Hold | obs_q2 | obs_c Ea | obs_len | cnt_other | ].

Lemma Inv_add_actor s s1 new :
  s1.(queues) = s.(queues) -> s1.(actors) = s.(actors) ++ [new] -> (forall q, cnt q new.(stack) = 0) -> Inv s -> Inv s1.
Proof.
  intros Hq Ha Hz [I1 I2 I3]. split.
  - intros b q qq n Hn Hqq. rewrite Hq in Hqq. unfold stack_cnt in Hn. rewrite Ha in Hn.
    destruct (decide (b < length (actors s))) as [Hlt|Hge].
    + rewrite lookup_app_l in Hn by done. by eapply I1.
    + rewrite lookup_app_r in Hn by lia. destruct (b - length (actors s)) eqn:Eb; [|done]. cbn in Hn. injection Hn as <-.
      rewrite Hz. case_decide as Ho; [|done]. specialize (I3 q qq b Hqq Ho). lia.
  - intros q qq. rewrite Hq. apply I2.
  - intros q qq b Hqq Ho. rewrite Hq in Hqq. rewrite Ha, app_length. specialize (I3 q qq b Hqq Ho). lia.
Qed.

Ltac this_acquire Eq := let qq0 := fresh "qq" in let H := fresh in intros qq0 H; same_qq H; right; left; cbn.
Ltac this_release Eq := let qq0 := fresh "qq" in let H := fresh in intros qq0 H; same_qq H; right; right; cbn.

Lemma runner_owns s a q qq n : Inv s -> stack_cnt s a q = Some (S n) -> s.(queues) !! q = Some qq ->
  qq.(owner) = Some a /\ qq.(qs) = Running.
Proof.
  intros [I1 I2 _] Hc Hq. pose proof (I1 a q qq _ Hc Hq) as H. case_decide as Ho; [|lia].
  split; [done|]. apply (I2 q qq Hq). by eexists.
Qed.
Lemma actor_of_cnt s a q n : stack_cnt s a q = Some n -> exists ac, s.(actors) !! a = Some ac.
Proof. unfold stack_cnt. destruct (actors s !! a); [by eexists|done]. Qed.


Section Preservation.
  Context (T : tables) (F : facts) (HT : own_conditions T).

  Lemma step_inv s a s' : Inv s -> step T F s a = Some s' -> Inv s'.
  Proof.
    intros HI Hstep. unfold step in Hstep.
    destruct (actors s !! a) as [ac|] eqn:Ea; cbn in Hstep; [|congruence].
    destruct (stack ac) as [|fr rest] eqn:Est; [congruence|].
    pose proof (fun q' => stack_cnt_self s a ac q' Ea) as Hold. rewrite Est in Hold.
    assert (Halt : a < length (actors s)) by (by eapply lookup_lt_Some).
    destruct fr.
    all: cbn beta iota zeta in Hstep.
    all: repeat (first
         [ match type of Hstep with
           | context [queues _ !! ?q] => let E := fresh "Eq" in destruct (queues s !! q) as [qq|] eqn:E; cbn in Hstep; [|congruence]
           | context [threads _ !! ?t] => let E := fresh "Et" in destruct (threads s !! t) as [th|] eqn:E; cbn in Hstep
           end
         | match type of Hstep with context [match ?x with _ => _ end] => let E := fresh "E" in destruct x eqn:E end; cbn in Hstep; try congruence ]).
    all: try (injection Hstep as <-).
    all: try (noq HI Hold Ea; fail).
    (* FD1: push a job, state per the desync table *)
    1-3: (withq HI Hold Ea q (fun x : queue => x <| jobs := jobs x ++ [JPlain (opctr ac)] |> <| qs := q0 |>);
          this_keep Eq; destruct HT as [_ _ Hd _ _ _ _]; eapply Hd; eassumption).
    (* FSTspawn: a new pool actor with a non-running stack *)
    1: { set (s1 := s <| threads := _ |> <| actors := _ |>).
         assert (HI1 : Inv s1) by (eapply (Inv_add_actor s s1); [done|done| |exact HI]; done).
         assert (Ea1 : actors s1 !! a = Some ac) by (subst s1; cbn; by rewrite lookup_app_l).
         assert (Hold1 : forall q', stack_cnt s1 a q' = Some (cnt q' (FSTspawn :: rest))) by (intros; unfold stack_cnt; rewrite Ea1; cbn; by rewrite Est).
         noq HI1 Hold1 Ea1. }
    (* FS1: the sync decision *)
    1-2: (withq HI Hold Ea q (fun x : queue => x <| qs := q0 |> <| owner := Some a |>);
          this_acquire Eq; destruct HT as [Hs _ _ _ _ _ _]; specialize (Hs _ _ _ _ E); cbn in Hs; destruct Hs as [? ->];
          repeat split; try done; cnt_other).
    1-2: (withq HI Hold Ea q (fun x : queue => x <| qs := q0 |>);
          this_keep Eq; destruct HT as [Hs _ _ _ _ _ _]; specialize (Hs _ _ _ _ E); cbn in Hs; by rewrite Hs).
    (* releases by a foreground runner *)
    all: try (lazymatch goal with
              | Est : stack _ = FSIidle ?q :: _ |- _ => idtac | Est : stack _ = FSDidle ?q :: _ |- _ => idtac
              | Est : stack _ = FSBstealidle ?q :: _ |- _ => idtac end;
              withq HI Hold Ea q (fun x : queue => x <| qs := Idle |> <| owner := None |>);
              this_release Eq; repeat split; try done; cnt_other; fail).
    (* pushes and pops that leave state and owner alone *)
    all: try (lazymatch goal with
              | Est : stack _ = FSDpush ?q :: _ |- _ => withq HI Hold Ea q (fun x : queue => x <| jobs := jobs x ++ [JSyncDrain (opctr ac) a] |>)
              | Est : stack _ = FSBreg ?q :: _ |- _ => withq HI Hold Ea q (fun x : queue => x <| wake_blocked := wake_blocked x ++ [a] |>)
              | Est : stack _ = FSBdone ?q :: _ |- _ => withq HI Hold Ea q (fun x : queue => x <| wake_blocked := filter (fun w => w <> a) (wake_blocked x) |>)
              | Est : stack _ = FROdeq ?q :: _, E : jobs _ = _ :: ?l |- _ => withq HI Hold Ea q (fun x : queue => x <| jobs := l |>)
              | Est : stack _ = FDRdeq ?q :: _, E : jobs _ = _ :: ?l |- _ => withq HI Hold Ea q (fun x : queue => x <| jobs := l |>)
              end; this_keep Eq; fail).
    (* FSBpush *)
    all: try (lazymatch goal with Est : stack _ = FSBpush ?q :: _ |- _ =>
               withq HI Hold Ea q (fun x : queue => x <| jobs := jobs x ++ [JSyncBg (opctr ac) a] |>) end; this_keep Eq; fail).
    (* FTS1: try_sync decision *)
    all: try (lazymatch goal with Est : stack _ = FTS1 ?q :: _, E : t_trysync _ _ _ = (?q0, TAImmediate) |- _ =>
               withq HI Hold Ea q (fun x : queue => x <| qs := q0 |> <| owner := Some a |>);
               this_acquire Eq; destruct HT as [_ Ht _ _ _ _ _]; specialize (Ht _ _ _ _ E); cbn in Ht; destruct Ht as [? ->];
               repeat split; try done; cnt_other end; fail).
    all: try (lazymatch goal with Est : stack _ = FTS1 ?q :: _, E : t_trysync _ _ _ = (?q0, _) |- _ =>
               withq HI Hold Ea q (fun x : queue => x <| qs := q0 |>);
               this_keep Eq; destruct HT as [_ Ht _ _ _ _ _]; specialize (Ht _ _ _ _ E); cbn in Ht; by rewrite Ht end; fail).
    (* run_job: only another actor's waiting frame moves *)
    all: try (lazymatch goal with |- Inv (setstack (run_job ?F ?s ?j) _ _) =>
               destruct (run_job_obs F s j) as (Hq1 & Hc1 & Hl1);
               assert (HI1 : Inv (run_job F s j)) by (apply (Inv_obs _ s); [by repeat split|exact HI]);
               assert (Hold1 := fun q' => eq_trans (Hc1 a q') (Hold q'));
               destruct (actor_of_cnt _ _ _ _ (Hold1 0)) as [ac1 Ea1];
               noq HI1 Hold1 Ea1 end; fail).
    all: try discriminate.
    (* FSBclaim: a waiter steals a claimable queue *)
    all: try (lazymatch goal with Est : stack _ = FSBclaim ?q :: _, E : t_claim _ _ = Some ?q0 |- _ =>
               withq HI Hold Ea q (fun x : queue => x <| qs := q0 |> <| owner := Some a |>);
               this_acquire Eq; destruct HT as [_ _ _ _ _ Hc _]; specialize (Hc _ _ E); destruct Hc as [? ->];
               repeat split; try done; cnt_other end; fail).
    (* FTexam: a pool thread holding the schedule lock takes the first takeable queue *)
    all: try (lazymatch goal with Est : stack _ = FTexam _ :: _, E : t_next _ _ = Some ?q0, Eq : queues _ !! ?n = Some _ |- _ =>
               withq HI Hold Ea n (fun x : queue => x <| qs := q0 |> <| owner := Some a |>);
               this_acquire Eq; destruct HT as [_ _ _ _ Hn _ _]; specialize (Hn _ _ E); destruct Hn as [? ->];
               repeat split; try done; cnt_other end; fail).
    (* FRQ1: reschedule_queue notifies the waiters and applies its table *)
    all: try (lazymatch goal with |- Inv (setstack (updq (foldl (notify ?F) ?s ?ws) ?q _) _ _) =>
               destruct (foldl_notify_obs F ws s) as (Hq1 & Hc1 & Hl1);
               assert (HI1 : Inv (foldl (notify F) s ws)) by (apply (Inv_obs _ s); [by repeat split|exact HI]);
               assert (Hold1 := fun q' => eq_trans (Hc1 a q') (Hold q'));
               destruct (actor_of_cnt _ _ _ _ (Hold1 0)) as [ac1 Ea1];
               assert (Eq1 : queues (foldl (notify F) s ws) !! q = Some qq) by (by rewrite Hq1);
               withq HI1 Hold1 Ea1 q (fun x : queue => x <| qs := q0 |>);
               this_keep Eq1; destruct HT as [_ _ _ Hr _ _ _]; eapply Hr; eassumption end; fail).
    (* FDRfin: the pool runner's final check; it is the owner, so the state is Running *)
    all: (assert (Hrun : owner qq = Some a /\ qs qq = Running)
            by (eapply (runner_owns s a q qq); [exact HI| |exact Eq]; rewrite Hold; cbn [cnt owns_b]; rewrite bool_decide_true by done; done);
          destruct Hrun as [Hown Hrun]; rewrite Hrun in E; destruct HT as [_ _ _ _ _ _ Hf]; specialize (Hf _ _ _ E); cbn in Hf).
    - withq HI Hold Ea q (fun x : queue => x <| qs := q0 |> <| owner := None |>).
      this_release Eq. repeat split; try done; cnt_other.
    - withq HI Hold Ea q (fun x : queue => x <| qs := q0 |>).
      this_keep Eq; by rewrite Hf, Hrun.
  Qed.

  Theorem reachable_inv cfg_nq cfg_max scripts tr s :
    foldl (fun os a => o ← os; step T F o a) (Some (init cfg_nq cfg_max scripts)) tr = Some s -> Inv s.
  Proof.
    assert (H0 : Inv (init cfg_nq cfg_max scripts)).
    { split.
      - intros b q qq n Hn Hq. unfold init in *; cbn in *. apply lookup_replicate in Hq as [-> _]. cbn.
        unfold stack_cnt in Hn; cbn in Hn. rewrite list_lookup_fmap in Hn. destruct (scripts !! b); cbn in Hn; [|done].
        injection Hn as <-. done.
      - intros q qq Hq. unfold init in *; cbn in *. apply lookup_replicate in Hq as [-> _]. cbn. split; [by intros [? ?]|done].
      - intros q qq b Hq Ho. unfold init in *; cbn in *. apply lookup_replicate in Hq as [-> _]. done. }
    revert H0. generalize (init cfg_nq cfg_max scripts). induction tr as [|a tr IH]; intros s0 H0; cbn.
    - by intros [= <-].
    - destruct (step T F s0 a) as [s1|] eqn:E; cbn.
      + apply IH. by eapply step_inv.
      + clear. induction tr; cbn; [done|]. done.
  Qed.

  (* mutual exclusion: two different actors are never both inside a runner frame of the same queue *)
  Corollary exclusive cfg_nq cfg_max scripts tr s a b q na nb qq :
    foldl (fun os a => o ← os; step T F o a) (Some (init cfg_nq cfg_max scripts)) tr = Some s ->
    s.(queues) !! q = Some qq ->
    stack_cnt s a q = Some (S na) -> stack_cnt s b q = Some (S nb) -> a = b.
  Proof.
    intros Hr Hq Ha Hb. apply reachable_inv in Hr.
    destruct (runner_owns s a q qq na Hr Ha Hq) as [Hoa _]. destruct (runner_owns s b q qq nb Hr Hb Hq) as [Hob _]. congruence.
  Qed.
End Preservation.

Print Assumptions exclusive.

