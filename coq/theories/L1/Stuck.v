From stdpp Require Import list numbers option.
From RecordUpdate Require Import RecordUpdate.
From L1 Require Import Model Shape.

(* ---------- every queue id mentioned by a frame or a script exists ---------- *)
Definition op_q (o : op) : nat := match o with ODesync q | OSync q | OTrySync q => q end.
Definition frame_ok (n : nat) (fr : frame) : bool :=
  match fr with
  | FTop os => forallb (fun o => bool_decide (op_q o < n)) os
  | FD1 q | FD2 q | FS1 q | FSIrun q | FSIidle q | FSDpush q | FSDloop q | FSDidle q
  | FSBreg q | FSBpush q | FSBcheck q | FSBwait q | FSBwoken q | FSBclaim q | FSBsteal q | FSBstealidle q | FSBdone q
  | FROdeq q | FROrun q _ | FTS1 q | FRQ1 q | FRQ2 q | FTrelsome _ q | FDRdeq q | FDRrun q _ | FDRfin q => bool_decide (q < n)
  | _ => true
  end.
Definition WF (s : state) : Prop :=
  forall a st, stacks s !! a = Some st -> forallb (frame_ok (length s.(queues))) st = true.

Lemma WF_view s1 s : stacks s1 = stacks s -> length s1.(queues) = length s.(queues) -> WF s -> WF s1.
Proof. intros Hst Hl H a st. rewrite Hst, Hl. apply H. Qed.

Lemma WF_update s s' a newst :
  WF s -> stacks s' = <[a := newst]> (stacks s) -> length s'.(queues) = length s.(queues) ->
  forallb (frame_ok (length s.(queues))) newst = true -> WF s'.
Proof.
  intros H Hst Hl Hnew b st. rewrite Hst, Hl. intros [(-> & <- & _)|(_ & Hb)]%list_lookup_insert_Some; [done|by apply (H b)].
Qed.

(* waking a waiter replaces FSBwait q by FSBwoken q *)
Lemma WF_wake s w ac q rest : WF s -> s.(actors) !! w = Some ac -> ac.(stack) = FSBwait q :: rest -> WF (setstack s w (FSBwoken q :: rest)).
Proof.
  intros H Ew Est. eapply WF_update; [done|apply stacks_setstack|done|].
  specialize (H w (FSBwait q :: rest)). rewrite stacks_lookup, Ew in H. cbn in H. rewrite Est in H. by apply H.
Qed.
Lemma WF_kick s w (f : actor -> actor) : (forall x, (f x).(stack) = x.(stack)) -> WF s -> WF (upda s w f).
Proof. intros Hf. apply WF_view; [by apply stacks_upda_same|done]. Qed.
Lemma WF_notify F s w : WF s -> WF (notify F s w).
Proof.
  intros HS. unfold notify.
  set (s1 := if f_sticky_notify F then upda s w (fun x => x <| kicked := true |>) else s).
  assert (HS1 : WF s1) by (subst s1; destruct (f_sticky_notify F); [by apply WF_kick|done]).
  destruct (actors s1 !! w) as [aw|] eqn:Ew; [|done].
  destruct (stack aw) as [|[] rest] eqn:Es; try done.
  by eapply WF_wake.
Qed.
Lemma WF_foldl_notify F ws s : WF s -> WF (foldl (notify F) s ws).
Proof. revert s; induction ws as [|w ws IH]; intros s HS; cbn; [done|]. apply IH. by apply WF_notify. Qed.
Lemma WF_run_job F s j : WF s -> WF (run_job F s j).
Proof.
  intros HS. destruct j as [o|o c|o c]; unfold run_job.
  - by apply (WF_view _ s).
  - apply WF_kick; [done|]. by apply (WF_view _ s).
  - set (s1 := upda _ c _).
    assert (HS1 : WF s1) by (subst s1; apply WF_kick; [done|]; by apply (WF_view _ s)).
    destruct (actors s1 !! c) as [ac|] eqn:Ec; [|done].
    destruct (stack ac) as [|[] rest] eqn:Es; try done.
    by eapply WF_wake.
Qed.

Lemma WF_self s a ac : WF s -> s.(actors) !! a = Some ac -> forallb (frame_ok (length s.(queues))) ac.(stack) = true.
Proof. intros H Ea. apply (H a). by rewrite stacks_lookup, Ea. Qed.

Ltac wf_new Hfr Hrest Hos :=
  cbn; rewrite ?Hrest, ?Hfr, ?Hos, ?andb_true_r; cbn; try done;
  repeat (apply andb_true_iff; split); try done; try (apply bool_decide_eq_true; done).

Section WFStep.
  Context (T : tables) (F : facts).

  Lemma step_wf s a s' : WF s -> step T F s a = Some s' -> WF s'.
  Proof.
    intros HW Hstep. unfold step in Hstep.
    destruct (actors s !! a) as [ac|] eqn:Ea; cbn in Hstep; [|congruence].
    destruct (stack ac) as [|fr rest] eqn:Est; [congruence|].
    pose proof (WF_self s a ac HW Ea) as Hold. rewrite Est in Hold. cbn in Hold.
    apply andb_true_iff in Hold as [Hfr Hrest].
    destruct fr.
    all: cbn beta iota zeta in Hstep.
    all: repeat (first
         [ match type of Hstep with
           | context [queues _ !! ?q] => let E := fresh "Eq" in destruct (queues s !! q) as [qq|] eqn:E; cbn in Hstep; [|congruence]
           | context [threads _ !! ?t] => let E := fresh "Et" in destruct (threads s !! t) as [th|] eqn:E; cbn in Hstep
           end
         | match type of Hstep with context [match ?x with _ => _ end] => let E := fresh "E" in destruct x eqn:E end; cbn in Hstep; try congruence ]).
    all: try discriminate.
    all: try (injection Hstep as <-).
    all: cbn in Hfr; try (apply andb_true_iff in Hfr as [Hop Hos]).
    all: try (eapply (WF_update s _ a _ HW); [ ob_stacks | cbn; rewrite ?alter_length; done | wf_new Hfr Hrest Hos ]; fail).
    (* FSTspawn: a new actor with the stack [FTrecv t] *)
    1: { set (s1 := s <| threads := _ |> <| actors := _ |>).
         assert (HW1 : WF s1).
         { intros b st Hb. subst s1. unfold stacks in Hb; cbn in Hb. rewrite fmap_app in Hb. apply lookup_app_Some in Hb as [Hb|[_ Hb]].
           - by apply (HW b).
           - cbn in Hb. destruct (b - _); [|done]. by injection Hb as <-. }
         eapply (WF_update s1 _ a _ HW1); [ ob_stacks | done | wf_new Hfr Hrest Hos ]. }
    (* run_job / notify first *)
    all: try (lazymatch goal with |- WF (setstack (run_job ?F ?s ?j) ?a ?st) =>
              assert (HW1 : WF (run_job F s j)) by (by apply WF_run_job);
              destruct (run_job_frame F s j) as (A & R & Hfr2); rewrite Hfr2 in *;
              eapply (WF_update _ _ a _ HW1); [ ob_stacks | done | wf_new Hfr Hrest Hos ] end; fail).
    all: try (lazymatch goal with |- WF (setstack (updq (foldl (notify ?F) ?s ?ws) _ _) ?a ?st) =>
              assert (HW1 : WF (foldl (notify F) s ws)) by (by apply WF_foldl_notify);
              destruct (foldl_notify_frame F ws s) as (A & Hfr2); rewrite Hfr2 in *;
              eapply (WF_update _ _ a _ HW1); [ ob_stacks | cbn; rewrite ?alter_length; done | wf_new Hfr Hrest Hos ] end; fail).
    (* FTexam takes a queue that exists *)
    apply lookup_lt_Some in E1. eapply (WF_update s _ a _ HW); [ ob_stacks | cbn; rewrite ?alter_length; done | wf_new Hfr Hrest Hos ].
  Qed.

  Definition wf_scripts (nq : nat) (scripts : list (list op)) : Prop :=
    Forall (fun sc => forallb (fun o => bool_decide (op_q o < nq)) sc = true) scripts.

  Lemma init_wf nq mx scripts : wf_scripts nq scripts -> WF (init nq mx scripts).
  Proof.
    intros Hs a st Ha. unfold init, stacks in *; cbn in *. rewrite replicate_length.
    rewrite <- list_fmap_compose in Ha. rewrite list_lookup_fmap in Ha. destruct (scripts !! a) as [sc|] eqn:E; [|done].
    injection Ha as <-. cbn. rewrite andb_true_r. eapply Forall_lookup_1 in Hs; [|done]. done.
  Qed.
End WFStep.


(* ---------- where can an actor be stuck? ---------- *)
Definition stuck_ok (s : state) (st : list frame) : Prop :=
  match st with
  | [FTop []] => True
  | FSBwait _ :: _ => True
  | [FTrecv t] => exists th, s.(threads) !! t = Some th /\ th.(chan) = 0
  | _ => False
  end.

Section Stuck.
  Context (T : tables) (F : facts).
  Definition terminal (s : state) : Prop := forall a, step T F s a = None.

  Lemma terminal_sched_free s : Shape s -> terminal s -> s.(sched_held) = None.
  Proof.
    intros [L Ta Ca Po He Sh Th] Hterm. destruct (sched_held s) as [h|] eqn:E; [|done]. exfalso.
    destruct (proj1 (Sh h) eq_refl) as (ac & t & Ea & Est). specialize (Hterm h). unfold step in Hterm. rewrite Ea in Hterm. cbn in Hterm.
    rewrite Est in Hterm. cbn in Hterm. rewrite E in Hterm. cbn in Hterm. rewrite bool_decide_true in Hterm by done. cbn in Hterm.
    destruct (sched s) as [|q sc]; [done|]. destruct (queues s !! q) as [qq|]; [|done]. by destruct (t_next T (qs qq)).
  Qed.

  Lemma terminal_threads_free s : Shape s -> terminal s -> s.(threads_held) = None.
  Proof.
    intros HS Hterm. pose proof (terminal_sched_free s HS Hterm) as Hsf. pose proof HS as [L Ta Ca Po He Sh Th].
    destruct (threads_held s) as [h|] eqn:E; [|done]. exfalso.
    destruct (proj1 (Th h) eq_refl) as (ac & i & rest & Ea & Est). pose proof (Hterm h) as Hh. unfold step in Hh. rewrite Ea in Hh. cbn in Hh.
    rewrite Est in Hh. cbn in Hh. rewrite E in Hh. cbn in Hh. rewrite bool_decide_true in Hh by done. cbn in Hh.
    destruct (threads s !! i) as [th|] eqn:Et; [|done].
    destruct (held th) eqn:Eh; [|by destruct (busy th)].
    (* thread i holds its busy lock: its actor is in the hand-over frames and can move *)
    assert (Hi : ncallers s + i < length (actors s)) by (apply lookup_lt_Some in Et; unfold ncallers; lia).
    destruct (lookup_lt_is_Some_2 _ _ Hi) as [ap Eap].
    specialize (He i th ap Et Eap). rewrite Eh in He. specialize (Hterm (ncallers s + i)). unfold step in Hterm. rewrite Eap in Hterm. cbn in Hterm.
    destruct (stack ap) as [|[] [|]] eqn:Esp; try done; cbn in Hterm.
    - rewrite Hsf in Hterm. done.
    - assert (sched_held s = Some (ncallers s + i)) by (apply Sh; eauto). congruence.
  Qed.

  Lemma queue_exists s q : q < length s.(queues) -> exists qq, s.(queues) !! q = Some qq.
  Proof. intros H. by apply lookup_lt_is_Some_2. Qed.

  Theorem stuck_frames s : Shape s -> WF s -> terminal s ->
    forall a ac, s.(actors) !! a = Some ac -> stuck_ok s ac.(stack).
  Proof.
    intros HS HW Hterm a ac Ea.
    pose proof (terminal_sched_free s HS Hterm) as Hsf. pose proof (terminal_threads_free s HS Hterm) as Htf.
    pose proof (WF_self s a ac HW Ea) as Hwf.
    pose proof (kind_of s a ac HS Ea) as Hkind. pose proof HS as [L Ta Ca Po He Sh Th].
    specialize (Hterm a). unfold step in Hterm. rewrite Ea in Hterm. cbn in Hterm.
    destruct (stack ac) as [|fr rest] eqn:Est.
    { destruct Hkind as [[_ H]|(t & _ & H)]; done. }
    cbn in Hwf. apply andb_true_iff in Hwf as [Hfr Hrest].
    destruct Hkind as [[Hlt Hok]|(t0 & Hat & Hok)].
    - (* a caller *)
      apply caller_ok_inv in Hok as [(-> & Htop)|[(os & -> & Hsf')|(g & os & -> & Hpo)]].
      + destruct fr; try done. destruct script as [|o os]; [done|]. by destruct o.
      + destruct fr; try done; cbn in Hfr; try (apply bool_decide_eq_true in Hfr; destruct (queue_exists s _ Hfr) as [qq Eq]);
          cbn in Hterm; rewrite ?Eq, ?Hsf, ?Htf in Hterm; cbn in Hterm.
        all: try done.
        all: try (exfalso; repeat (match type of Hterm with context [match ?x with _ => _ end] => destruct x end; try done); fail).
        (* a scan frame without the threads lock cannot exist *)
        all: try (assert (threads_held s = Some a) by (apply Th; eauto); congruence).
      + destruct fr; try done; destruct g; try done; cbn in Hfr; try (apply bool_decide_eq_true in Hfr; destruct (queue_exists s _ Hfr) as [qq Eq]);
          cbn in Hterm; rewrite ?Eq, ?Hsf, ?Htf in Hterm; cbn in Hterm.
        all: try done.
        all: try (exfalso; repeat (match type of Hterm with context [match ?x with _ => _ end] => destruct x end; try done); fail).
        all: try (assert (threads_held s = Some a) by (apply Th; eauto); congruence).
    - (* the pool actor of thread t0 *)
      subst a. assert (Hth : exists th0, threads s !! t0 = Some th0).
      { apply lookup_lt_is_Some_2. apply lookup_lt_Some in Ea. unfold ncallers in *. lia. }
      destruct Hth as [th0 Hth0].
      apply pool_ok_inv in Hok as [(-> & H1)|(-> & H1)].
      + destruct fr; try done; cbn in H1; apply bool_decide_eq_true in H1; subst; cbn in Hterm; rewrite ?Hth0, ?Hsf in Hterm; cbn in Hterm; try done.
        * cbn. destruct (chan th0) eqn:Ec; [eauto|done].
        * assert (sched_held s = Some (ncallers s + t0)) by (apply Sh; eauto). congruence.
      + destruct fr; try done; cbn in Hfr; apply bool_decide_eq_true in Hfr; destruct (queue_exists s _ Hfr) as [qq Eq];
          cbn in Hterm; rewrite ?Eq in Hterm; cbn in Hterm.
        all: try done.
        all: exfalso; repeat (match type of Hterm with context [match ?x with _ => _ end] => destruct x end; try done).
  Qed.
End Stuck.

Section Reach.
  Context (T : tables) (F : facts).
  Definition run (s : state) (tr : list nat) : option state := foldl (fun os a => o ← os; step T F o a) (Some s) tr.

  Lemma run_none tr : foldl (fun os a => o ← os; step T F o a) None tr = None.
  Proof. induction tr; cbn; done. Qed.

  Theorem reachable_wf nq mx scripts tr s : wf_scripts nq scripts -> run (init nq mx scripts) tr = Some s -> WF s.
  Proof.
    intros Hs. pose proof (init_wf nq mx scripts Hs) as H0. unfold run. revert H0. generalize (init nq mx scripts).
    induction tr as [|a tr IH]; intros s0 H0; cbn.
    - by intros [= <-].
    - destruct (step T F s0 a) as [s1|] eqn:E; cbn; [|by rewrite run_none]. apply IH. by eapply step_wf.
  Qed.

  (* In every reachable state in which no thread can move, each thread is in one of three places:
     its script is finished, it is inside the condition-variable wait of sync_background,
     or it is an idle pool thread with nothing in its channel. Holds for any tables and facts. *)
  Theorem only_three_ways_to_be_stuck nq mx scripts tr s :
    wf_scripts nq scripts -> run (init nq mx scripts) tr = Some s -> terminal T F s ->
    forall a ac, s.(actors) !! a = Some ac -> stuck_ok s ac.(stack).
  Proof.
    intros Hs Hr. apply stuck_frames.
    - by eapply reachable_shape.
    - by eapply reachable_wf.
  Qed.
End Reach.

Print Assumptions only_three_ways_to_be_stuck.
