From stdpp Require Import list numbers option.
From RecordUpdate Require Import RecordUpdate.
From L1 Require Import Model Own Shape Stuck Live Wait.

(* ---------- K': a takeable queue in the schedule has a helper ---------- *)
Definition live (s : state) (t : nat) : Prop :=
  exists th st, s.(threads) !! t = Some th /\ stacks s !! (ncallers s + t) = Some st /\ th.(busy) = true /\ st <> [FTrelnone t].
Definition takeable (s : state) : Prop :=
  exists q qq, q ∈ s.(sched) /\ s.(queues) !! q = Some qq /\ qq.(qs) = Pending.
Definition hclause (s : state) (st : list frame) : Prop :=
  match hd_error st with
  | Some (FD2 _) | Some (FRQ2 _) | Some FSTlock => True
  | Some (FSTscan i) => forall t, t < i -> t < length s.(threads) -> live s t
  | Some FSTspawn => forall t, t < length s.(threads) -> live s t
  | _ => False
  end.
Definition helper (s : state) : Prop := (exists t, live s t) \/ (exists b st, stacks s !! b = Some st /\ hclause s st).
Definition KInv (s : state) : Prop := takeable s -> helper s.
Definition is_htop (st : list frame) : bool :=
  match hd_error st with Some (FD2 _) | Some (FRQ2 _) | Some FSTlock | Some (FSTscan _) | Some FSTspawn => true | _ => false end.

Lemma hclause_htop s st : hclause s st -> is_htop st = true.
Proof. unfold hclause, is_htop. destruct (hd_error st) as [[]|]; done. Qed.

(* the generic way a step preserves K' *)
Lemma K_update s s' a ac newst :
  KInv s -> s.(actors) !! a = Some ac ->
  stacks s' = <[a := newst]> (stacks s) -> length s'.(threads) = length s.(threads) ->
  (takeable s' -> takeable s) ->
  (takeable s' -> forall t, live s t -> live s' t) ->
  (is_htop ac.(stack) = true -> hclause s ac.(stack) -> takeable s' -> helper s') ->
  KInv s'.
Proof.
  intros HK Ea Hst Hlt Htk Hlive Hself Ht'. destruct (HK (Htk Ht')) as [(t & Hl)|(b & st & Hb & Hc)].
  - left. exists t. by apply Hlive.
  - destruct (decide (a = b)) as [<-|Hne].
    + rewrite stacks_lookup, Ea in Hb. injection Hb as <-. apply Hself; [by eapply hclause_htop|done|done].
    + right. exists b, st. split; [rewrite Hst; by rewrite list_lookup_insert_ne|].
      unfold hclause in *. rewrite Hlt. destruct (hd_error st) as [[]|]; try done; intros; apply Hlive; auto.
Qed.

Lemma K_direct s s' a ac newst :
  s.(actors) !! a = Some ac -> stacks s' = <[a := newst]> (stacks s) ->
  (match hd_error newst with Some (FD2 _) | Some (FRQ2 _) | Some FSTlock => True | _ => False end) -> KInv s'.
Proof.
  intros Ea Hst Hh _. right. exists a, newst. split.
  - rewrite Hst, list_lookup_insert; [done|]. unfold stacks. rewrite fmap_length. by eapply lookup_lt_Some.
  - unfold hclause. destruct (hd_error newst) as [[]|]; done.
Qed.

Lemma takeable_mono s s' q g :
  (forall q0, q0 ∈ s'.(sched) -> q0 ∈ s.(sched)) ->
  (forall q0, s'.(queues) !! q0 = if decide (q = q0) then g <$> (s.(queues) !! q0) else s.(queues) !! q0) ->
  (forall qq, s.(queues) !! q = Some qq -> (g qq).(qs) = Pending -> qq.(qs) = Pending) ->
  takeable s' -> takeable s.
Proof.
  intros Hs Hq Hg (q0 & qq' & H1 & H2 & H3). rewrite Hq in H2. destruct (decide (q = q0)) as [<-|Hne].
  - destruct (queues s !! q) as [qq|] eqn:E; [|done]. injection H2 as <-. exists q, qq. split; [by apply Hs|]. split; [done|]. by apply Hg.
  - exists q0, qq'. split; [by apply Hs|]. done.
Qed.

(* liveness of threads under a step of a caller that leaves busy flags alone or raises them *)
Lemma live_mono_caller s s' a ac newst :
  s.(actors) !! a = Some ac -> a < ncallers s -> stacks s' = <[a := newst]> (stacks s) -> ncallers s' = ncallers s ->
  (forall t th, s.(threads) !! t = Some th -> exists th', s'.(threads) !! t = Some th' /\ (th.(busy) = true -> th'.(busy) = true)) ->
  forall t, live s t -> live s' t.
Proof.
  intros Ea Hlt Hst Hn Hth t (th & st & H1 & H2 & H3 & H4). destruct (Hth t th H1) as (th' & G1 & G2).
  exists th', st. split; [done|]. split; [|by auto]. rewrite Hn, Hst, list_lookup_insert_ne by lia. done.
Qed.
(* ... and under a step of the pool actor of thread t0 that stays out of FTrelnone *)
Lemma live_mono_pool s s' t0 ac newst :
  s.(actors) !! (ncallers s + t0) = Some ac -> stacks s' = <[ncallers s + t0 := newst]> (stacks s) -> ncallers s' = ncallers s ->
  newst <> [FTrelnone t0] ->
  (forall t th, s.(threads) !! t = Some th -> exists th', s'.(threads) !! t = Some th' /\ (th.(busy) = true -> th'.(busy) = true)) ->
  forall t, live s t -> live s' t.
Proof.
  intros Ea Hst Hn Hnew Hth t (th & st & H1 & H2 & H3 & H4). destruct (Hth t th H1) as (th' & G1 & G2).
  destruct (decide (t = t0)) as [->|Hne].
  - exists th', newst. split; [done|]. split; [|by auto]. rewrite Hn, Hst, list_lookup_insert; [done|]. by eapply lookup_lt_Some.
  - exists th', st. split; [done|]. split; [|by auto]. rewrite Hn, Hst, list_lookup_insert_ne by lia. done.
Qed.

Lemma helper_new_top s s' a ac newst :
  s.(actors) !! a = Some ac -> stacks s' = <[a := newst]> (stacks s) -> hclause s' newst -> helper s'.
Proof.
  intros Ea Hst Hc. right. exists a, newst. split; [|done]. rewrite Hst, list_lookup_insert; [done|].
  unfold stacks. rewrite fmap_length. by eapply lookup_lt_Some.
Qed.
(* a busy thread whose busy lock is free is live *)
Lemma busy_unheld_live s t th : Shape s -> s.(threads) !! t = Some th -> th.(busy) = true -> th.(held) = false -> live s t.
Proof.
  intros HS Ht Hb Hh. pose proof HS as [L Ta Ca Po He Sh Th].
  assert (Hi : ncallers s + t < length (actors s)) by (apply lookup_lt_Some in Ht; unfold ncallers; lia).
  destruct (lookup_lt_is_Some_2 _ _ Hi) as [ap Eap]. exists th, (stack ap). split; [done|]. split; [by rewrite stacks_lookup, Eap|]. split; [done|].
  specialize (He t th ap Ht Eap). rewrite Hh in He. intros Hs. by rewrite Hs in He.
Qed.

(* ---------- K' and wake-ups ---------- *)
Lemma KInv_wake s w ac q rest : Shape s -> KInv s -> s.(actors) !! w = Some ac -> ac.(stack) = FSBwait q :: rest -> KInv (setstack s w (FSBwoken q :: rest)).
Proof.
  intros HS HK Ew Est. pose proof (kind_of s w ac HS Ew) as Hkind. rewrite Est in Hkind.
  destruct Hkind as [[Hlt _]|(t & _ & Hok)]; [|by destruct rest as [|? [|]]].
  eapply (K_update s _ w ac _ HK Ew); [apply stacks_setstack|done| | |].
  - intros (q0 & qq & H1 & H2 & H3). exists q0, qq. done.
  - intros _. eapply (live_mono_caller s _ w ac); [done|done|apply stacks_setstack|apply ncallers_setstack|]. intros t th Ht. by exists th.
  - intros Hh. by rewrite Est in Hh.
Qed.
Lemma KInv_kick s w (f : actor -> actor) : (forall x, (f x).(stack) = x.(stack)) -> KInv s -> KInv (upda s w f).
Proof.
  intros Hf HK (q0 & qq & H1 & H2 & H3).
  assert (Hst : stacks (upda s w f) = stacks s) by (by apply stacks_upda_same).
  assert (Hn : ncallers (upda s w f) = ncallers s) by (unfold ncallers; by rewrite length_actors_upda).
  assert (Hl : forall t, live s t -> live (upda s w f) t).
  { intros t (th & st & G1 & G2 & G3 & G4). exists th, st. rewrite Hn, Hst. done. }
  destruct HK as [(t & Ht)|(b & st & Hb & Hc)]; [by exists q0, qq|left; exists t; by apply Hl|].
  right. exists b, st. split; [by rewrite Hst|]. unfold hclause in *. destruct (hd_error st) as [[]|]; try done; intros; apply Hl; auto.
Qed.
Lemma KInv_notify F s w : Shape s -> KInv s -> KInv (notify F s w).
Proof.
  intros HS HK. unfold notify. set (s1 := if f_sticky_notify F then upda s w (fun x => x <| kicked := true |>) else s).
  assert (H1 : KInv s1 /\ Shape s1) by (subst s1; destruct (f_sticky_notify F); [split; [by apply KInv_kick|by apply Shape_kick]|done]).
  destruct H1 as [H1 HS1]. destruct (actors s1 !! w) as [aw|] eqn:Ew; [|done]. destruct (stack aw) as [|[] rest] eqn:Es; try done. by eapply KInv_wake.
Qed.
Lemma KInv_foldl_notify F ws s : Shape s -> KInv s -> KInv (foldl (notify F) s ws).
Proof. revert s; induction ws as [|w ws IH]; intros s HS HK; cbn; [done|]. apply IH; [by apply Shape_notify|by apply KInv_notify]. Qed.
Lemma KInv_run_job F s j : Shape s -> KInv s -> KInv (run_job F s j).
Proof.
  intros HS HK. destruct j as [o|o c|o c]; unfold run_job.
  - intros (q0 & qq & H1 & H2 & H3). destruct HK as [(t & th & st & G)|(b & st & Hb & Hc)]; [by exists q0, qq|left; by exists t, th, st|right; by exists b, st].
  - by apply KInv_kick.
  - set (s1 := upda _ c _).
    assert (H1 : KInv s1 /\ Shape s1).
    { subst s1. split; [apply KInv_kick; [done|]|apply Shape_kick; [done|by apply (Shape_view _ s)]].
      intros (q0 & qq & H1 & H2 & H3). destruct HK as [(t & th & st & G)|(b & st & Hb & Hc)]; [by exists q0, qq|left; by exists t, th, st|right; by exists b, st]. }
    destruct H1 as [H1 HS1]. destruct (actors s1 !! c) as [ac|] eqn:Ec; [|done]. destruct (stack ac) as [|[] rest] eqn:Es; try done. by eapply KInv_wake.
Qed.

Ltac ob_q_id' := let q0 := fresh "q0" in intros q0; cbn; match goal with |- context [decide (?x = ?y)] => destruct (decide (x = y)) end; [by match goal with |- context [queues ?s !! ?q] => destruct (queues s !! q) end|done].
Ltac ob_nc := unfold ncallers, setstack, upda, updt, updq; cbn; rewrite ?alter_length; done.
Ltac ob_threads_same := let t := fresh "t" in let thx := fresh "thx" in let H := fresh "Hthx" in intros t thx H; exists thx; split; [exact H|done].
Ltac ob_sched_sub := intros ?q0 ?Hin; cbn in Hin; first [exact Hin | (apply elem_of_list_filter in Hin as [_ Hin]; exact Hin) | (match goal with E0 : sched _ = _ :: _ |- _ => rewrite E0; apply elem_of_cons; by right end)].
(* the state obligation of takeable_mono, by evaluating the table on the three core states *)
Ltac ob_state HK HQ := let qq0 := fresh "qq" in let Hqq0 := fresh in let Hp := fresh in intros qq0 Hqq0 Hp; cbn in Hp;
         first [ exact Hp | discriminate
               | match goal with Eq : queues _ !! _ = Some ?qq |- _ =>
                   rewrite Eq in Hqq0; injection Hqq0 as <-;
                   destruct (qc_core _ _ _ (HQ _ _ Eq)) as [Hc|[Hc|Hc]]; rewrite ?Hc in *;
                   rewrite ?(k_sync_i _ HK), ?(k_sync_p _ HK), ?(k_sync_r _ HK), ?(k_try_i _ HK), ?(k_try_p _ HK), ?(k_try_r _ HK),
                           ?(k_claim_i _ HK), ?(k_claim_p _ HK), ?(k_claim_r _ HK), ?(k_desync_i _ HK), ?(k_desync_p _ HK), ?(k_desync_r _ HK),
                           ?(k_next_i _ HK), ?(k_next_p _ HK), ?(k_next_r _ HK),
                           ?(k_resched_i _ HK), ?(k_resched_p _ HK), ?(k_resched_r _ HK), ?(k_fin _ HK) in *;
                   repeat match goal with H : context [if ?b then _ else _] |- _ => destruct b eqn:? end; simplify_eq; done end ].

Section KStep.
  Context (T : tables) (F : facts) (HK : core_tables T) (HT : own_conditions T) (HF : F.(f_dormant_blocks) = true).

  Lemma step_k s a s' : Shape s -> PoolInv s -> Inv s -> QInv s -> 1 <= s.(maxt) -> KInv s -> step T F s a = Some s' -> KInv s'.
  Proof.
    intros HS HP HI HQ Hmax HKI Hstep. unfold step in Hstep.
    destruct (actors s !! a) as [ac|] eqn:Ea; cbn in Hstep; [|congruence].
    destruct (stack ac) as [|fr rest] eqn:Est; [congruence|].
    destruct fr.
    all: cbn beta iota zeta in Hstep.
    all: repeat (first
         [ match type of Hstep with
           | context [queues _ !! ?q] => let E := fresh "Eq" in destruct (queues s !! q) as [qq|] eqn:E; cbn in Hstep; [|congruence]
           | context [threads _ !! ?t] => let E := fresh "Et" in destruct (threads s !! t) as [th|] eqn:E; cbn in Hstep
           end
         | match type of Hstep with context [match ?x with _ => _ end] => let E := fresh "E" in destruct x eqn:E end; cbn in Hstep; try congruence ]).
    all: try discriminate.
    all: try (injection Hstep as <-).
    all: pose proof (kind_of s a ac HS Ea) as Hkind; rewrite Est in Hkind;
         destruct Hkind as [[Hlt Hok]|(t0 & Hat & Hok)];
         [ apply caller_ok_inv in Hok as [(-> & Hfr)|[(os & -> & Hsf)|(g & os & -> & Hpo)]]; try discriminate;
           try (cbn in Hpo; destruct g; try discriminate; try (apply bool_decide_eq_true in Hpo; subst))
         | apply pool_ok_inv in Hok as [(-> & Hfr)|(-> & Hfr)]; try discriminate; try (cbn in Hfr; apply bool_decide_eq_true in Hfr; subst) ].
    all: try subst a.
    (* the new top frame is itself a helper *)
    all: try (eapply (K_direct s _ _ ac _ Ea); [ob_stacks|done]; fail).
    (* callers: no queue, thread or schedule change *)
    all: try (eapply (K_update s _ a ac _ HKI Ea);
              [ ob_stacks | ob_len
              | eapply (takeable_mono s _ 0 (fun x => x)); [ ob_sched_sub | ob_q_id' | done ]
              | intros _; eapply (live_mono_caller s _ a ac); [exact Ea|exact Hlt|ob_stacks|ob_nc|ob_threads_same]
              | intros Hh; rewrite Est in Hh; cbn in Hh; discriminate ]; fail).
    (* callers that change one queue *)
    all: try (
       lazymatch goal with
       | |- KInv (setstack (updq (updq _ ?q ?f1) _ ?f2) _ _) => eapply (K_update s _ a ac _ HKI Ea); [ ob_stacks | ob_len | eapply (takeable_mono s _ q (fun x => f2 (f1 x))) | | ]
       | |- KInv (setstack (updq _ ?q ?f) _ _) => eapply (K_update s _ a ac _ HKI Ea); [ ob_stacks | ob_len | eapply (takeable_mono s _ q f) | | ]
       | |- KInv (setstack (upda (updq _ ?q ?f) _ _) _ _) => eapply (K_update s _ a ac _ HKI Ea); [ ob_stacks | ob_len | eapply (takeable_mono s _ q f) | | ]
       end;
       [ ob_sched_sub | obs_q2 | ob_state HK HQ
       | intros _; eapply (live_mono_caller s _ a ac); [exact Ea|exact Hlt|ob_stacks|ob_nc|ob_threads_same]
       | intros Hh; rewrite Est in Hh; cbn in Hh; discriminate ]; fail).
    (* pool actor steps that stay out of FTrelnone and keep every busy flag *)
    all: try (
       lazymatch goal with
       | |- KInv (setstack (updq (updq _ ?q ?f1) _ ?f2) (ncallers _ + ?t0) _) => eapply (K_update s _ _ ac _ HKI Ea); [ ob_stacks | ob_len | eapply (takeable_mono s _ q (fun x => f2 (f1 x))) | | ]
       | |- KInv (setstack (updq _ ?q ?f) (ncallers _ + ?t0) _) => eapply (K_update s _ _ ac _ HKI Ea); [ ob_stacks | ob_len | eapply (takeable_mono s _ q f) | | ]
       | |- KInv (setstack _ (ncallers _ + ?t0) _) => eapply (K_update s _ _ ac _ HKI Ea); [ ob_stacks | ob_len | eapply (takeable_mono s _ 0 (fun x => x)) | | ]
       end;
       [ ob_sched_sub | first [obs_q2 | ob_q_id'] | first [done | ob_state HK HQ]
       | intros _; eapply (live_mono_pool s _ _ ac); [exact Ea|ob_stacks|ob_nc|done
           | intros ?t ?th ?Ht; first [ (exists th; split; [exact Ht|done])
                                     | (rewrite threads_setstack, threads_updt_lookup; match goal with |- context [decide (?x = ?y)] => destruct (decide (x = y)) as [<-|] end;
                                        [rewrite Ht; cbn; eexists; split; [reflexivity|cbn; done] | exists th; split; [exact Ht|done]]) ] ]
       | intros Hh; rewrite Est in Hh; cbn in Hh; discriminate ]; fail).
    (* FTexam found the schedule empty: nothing is takeable *)
    all: try (lazymatch goal with |- KInv (setstack _ _ [FTrelnone _]) => idtac end;
              intros (q0 & qq0 & Hin & _); cbn in Hin; match goal with E0 : sched _ = [] |- _ => rewrite E0 in Hin end; by apply elem_of_nil in Hin).
    19: { eapply (K_update s _ _ ac _ HKI Ea); [ ob_stacks | ob_len | eapply (takeable_mono s _ 0 (fun x => x)) | | ].
          - ob_sched_sub.
          - ob_q_id'.
          - done.
          - intros _; eapply (live_mono_pool s _ _ ac); [exact Ea|ob_stacks|ob_nc|done|].
            intros t1 th1 Ht1. rewrite threads_setstack, threads_updt_lookup. destruct (decide (t0 = t1)) as [<-|].
            + rewrite Ht1; cbn; eexists; split; [reflexivity|cbn; done].
            + exists th1; split; [exact Ht1|done].
          - intros Hh; rewrite Est in Hh; cbn in Hh; discriminate. }
    (* FTrelnone goes dormant: the thread was not live before either *)
    19: { eapply (K_update s _ _ ac _ HKI Ea); [ ob_stacks | ob_len | eapply (takeable_mono s _ 0 (fun x => x)) | | ].
          - ob_sched_sub.
          - ob_q_id'.
          - done.
          - intros _ t1 (th1 & st1 & G1 & G2 & G3 & G4). destruct (decide (t1 = t0)) as [->|Hne].
            + exfalso. rewrite stacks_lookup, Ea in G2. injection G2 as <-. by rewrite Est in G4.
            + exists th1, st1. split; [rewrite threads_setstack, threads_updt_lookup, decide_False by done; exact G1|].
              split; [|done]. assert (Hn : ncallers (setstack (updt s t0 (fun x => x <| busy := false |> <| held := false |>)) (ncallers s + t0) [FTrecv t0]) = ncallers s) by ob_nc.
              rewrite Hn, stacks_setstack, list_lookup_insert_ne by lia. exact G2.
          - intros Hh; rewrite Est in Hh; cbn in Hh; discriminate. }
    (* FDRfin: the runner's queue is Running, the table sends it to Idle or leaves it *)
    20-21: (assert (Hrun : qs qq = Running) by (eapply (runner_owns s _ q qq); [exact HI| |exact Eq]; rewrite (stack_cnt_self _ _ _ _ Ea), Est; cbn [cnt owns_b]; rewrite bool_decide_true by done; done);
            rewrite Hrun, (k_fin _ HK) in E; destruct (bool_decide (jobs qq = [])) eqn:Ej; simplify_eq;
            lazymatch goal with
            | |- KInv (setstack (updq (updq _ ?q ?f1) _ ?f2) _ _) => eapply (K_update s _ _ ac _ HKI Ea); [ ob_stacks | ob_len | eapply (takeable_mono s _ q (fun x => f2 (f1 x))) | | ]
            | |- KInv (setstack (updq _ ?q ?f) _ _) => eapply (K_update s _ _ ac _ HKI Ea); [ ob_stacks | ob_len | eapply (takeable_mono s _ q f) | | ]
            end;
            [ ob_sched_sub | obs_q2 | intros qq0 Hqq0 Hp; cbn in Hp; discriminate
            | intros _; eapply (live_mono_pool s _ _ ac); [exact Ea|ob_stacks|ob_nc|done|ob_threads_same]
            | intros Hh; rewrite Est in Hh; cbn in Hh; discriminate ]).
    (* run_job: wake first, then an ordinary step *)
    all: try (lazymatch goal with |- KInv (setstack (run_job ?F ?s ?j) ?a ?st) =>
              assert (HK1 : KInv (run_job F s j)) by (by apply KInv_run_job);
              destruct (run_job_self F s j a ac Ea) as (ac1 & Ea1 & Est1); [by rewrite Est|];
              pose proof (run_job_len F s j) as HA;
              destruct (run_job_frame F s j) as (A & R & Hfr2); rewrite Hfr2 in *;
              assert (Hn1 : ncallers (s <| actors := A |> <| ran := R |>) = ncallers s) by (unfold ncallers; cbn in *; lia);
              eapply (K_update _ _ a ac1 _ HK1 Ea1);
              [ ob_stacks | ob_len
              | eapply (takeable_mono _ _ 0 (fun x => x)); [ ob_sched_sub | ob_q_id' | done ]
              | intros _; first [ eapply (live_mono_caller _ _ a ac1); [exact Ea1|by rewrite Hn1|ob_stacks|ob_nc|ob_threads_same]
                                | rewrite <- Hn1 in Ea1 |- *; eapply (live_mono_pool _ _ _ ac1); [exact Ea1|ob_stacks|ob_nc|done|ob_threads_same] ]
              | intros Hh; rewrite Est1, Est in Hh; cbn in Hh; discriminate ] end; fail).
    (* reschedule_queue *)
    all: try (lazymatch goal with |- KInv (setstack (updq (foldl (notify ?F) ?s ?ws) ?q ?g) ?a ?st) =>
              assert (HK1 : KInv (foldl (notify F) s ws)) by (by apply KInv_foldl_notify);
              destruct (foldl_notify_self F ws s a ac Ea) as (ac1 & Ea1 & Est1); [by rewrite Est|];
              pose proof (foldl_notify_len F ws s) as HA;
              destruct (foldl_notify_frame F ws s) as (A & Hfr2); rewrite Hfr2 in *;
              assert (Hn1 : ncallers (s <| actors := A |>) = ncallers s) by (unfold ncallers; cbn in *; lia);
              first
              [ solve [eapply (K_direct _ _ a ac1 _ Ea1); [ob_stacks|done]]
              | eapply (K_update _ _ a ac1 _ HK1 Ea1);
                [ ob_stacks | ob_len
                | eapply (takeable_mono _ _ q g); [ ob_sched_sub | obs_q2 | ob_state HK HQ ]
                | intros _; eapply (live_mono_caller _ _ a ac1); [exact Ea1|by rewrite Hn1|ob_stacks|ob_nc|ob_threads_same]
                | intros Hh; rewrite Est1, Est in Hh; cbn in Hh; discriminate ] ] end; fail).
    13: { assert (HK1 : KInv (foldl (notify F) s (wake_blocked qq))) by (by apply KInv_foldl_notify).
          destruct (foldl_notify_self F (wake_blocked qq) s a ac Ea) as (ac1 & Ea1 & Est1); [by rewrite Est|].
          pose proof (foldl_notify_len F (wake_blocked qq) s) as HA.
          destruct (foldl_notify_frame F (wake_blocked qq) s) as (A & Hfr2); rewrite Hfr2 in *.
          assert (Hn1 : ncallers (s <| actors := A |>) = ncallers s) by (unfold ncallers; cbn in *; lia).
          eapply (K_update _ _ a ac1 _ HK1 Ea1).
          - ob_stacks.
          - ob_len.
          - eapply (takeable_mono _ _ q (λ x : queue, x <| qs := q0 |>)); [ ob_sched_sub | obs_q2 | ].
            intros qq1 Hqq1 Hp; cbn in Hp. cbn in Hqq1. rewrite Eq in Hqq1; injection Hqq1 as <-.
            destruct (qc_core _ _ _ (HQ _ _ Eq)) as [Hc|[Hc|Hc]]; rewrite ?Hc in *;
            rewrite ?(k_resched_i _ HK), ?(k_resched_p _ HK), ?(k_resched_r _ HK) in *;
            repeat match goal with H : context [if ?b then _ else _] |- _ => destruct b eqn:? end; simplify_eq; done.
          - intros _; eapply (live_mono_caller _ _ a ac1); [exact Ea1|by rewrite Hn1|ob_stacks|ob_nc|ob_threads_same].
          - intros Hh; rewrite Est1, Est in Hh; cbn in Hh; discriminate. }
    13: { assert (HK1 : KInv (foldl (notify F) s (wake_blocked qq))) by (by apply KInv_foldl_notify).
          destruct (foldl_notify_self F (wake_blocked qq) s a ac Ea) as (ac1 & Ea1 & Est1); [by rewrite Est|].
          pose proof (foldl_notify_len F (wake_blocked qq) s) as HA.
          destruct (foldl_notify_frame F (wake_blocked qq) s) as (A & Hfr2); rewrite Hfr2 in *.
          assert (Hn1 : ncallers (s <| actors := A |>) = ncallers s) by (unfold ncallers; cbn in *; lia).
          eapply (K_update _ _ a ac1 _ HK1 Ea1).
          - ob_stacks.
          - ob_len.
          - eapply (takeable_mono _ _ q (λ x : queue, x <| qs := q0 |>)); [ ob_sched_sub | obs_q2 | ].
            intros qq1 Hqq1 Hp; cbn in Hp. cbn in Hqq1. rewrite Eq in Hqq1; injection Hqq1 as <-.
            destruct (qc_core _ _ _ (HQ _ _ Eq)) as [Hc|[Hc|Hc]]; rewrite ?Hc in *;
            rewrite ?(k_resched_i _ HK), ?(k_resched_p _ HK), ?(k_resched_r _ HK) in *;
            repeat match goal with H : context [if ?b then _ else _] |- _ => destruct b eqn:? end; simplify_eq; done.
          - intros _; eapply (live_mono_caller _ _ a ac1); [exact Ea1|by rewrite Hn1|ob_stacks|ob_nc|ob_threads_same].
          - intros Hh; rewrite Est1, Est in Hh; cbn in Hh; discriminate. }
    (* FSTlock -> FSTscan 0 *)
    1-2: (eapply (K_update s _ a ac _ HKI Ea);
          [ ob_stacks | ob_len
          | eapply (takeable_mono s _ 0 (fun x => x)); [ ob_sched_sub | ob_q_id' | done ]
          | intros _; eapply (live_mono_caller s _ a ac); [exact Ea|exact Hlt|ob_stacks|ob_nc|ob_threads_same]
          | intros _ _ _; eapply (helper_new_top s _ a ac); [exact Ea|ob_stacks|]; unfold hclause; cbn; intros; lia ]).
    (* FSTscan i -> FSTscan (S i): thread i is busy and does not hold its lock, hence live *)
    1-2: (assert (Hlm : forall t, live s t -> live (setstack s a (FSTscan (S i) :: tl (stack ac))) t)
            by (eapply (live_mono_caller s _ a ac); [exact Ea|exact Hlt|apply stacks_setstack|ob_nc|ob_threads_same]);
          rewrite Est in Hlm; cbn [tl] in Hlm;
          eapply (K_update s _ a ac _ HKI Ea);
          [ ob_stacks | ob_len
          | eapply (takeable_mono s _ 0 (fun x => x)); [ ob_sched_sub | ob_q_id' | done ]
          | intros _; exact Hlm
          | intros _ Hc _; rewrite Est in Hc; unfold hclause in Hc; cbn in Hc;
            eapply (helper_new_top s _ a ac); [exact Ea|ob_stacks|]; unfold hclause; cbn; intros t1 Hlt1 Hlen1;
            apply Hlm; destruct (decide (t1 = i)) as [->|Hne]; [by eapply busy_unheld_live|apply Hc; [lia|exact Hlen1]] ]).
    (* the scan claims a dormant thread: it is live afterwards *)
    1-2: (intros _; left; exists i;
          pose proof HS as [L _ _ _ _ _ _];
          assert (Hi : ncallers s + i < length (actors s)) by (apply lookup_lt_Some in Et; unfold ncallers; lia);
          destruct (lookup_lt_is_Some_2 _ _ Hi) as [ap Eap];
          assert (Hps : pool_state_ok th (stack ap) = true) by (apply (HP i); [exact Et|by rewrite stacks_lookup, Eap]);
          unfold pool_state_ok in Hps; rewrite E1 in Hps;
          exists (th <| busy := true |> <| chan := S (chan th) |>), (stack ap);
          split; [rewrite threads_setstack, threads_updt_lookup, decide_True by done; cbn; by rewrite Et|];
          split; [match goal with |- stacks ?s1 !! (ncallers ?s1 + _) = _ => assert (Hn : ncallers s1 = ncallers s) by ob_nc; rewrite Hn end; rewrite stacks_setstack, list_lookup_insert_ne by lia; change (stacks (updt (s <| threads_held := None |>) i _)) with (stacks s); by rewrite stacks_lookup, Eap|];
          split; [done|]; destruct (chan th); [|done]; destruct (stack ap) as [|[] [|]]; done).
    (* the scan reached the end of the thread list *)
    1-2: (assert (Hlm : forall t, live s t -> live (setstack (s <| threads_held := None |>) a (FSTspawn :: tl (stack ac))) t)
            by (eapply (live_mono_caller s _ a ac); [exact Ea|exact Hlt|ob_stacks|ob_nc|ob_threads_same]);
          rewrite Est in Hlm; cbn [tl] in Hlm; apply lookup_ge_None in Et;
          eapply (K_update s _ a ac _ HKI Ea);
          [ ob_stacks | ob_len
          | eapply (takeable_mono s _ 0 (fun x => x)); [ ob_sched_sub | ob_q_id' | done ]
          | intros _; exact Hlm
          | intros _ Hc _; rewrite Est in Hc; unfold hclause in Hc; cbn in Hc;
            eapply (helper_new_top s _ a ac); [exact Ea|ob_stacks|]; unfold hclause; cbn; intros t1 Hlen1;
            apply Hlm; apply Hc; [lia|exact Hlen1] ]).
    (* a thread was spawned: the caller scans again *)
    1-2: (intros _; right; eexists a, _; split; [rewrite stacks_setstack, list_lookup_insert; [reflexivity|]|done];
          unfold stacks; cbn; rewrite fmap_length, app_length; apply lookup_lt_Some in Ea; lia).
    (* the pool is at its maximum: the scan returns, and every thread it passed is live *)
    all: (assert (Hlm : forall t, live s t -> live (setstack s a (tl (stack ac))) t)
            by (eapply (live_mono_caller s _ a ac); [exact Ea|exact Hlt|ob_stacks|ob_nc|ob_threads_same]);
          rewrite Est in Hlm; cbn [tl] in Hlm;
          eapply (K_update s _ a ac _ HKI Ea);
          [ ob_stacks | ob_len
          | eapply (takeable_mono s _ 0 (fun x => x)); [ ob_sched_sub | ob_q_id' | done ]
          | intros _; exact Hlm
          | intros _ Hc _; rewrite Est in Hc; unfold hclause in Hc; cbn in Hc;
            left; exists 0; apply Hlm; apply Hc; lia ]).
  Qed.
End KStep.

Print Assumptions step_k.

