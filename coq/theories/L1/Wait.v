From stdpp Require Import list numbers option.
From RecordUpdate Require Import RecordUpdate.
From L1 Require Import Model Own Shape Stuck Live.

(* ---------- waiters: where is the job of a thread that is in sync_background? ---------- *)
Definition wp_q (st : list frame) : option nat :=
  match st with
  | FSBcheck q :: _ | FSBwait q :: _ | FSBwoken q :: _ | FSBclaim q :: _ | FSBsteal q :: _ | FSBstealidle q :: _ => Some q
  | _ :: FSBcheck q :: _ | _ :: FSBsteal q :: _ => Some q
  | _ => None
  end.
Definition run_top (st : list frame) (j : job) : Prop := exists q', hd_error st = Some (FROrun q' j) \/ hd_error st = Some (FDRrun q' j).
Definition located (s : state) (w q : nat) : Prop :=
  (exists qq o, s.(queues) !! q = Some qq /\ JSyncBg o w ∈ qq.(jobs)) \/
  (exists b st o, stacks s !! b = Some st /\ run_top st (JSyncBg o w)).
Definition readys (s : state) : list bool := ready <$> s.(actors).
Record JClauses (s : state) (w : nat) (ac : actor) : Prop := {
  j_loc : forall q, wp_q ac.(stack) = Some q -> ac.(ready) = false -> located s w q;
  j_wait : forall q, hd_error ac.(stack) = Some (FSBwait q) -> ac.(ready) = false;
}.
Definition JInv (s : state) : Prop := forall w ac, s.(actors) !! w = Some ac -> JClauses s w ac.

Definition is_run (fr : frame) : bool := match fr with FROrun _ _ | FDRrun _ _ => true | _ => false end.

(* jobs only grow, no run frame disappears: locations survive *)
Lemma located_mono s s' a ac newst w q :
  s.(actors) !! a = Some ac -> stacks s' = <[a := newst]> (stacks s) ->
  (forall q0 qq o w0, s.(queues) !! q0 = Some qq -> JSyncBg o w0 ∈ qq.(jobs) -> exists qq', s'.(queues) !! q0 = Some qq' /\ JSyncBg o w0 ∈ qq'.(jobs)) ->
  (forall o0, ~ run_top ac.(stack) (JSyncBg o0 w)) ->
  located s w q -> located s' w q.
Proof.
  intros Ea Hst Hjobs Hnr [(qq & o & Hq & Hin)|(b & st & o & Hb & Hr)].
  - left. destruct (Hjobs q qq o w Hq Hin) as (qq' & H1 & H2). eauto.
  - right. exists b, st, o. split; [|done]. rewrite Hst. destruct (decide (a = b)) as [->|]; [|by rewrite list_lookup_insert_ne].
    exfalso. rewrite stacks_lookup, Ea in Hb. cbn in Hb. injection Hb as <-. by eapply Hnr.
Qed.

Lemma actor_after_insert s s' a ac newst b ab' :
  s.(actors) !! a = Some ac -> stacks s' = <[a := newst]> (stacks s) -> readys s' = readys s ->
  s'.(actors) !! b = Some ab' ->
  exists ab, s.(actors) !! b = Some ab /\ ab'.(ready) = ab.(ready) /\ ab'.(stack) = if decide (a = b) then newst else ab.(stack).
Proof.
  intros Ea Hst Hr Hb.
  assert (H1 : readys s' !! b = Some ab'.(ready)) by (unfold readys; by rewrite list_lookup_fmap, Hb).
  rewrite Hr in H1. unfold readys in H1. rewrite list_lookup_fmap in H1. destruct (actors s !! b) as [ab|] eqn:Eb; [|done]. injection H1 as H1.
  exists ab. split; [done|]. split; [done|].
  assert (H2 : stacks s' !! b = Some ab'.(stack)) by (by rewrite stacks_lookup, Hb).
  rewrite Hst in H2. case_decide; subst.
  - rewrite list_lookup_insert in H2; [by injection H2|]. unfold stacks. rewrite fmap_length. by eapply lookup_lt_Some.
  - rewrite list_lookup_insert_ne in H2 by done. rewrite stacks_lookup, Eb in H2. by injection H2.
Qed.

Lemma JInv_update s s' a ac newst :
  JInv s -> s.(actors) !! a = Some ac ->
  stacks s' = <[a := newst]> (stacks s) -> readys s' = readys s ->
  (forall q0 qq o w0, s.(queues) !! q0 = Some qq -> JSyncBg o w0 ∈ qq.(jobs) -> exists qq', s'.(queues) !! q0 = Some qq' /\ JSyncBg o w0 ∈ qq'.(jobs)) ->
  (forall o0 w0, ~ run_top ac.(stack) (JSyncBg o0 w0)) ->
  (wp_q newst = None \/ wp_q newst = wp_q ac.(stack)) ->
  (forall q, hd_error newst = Some (FSBwait q) -> ac.(ready) = false) ->
  JInv s'.
Proof.
  intros HJ Ea Hst Hr Hjobs Hnr Hwp Hwait b ab' Hb.
  destruct (actor_after_insert s s' a ac newst b ab' Ea Hst Hr Hb) as (ab & Eb & Hrd & Hstk).
  destruct (HJ b ab Eb) as [J1 J2]. split.
  - intros q Hq Hrf. rewrite Hrd in Hrf. eapply located_mono; [exact Ea|exact Hst|exact Hjobs|intros o0; apply Hnr|].
    apply J1; [|done]. rewrite Hstk in Hq. case_decide; [subst b|done].
    rewrite Ea in Eb. injection Eb as <-. destruct Hwp as [Hwp|Hwp]; congruence.
  - intros q Hh. rewrite Hrd. rewrite Hstk in Hh. case_decide; [subst b|by eapply J2].
    rewrite Ea in Eb. injection Eb as <-. by eapply Hwait.
Qed.

(* variant: the stepping actor may also reset its ready flag when it is not a waiter afterwards *)
Lemma JInv_update_reset s s' a ac newst :
  JInv s -> s.(actors) !! a = Some ac ->
  stacks s' = <[a := newst]> (stacks s) ->
  (forall b ab', s'.(actors) !! b = Some ab' -> b <> a -> exists ab, s.(actors) !! b = Some ab /\ ab'.(ready) = ab.(ready)) ->
  s'.(queues) = s.(queues) ->
  (forall o0 w0, ~ run_top ac.(stack) (JSyncBg o0 w0)) ->
  wp_q newst = None -> (forall q, hd_error newst <> Some (FSBwait q)) ->
  JInv s'.
Proof.
  intros HJ Ea Hst Hr Hq Hnr Hwp Hwait b ab' Hb.
  assert (H2 : stacks s' !! b = Some ab'.(stack)) by (by rewrite stacks_lookup, Hb).
  rewrite Hst in H2. destruct (decide (a = b)) as [<-|Hne].
  - rewrite list_lookup_insert in H2 by (unfold stacks; rewrite fmap_length; by eapply lookup_lt_Some). injection H2 as H2.
    split; rewrite <- H2; [intros q Hq'; congruence|intros q Hh; by destruct (Hwait q)].
  - rewrite list_lookup_insert_ne in H2 by done. destruct (Hr b ab' Hb) as (ab & Eb & Hrd); [done|].
    rewrite stacks_lookup, Eb in H2. injection H2 as H2. destruct (HJ b ab Eb) as [J1 J2]. split; rewrite <- H2, Hrd.
    + intros q Hq' Hrf. eapply located_mono; [exact Ea|exact Hst| |intros o0; apply Hnr|by apply J1]. intros q0 qq o w0 H1 H3. rewrite Hq. eauto.
    + apply J2.
Qed.

Lemma JInv_same s1 s : stacks s1 = stacks s -> readys s1 = readys s -> s1.(queues) = s.(queues) -> JInv s -> JInv s1.
Proof.
  intros Hst Hr Hq HJ b ab' Hb.
  assert (H1 : readys s1 !! b = Some ab'.(ready)) by (unfold readys; by rewrite list_lookup_fmap, Hb).
  rewrite Hr in H1. unfold readys in H1. rewrite list_lookup_fmap in H1. destruct (actors s !! b) as [ab|] eqn:Eb; [|done]. injection H1 as H1.
  assert (H2 : stacks s1 !! b = Some ab'.(stack)) by (by rewrite stacks_lookup, Hb).
  rewrite Hst, stacks_lookup, Eb in H2. injection H2 as H2.
  destruct (HJ b ab Eb) as [J1 J2]. split; rewrite <- H2, <- H1; [|done].
  intros q Hq' Hrf. destruct (J1 q Hq' Hrf) as [(qq & o & G1 & G2)|(x & st & o & G1 & G2)]; [left|right].
  - rewrite Hq. eauto.
  - rewrite Hst. eauto.
Qed.

Lemma readys_setstack s a st : readys (setstack s a st) = readys s.
Proof.
  unfold readys, setstack, upda; cbn. apply list_eq. intros i. rewrite !list_lookup_fmap.
  destruct (decide (a = i)) as [->|]; [rewrite list_lookup_alter|by rewrite list_lookup_alter_ne]. by destruct (actors s !! i).
Qed.
Lemma readys_upda_same s a f : (forall x, (f x).(ready) = x.(ready)) -> readys (upda s a f) = readys s.
Proof.
  intros Hf. unfold readys, upda; cbn. apply list_eq. intros i. rewrite !list_lookup_fmap.
  destruct (decide (a = i)) as [->|]; [rewrite list_lookup_alter|by rewrite list_lookup_alter_ne]. destruct (actors s !! i); cbn; [by rewrite Hf|done].
Qed.

Lemma JInv_wake s w ac q rest : JInv s -> s.(actors) !! w = Some ac -> ac.(stack) = FSBwait q :: rest -> JInv (setstack s w (FSBwoken q :: rest)).
Proof.
  intros HJ Ew Est. eapply (JInv_update s _ w ac); [done|done|apply stacks_setstack|apply readys_setstack| | | |].
  - intros q0 qq o w0 H1 H2. eauto.
  - intros o0 w0 (q' & [H|H]); rewrite Est in H; done.
  - right. by rewrite Est.
  - intros q' Hh. done.
Qed.
Lemma JInv_notify F s w : JInv s -> JInv (notify F s w).
Proof.
  intros HJ. unfold notify. set (s1 := if f_sticky_notify F then upda s w (fun x => x <| kicked := true |>) else s).
  assert (H1 : JInv s1) by (subst s1; destruct (f_sticky_notify F); [apply (JInv_same _ s); try done; [by apply stacks_upda_same|by apply readys_upda_same]|done]).
  destruct (actors s1 !! w) as [aw|] eqn:Ew; [|done]. destruct (stack aw) as [|[] rest] eqn:Es; try done. by eapply JInv_wake.
Qed.
Lemma JInv_foldl_notify F ws s : JInv s -> JInv (foldl (notify F) s ws).
Proof. revert s; induction ws as [|w ws IH]; intros s HJ; cbn; [done|]. apply IH. by apply JInv_notify. Qed.

(* ---------- running a job ---------- *)
Lemma run_bg_actor F s o c b ab1 :
  (run_job F s (JSyncBg o c)).(actors) !! b = Some ab1 ->
  exists ab, s.(actors) !! b = Some ab /\
    if decide (b = c)
    then ab1.(ready) = true /\ (forall q, hd_error ab1.(stack) <> Some (FSBwait q)) /\
         (forall j, run_top ab1.(stack) j <-> run_top ab.(stack) j) /\ wp_q ab1.(stack) = wp_q ab.(stack)
    else ab1.(ready) = ab.(ready) /\ ab1.(stack) = ab.(stack).
Proof.
  unfold run_job. set (s1 := upda _ c _). intros Hb.
  assert (H1 : forall x ax1, s1.(actors) !! x = Some ax1 -> exists ax, s.(actors) !! x = Some ax /\ ax1.(stack) = ax.(stack) /\
             ax1.(ready) = if decide (x = c) then true else ax.(ready)).
  { intros x ax1 Hx. subst s1. rewrite actors_upda_lookup in Hx. cbn in Hx. destruct (decide (c = x)) as [<-|Hne].
    - destruct (actors s !! c) as [ax|]; [|done]. injection Hx as <-. exists ax. by rewrite decide_True.
    - exists ax1. by rewrite decide_False. }
  (* when nobody is woken *)
  assert (Hplain : (forall acc, s1.(actors) !! c = Some acc -> forall q, hd_error acc.(stack) <> Some (FSBwait q)) -> s1.(actors) !! b = Some ab1 ->
            exists ab, s.(actors) !! b = Some ab /\ if decide (b = c) then ab1.(ready) = true /\ (forall q, hd_error ab1.(stack) <> Some (FSBwait q)) /\
                 (forall j, run_top ab1.(stack) j <-> run_top ab.(stack) j) /\ wp_q ab1.(stack) = wp_q ab.(stack)
               else ab1.(ready) = ab.(ready) /\ ab1.(stack) = ab.(stack)).
  { intros Hnw Hb'. destruct (H1 b ab1 Hb') as (ab & E1 & E2 & E3). exists ab. split; [done|]. destruct (decide (b = c)) as [->|Hne]; [|done].
    split; [done|]. split; [by apply (Hnw ab1)|]. by rewrite E2. }
  destruct (actors s1 !! c) as [acc|] eqn:Ec; [|apply Hplain; [done|exact Hb]].
  destruct (stack acc) as [|fr rest] eqn:Es; [apply Hplain; [intros ? [= <-] ?; by rewrite Es|exact Hb]|].
  destruct fr; try (apply Hplain; [intros ? [= <-] ?; by rewrite Es|exact Hb]).
  (* c was waiting: it is woken *)
  rewrite actors_setstack_lookup in Hb. destruct (decide (c = b)) as [<-|Hne].
  - rewrite Ec in Hb. cbn in Hb. injection Hb as <-. destruct (H1 c acc Ec) as (ab & E1 & E2 & E3). exists ab. split; [done|]. rewrite decide_True by done.
    rewrite decide_True in E3 by done. cbn. split; [done|]. split; [done|]. rewrite <- E2, Es. split; [|done].
    intros j; split; intros (q' & [H|H]); done.
  - destruct (H1 b ab1 Hb) as (ab & E1 & E2 & E3). exists ab. split; [done|]. rewrite decide_False by done. by rewrite decide_False in E3.
Qed.

Lemma run_top_inj st j j' : run_top st j -> run_top st j' -> j = j'.
Proof. intros (q1 & [H1|H1]) (q2 & [H2|H2]); congruence. Qed.

(* locations of other waiters survive the run of c's job by actor a *)
Lemma located_after_bg F s a ac o c newst w q :
  s.(actors) !! a = Some ac -> run_top ac.(stack) (JSyncBg o c) -> w <> c ->
  located s w q -> located (setstack (run_job F s (JSyncBg o c)) a newst) w q.
Proof.
  intros Ea Hrun Hwc [(qq & o' & G1 & G2)|(x & st & o' & G1 & G2)].
  - left. exists qq, o'. split; [|done]. destruct (run_job_frame F s (JSyncBg o c)) as (A & R & ->). done.
  - right. destruct (decide (x = a)) as [->|Hxa].
    { rewrite stacks_lookup, Ea in G1. injection G1 as <-. pose proof (run_top_inj _ _ _ Hrun G2). congruence. }
    assert (Hx1 : exists ax1, actors (run_job F s (JSyncBg o c)) !! x = Some ax1).
    { apply lookup_lt_is_Some_2. rewrite run_job_len. apply lookup_lt_Some in G1. unfold stacks in G1. by rewrite fmap_length in G1. }
    destruct Hx1 as (ax1 & Ex1). destruct (run_bg_actor F s o c x ax1 Ex1) as (ax & Eax & Hcx).
    rewrite stacks_lookup, Eax in G1. injection G1 as <-.
    exists x, (stack ax1), o'. split.
    + rewrite stacks_setstack, list_lookup_insert_ne by done. by rewrite stacks_lookup, Ex1.
    + destruct (decide (x = c)) as [->|Hxc]; [destruct Hcx as (_ & _ & Hiff & _); by apply Hiff|destruct Hcx as (_ & ->); done].
Qed.

Lemma JInv_run F s a ac j newst :
  JInv s -> s.(actors) !! a = Some ac -> run_top ac.(stack) j ->
  (wp_q newst = None \/ wp_q newst = wp_q ac.(stack)) -> (forall q, hd_error newst <> Some (FSBwait q)) ->
  JInv (setstack (run_job F s j) a newst).
Proof.
  intros HJ Ea Hrun Hwp Hnw.
  assert (Hnotw : not_waiting ac.(stack)) by (destruct Hrun as (q' & [H|H]); destruct (stack ac) as [|[] ?]; done).
  destruct j as [o|o c|o c].
  - (* plain job *)
    assert (HJ1 : JInv (run_job F s (JPlain o))) by (by apply (JInv_same _ s)).
    eapply (JInv_update (run_job F s (JPlain o)) _ a ac newst HJ1); [done|apply stacks_setstack|apply readys_setstack|intros q0 qq0 o0 w0 H1 H2; exists qq0; by split| |done|intros q Hh; by destruct (Hnw q)].
    intros o0 w0 Hr. by pose proof (run_top_inj _ _ _ Hrun Hr).
  - (* the job of a draining sync *)
    assert (HJ1 : JInv (run_job F s (JSyncDrain o c))).
    { unfold run_job. apply (JInv_same _ s); [by rewrite stacks_upda_same|by rewrite readys_upda_same|done|done]. }
    destruct (run_job_self F s (JSyncDrain o c) a ac Ea Hnotw) as (ac1 & Ea1 & Est1).
    eapply (JInv_update _ _ a ac1 newst HJ1); [done|apply stacks_setstack|apply readys_setstack|intros q0 qq0 o0 w0 H1 H2; exists qq0; by split| | |].
    + intros o0 w0 Hr. rewrite Est1 in Hr. by pose proof (run_top_inj _ _ _ Hrun Hr).
    + by rewrite Est1.
    + intros q Hh. by destruct (Hnw q).
  - (* the job of a waiting sync: its caller becomes ready and is woken *)
    intros b ab' Hb. rewrite actors_setstack_lookup in Hb.
    destruct (decide (a = b)) as [<-|Hab].
    + destruct (actors (run_job F s (JSyncBg o c)) !! a) as [aa1|] eqn:Ea1; [|done]. cbn in Hb. injection Hb as <-.
      destruct (run_bg_actor F s o c a aa1 Ea1) as (aa & Eaa & Hcase). rewrite Ea in Eaa. injection Eaa as <-.
      split; cbn.
      * intros q Hq Hrf. destruct (decide (a = c)) as [->|Hac]; [destruct Hcase as (Hr & _); congruence|].
        destruct Hcase as (Hr & Hs). rewrite Hr in Hrf.
        assert (Hq' : wp_q (stack ac) = Some q) by (destruct Hwp as [Hwp|Hwp]; congruence).
        apply (located_after_bg F s a ac o c newst a q Ea Hrun Hac). by apply (j_loc _ _ _ (HJ a ac Ea)).
      * intros q Hh. by destruct (Hnw q).
    + destruct (run_bg_actor F s o c b ab' Hb) as (ab & Eab & Hcase).
      destruct (decide (b = c)) as [->|Hbc].
      * destruct Hcase as (Hr & Hnwc & _ & _). split; [intros q _ Hrf; congruence|intros q Hh; by destruct (Hnwc q)].
      * destruct Hcase as (Hr & Hs). destruct (HJ b ab Eab) as [J1 J2]. split; rewrite Hs, Hr; [|done].
        intros q Hq Hrf. apply (located_after_bg F s a ac o c newst b q Ea Hrun Hbc). by apply J1.
Qed.

(* ---------- pushing the waiter's job, popping a job ---------- *)
Lemma JInv_push s s' a ac q o newst :
  JInv s -> s.(actors) !! a = Some ac ->
  stacks s' = <[a := newst]> (stacks s) -> readys s' = readys s ->
  (forall q0, s'.(queues) !! q0 = if decide (q = q0) then (fun x => x <| jobs := x.(jobs) ++ [JSyncBg o a] |>) <$> (s.(queues) !! q0) else s.(queues) !! q0) ->
  is_Some (s.(queues) !! q) ->
  (forall o0 w0, ~ run_top ac.(stack) (JSyncBg o0 w0)) ->
  wp_q newst = Some q -> (forall q', hd_error newst <> Some (FSBwait q')) ->
  JInv s'.
Proof.
  intros HJ Ea Hst Hr Hq [qq0 Eq0] Hnr Hwp Hnw b ab' Hb.
  assert (Hmono : forall q0 qq o0 w0, s.(queues) !! q0 = Some qq -> JSyncBg o0 w0 ∈ qq.(jobs) -> exists qq', s'.(queues) !! q0 = Some qq' /\ JSyncBg o0 w0 ∈ qq'.(jobs)).
  { intros q0 qq o0 w0 H1 H2. rewrite Hq. case_decide; subst; rewrite H1; cbn; eexists; split; try done. cbn. apply elem_of_app. by left. }
  destruct (actor_after_insert s s' a ac newst b ab' Ea Hst Hr Hb) as (ab & Eb & Hrd & Hstk).
  destruct (HJ b ab Eb) as [J1 J2]. split.
  - intros q1 Hq1 Hrf. rewrite Hstk in Hq1. destruct (decide (a = b)) as [<-|Hne].
    + assert (q1 = q) by congruence. subst q1. left. exists (qq0 <| jobs := jobs qq0 ++ [JSyncBg o a] |>), o. split.
      * rewrite Hq, decide_True by done. by rewrite Eq0.
      * cbn. apply elem_of_app. right. by apply elem_of_list_singleton.
    + rewrite Hrd in Hrf. eapply located_mono; [exact Ea|exact Hst|exact Hmono|intros o0; apply Hnr|]. by apply J1.
  - intros q1 Hh. rewrite Hrd. rewrite Hstk in Hh. destruct (decide (a = b)) as [<-|Hne]; [by destruct (Hnw q1)|by eapply J2].
Qed.

Lemma JInv_pop s s' a ac q j l newst :
  JInv s -> s.(actors) !! a = Some ac ->
  stacks s' = <[a := newst]> (stacks s) -> readys s' = readys s ->
  (forall q0, s'.(queues) !! q0 = if decide (q = q0) then (fun x => x <| jobs := l |>) <$> (s.(queues) !! q0) else s.(queues) !! q0) ->
  (forall qq, s.(queues) !! q = Some qq -> qq.(jobs) = j :: l) ->
  run_top newst j ->
  (forall o0 w0, ~ run_top ac.(stack) (JSyncBg o0 w0)) ->
  (wp_q newst = None \/ wp_q newst = wp_q ac.(stack)) ->
  JInv s'.
Proof.
  intros HJ Ea Hst Hr Hq Hjobs Hrun Hnr Hwp b ab' Hb.
  destruct (actor_after_insert s s' a ac newst b ab' Ea Hst Hr Hb) as (ab & Eb & Hrd & Hstk).
  destruct (HJ b ab Eb) as [J1 J2].
  assert (Hloc : forall w q1, located s w q1 -> located s' w q1).
  { intros w q1 [(qq & o' & G1 & G2)|(x & st & o' & G1 & G2)].
    - destruct (decide (q = q1)) as [<-|Hne].
      + rewrite (Hjobs qq G1) in G2. apply elem_of_cons in G2 as [G2|G2].
        * right. exists a, newst, o'. split; [|by rewrite G2].
          rewrite Hst, list_lookup_insert; [done|]. unfold stacks. rewrite fmap_length. by eapply lookup_lt_Some.
        * left. exists (qq <| jobs := l |>), o'. split; [|done]. rewrite Hq, decide_True by done. by rewrite G1.
      + left. exists qq, o'. split; [|done]. by rewrite Hq, decide_False.
    - right. exists x, st, o'. split; [|done]. rewrite Hst. destruct (decide (a = x)) as [<-|]; [|by rewrite list_lookup_insert_ne].
      exfalso. rewrite stacks_lookup, Ea in G1. injection G1 as <-. by eapply Hnr. }
  split.
  - intros q1 Hq1 Hrf. rewrite Hrd in Hrf. apply Hloc. apply J1; [|done]. rewrite Hstk in Hq1. destruct (decide (a = b)) as [<-|]; [|done].
    rewrite Ea in Eb. injection Eb as <-. destruct Hwp as [Hwp|Hwp]; congruence.
  - intros q1 Hh. rewrite Hrd. rewrite Hstk in Hh. destruct (decide (a = b)) as [<-|]; [|by eapply J2].
    destruct Hrun as (q' & [H|H]); congruence.
Qed.

Lemma JInv_add_actor s s1 new :
  s1.(queues) = s.(queues) -> s1.(actors) = s.(actors) ++ [new] -> wp_q new.(stack) = None -> (forall q, hd_error new.(stack) <> Some (FSBwait q)) ->
  JInv s -> JInv s1.
Proof.
  intros Hq Ha Hwp Hnw HJ b ab Hb. rewrite Ha in Hb.
  assert (Hloc : forall w q, located s w q -> located s1 w q).
  { intros w q [(qq & o & G1 & G2)|(x & st & o & G1 & G2)]; [left; rewrite Hq; eauto|right].
    exists x, st, o. split; [|done]. unfold stacks. rewrite Ha, fmap_app. by apply lookup_app_l_Some. }
  apply lookup_app_Some in Hb as [Hb|[_ Hb]].
  - destruct (HJ b ab Hb) as [J1 J2]. split; [|done]. intros q H1 H2. apply Hloc. by apply J1.
  - destruct (b - length (actors s)); [|done]. cbn in Hb. injection Hb as <-. split; [intros q H; congruence|intros q H; by destruct (Hnw q)].
Qed.

Ltac ob_readys := rewrite readys_setstack; first [reflexivity | by rewrite readys_upda_same].
Ltac ob_mono := let H1 := fresh in let H2 := fresh in intros ?q0 ?qq0 ?o0 ?w0 H1 H2;
  first [ solve [eexists; split; [exact H1 | exact H2]]
        | rewrite ?queues_setstack, ?queues_upda, ?queues_updt; rewrite ?queues_updq; repeat case_decide; subst;
          first [ solve [eexists; split; [exact H1 | exact H2]]
                | rewrite H1; eexists; (split; [reflexivity|]); cbn; first [exact H2 | apply elem_of_app; left; exact H2] ] ].
Ltac ob_nr Est := let H := fresh in intros ?o0 ?w0 (?q' & [H|H]); rewrite Est in H; done.
Ltac ob_wp Est rest := rewrite Est; cbn; first [by left | by right | (destruct rest as [|[] ?]; cbn; first [by left | by right])].

Section JStep.
  Context (T : tables) (F : facts).

  Lemma step_j s a s' : Shape s -> JInv s -> step T F s a = Some s' -> JInv s'.
  Proof.
    intros HS HJ Hstep. unfold step in Hstep.
    destruct (actors s !! a) as [ac|] eqn:Ea; cbn in Hstep; [|congruence].
    destruct (stack ac) as [|fr rest] eqn:Est; [congruence|].
    destruct fr.
    all: cbn beta iota zeta in Hstep.
    all: repeat (first
         [ match type of Hstep with
           | context [queues _ !! ?q] => let E := fresh "Eq" in destruct (queues s !! q) as [qq|] eqn:E; cbn in Hstep; [|congruence]
           | context [threads _ !! ?t] => let E := fresh "Et" in destruct (threads s !! t) as [th|] eqn:E; cbn in Hstep
           end
         | match type of Hstep with context [match ?x with _ => _ end] => let E := fresh "E" in destruct x eqn:E end; cbn in Hstep; try congruence ]).
    all: try discriminate.
    all: try (injection Hstep as <-).
    (* make the stack concrete *)
    all: pose proof (kind_of s a ac HS Ea) as Hkind; rewrite Est in Hkind;
         destruct Hkind as [[Hlt Hok]|(t0 & Hat & Hok)];
         [ apply caller_ok_inv in Hok as [(-> & Hfr)|[(os & -> & Hsf)|(g & os & -> & Hpo)]]; try discriminate;
           try (cbn in Hpo; destruct g; try discriminate; try (apply bool_decide_eq_true in Hpo; subst))
         | apply pool_ok_inv in Hok as [(-> & Hfr)|(-> & Hfr)]; try discriminate; try (cbn in Hfr; apply bool_decide_eq_true in Hfr; subst) ].
    (* the generic case *)
    all: try (eapply (JInv_update s _ _ ac _ HJ Ea);
              [ ob_stacks | ob_readys | ob_mono | ob_nr Est | rewrite Est; cbn; first [by left | by right] | intros ?q' ?Hh; cbn in Hh; try discriminate; done ]; fail).
    (* a new operation: the ready flag is reset, the thread is not a waiter *)
    all: try (lazymatch goal with Est : stack _ = [FTop _] |- _ => idtac end;
              eapply (JInv_update_reset s _ a ac _ HJ Ea);
              [ ob_stacks
              | intros b ab' Hb Hne; rewrite actors_setstack_lookup, decide_False in Hb by done; rewrite actors_upda_lookup, decide_False in Hb by done; eauto
              | done | ob_nr Est | done | intros ?q' ?Hh; cbn in Hh; discriminate ]; fail).
    (* spawn *)
    all: try (lazymatch goal with |- JInv (setstack (_ <| threads := _ |> <| actors := ?A |>) _ _) => idtac end;
          set (s1 := s <| threads := _ |> <| actors := _ |>);
          assert (HJ1 : JInv s1) by (eapply (JInv_add_actor s s1); [done|done|done|done|exact HJ]);
          assert (Ea1 : actors s1 !! a = Some ac) by (subst s1; cbn; by apply lookup_app_l_Some);
          eapply (JInv_update s1 _ _ ac _ HJ1 Ea1);
              [ ob_stacks | ob_readys | ob_mono | ob_nr Est | rewrite Est; cbn; first [by left | by right] | intros ?q' ?Hh; cbn in Hh; try discriminate; done ]; fail).
    (* running a job *)
    all: try (lazymatch goal with |- JInv (setstack (run_job ?F ?s ?j) ?a ?st) =>
              eapply (JInv_run F s a ac j st HJ Ea); [ rewrite Est; eexists; eauto | rewrite Est; cbn; first [by left | by right] | intros ?q' ?Hh; cbn in Hh; discriminate ] end; fail).
    (* taking or claiming a queue: the inner record update does not touch the queues *)
    all: try (eapply (JInv_update s _ _ ac _ HJ Ea);
              [ ob_stacks | ob_readys
              | intros ?q0 ?qq0 ?o0 ?w0 ?H1 ?H2; rewrite queues_setstack, queues_updq; cbn [queues set]; case_decide; subst;
                [ match goal with H : queues _ !! _ = Some _ |- _ => rewrite H end; eexists; (split; [reflexivity|]); cbn; done | eexists; split; [eassumption|done] ]
              | ob_nr Est | rewrite Est; cbn; first [by left | by right] | intros ?q' ?Hh; cbn in Hh; try discriminate; done ]; fail).
    (* FSBpush: the waiter's job is now in the queue *)
    all: try (lazymatch goal with Est : stack _ = FSBpush ?q :: _ |- _ =>
              eapply (JInv_push s _ a ac q (opctr ac) _ HJ Ea);
              [ ob_stacks | ob_readys | obs_q2 | by eexists | ob_nr Est | done | intros ?q' ?Hh; cbn in Hh; discriminate ] end; fail).
    (* a runner pops the next job *)
    all: try (lazymatch goal with |- JInv (setstack (updq _ ?q (fun x => x <| jobs := ?l |>)) _ (?fr ?q' ?j :: _)) =>
              eapply (JInv_pop s _ _ ac q j l _ HJ Ea);
              [ ob_stacks | ob_readys | obs_q2
              | intros ?qq0 ?H; match goal with Eq : queues _ !! _ = Some _ |- _ => rewrite Eq in H; injection H as <-; done end
              | eexists; cbn; eauto | ob_nr Est | rewrite Est; cbn; first [by left | by right] ] end; fail).
    (* reschedule_queue: wake the waiters first *)
    all: try (lazymatch goal with |- JInv (setstack (updq (foldl (notify ?F) ?s ?ws) ?q ?g) ?a ?st) =>
              assert (HJ1 : JInv (foldl (notify F) s ws)) by (by apply JInv_foldl_notify);
              destruct (foldl_notify_self F ws s a ac Ea) as (ac1 & Ea1 & Est1); [by rewrite Est|]; rewrite Est in Est1;
              destruct (foldl_notify_frame F ws s) as (A & Hfr2); rewrite Hfr2 in *;
              eapply (JInv_update _ _ a ac1 _ HJ1 Ea1);
              [ ob_stacks | ob_readys
              | intros ?q0 ?qq0 ?o0 ?w0 ?H1 ?H2; rewrite queues_setstack, queues_updq; cbn [queues set] in *; case_decide; subst;
                [ match goal with H : queues _ !! _ = Some _ |- _ => rewrite H end; eexists; (split; [reflexivity|]); cbn; done | eexists; split; [eassumption|done] ]
              | ob_nr Est1 | rewrite Est1; cbn; first [by left | by right] | intros ?q' ?Hh; cbn in Hh; try discriminate; done ] end; fail).
  Qed.

  Lemma init_j nq mx scripts : JInv (init nq mx scripts).
  Proof.
    intros w ac Hw. unfold init in Hw; cbn in Hw. rewrite list_lookup_fmap in Hw. destruct (scripts !! w); [|done]. injection Hw as <-.
    split; cbn; [intros q H; discriminate|intros q H; discriminate].
  Qed.
End JStep.
