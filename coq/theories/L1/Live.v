From stdpp Require Import list numbers option.
From RecordUpdate Require Import RecordUpdate.
From L1 Require Import Model Own Shape Stuck.

(* ---------- the pool: busy flag, channel and stack of a pool thread go together ---------- *)
Definition is_recv (st : list frame) : bool := match st with [FTrecv _] => true | _ => false end.
Definition pool_state_ok (th : pthread) (st : list frame) : bool :=
  match th.(busy), th.(chan) with
  | false, 0 => is_recv st
  | true, 1 => is_recv st
  | true, 0 => negb (is_recv st)
  | _, _ => false
  end.
Definition PoolInv (s : state) : Prop :=
  forall t th st, s.(threads) !! t = Some th -> stacks s !! (ncallers s + t) = Some st -> pool_state_ok th st = true.

Definition bc (s : state) : list (bool * nat) := (fun th => (th.(busy), th.(chan))) <$> s.(threads).

Lemma PoolInv_view s1 s : stacks s1 = stacks s -> bc s1 = bc s -> length s1.(actors) = length s.(actors) -> PoolInv s -> PoolInv s1.
Proof.
  intros Hst Hbc Hla H t th1 st Ht Hs.
  assert (Hlt : length s1.(threads) = length s.(threads)) by (apply (f_equal length) in Hbc; unfold bc in Hbc; by rewrite !fmap_length in Hbc).
  assert (Hn : ncallers s1 = ncallers s) by (unfold ncallers; lia).
  assert (H' : bc s1 !! t = Some (th1.(busy), th1.(chan))) by (unfold bc; by rewrite list_lookup_fmap, Ht).
  rewrite Hbc in H'. unfold bc in H'. rewrite list_lookup_fmap in H'. destruct (threads s !! t) as [th|] eqn:E; [|done]. injection H' as H1 H2.
  rewrite Hst, Hn in Hs. specialize (H t th st E Hs). unfold pool_state_ok in *. by rewrite <- H1, <- H2.
Qed.

Definition recvs (s : state) : list bool := is_recv <$> stacks s.
Lemma PoolInv_view2 s1 s : recvs s1 = recvs s -> bc s1 = bc s -> PoolInv s ->
  (forall t th st, s1.(threads) !! t = Some th -> stacks s1 !! (ncallers s1 + t) = Some st -> pool_state_ok th st = true).
Proof.
  intros Hr Hbc H t th1 st1 Ht Hs.
  assert (Hla : length s1.(actors) = length s.(actors)).
  { apply (f_equal length) in Hr. unfold recvs, stacks in Hr. by rewrite !fmap_length in Hr. }
  assert (Hlt : length s1.(threads) = length s.(threads)) by (apply (f_equal length) in Hbc; unfold bc in Hbc; by rewrite !fmap_length in Hbc).
  assert (Hn : ncallers s1 = ncallers s) by (unfold ncallers; lia).
  assert (H' : bc s1 !! t = Some (th1.(busy), th1.(chan))) by (unfold bc; by rewrite list_lookup_fmap, Ht).
  rewrite Hbc in H'. unfold bc in H'. rewrite list_lookup_fmap in H'. destruct (threads s !! t) as [th|] eqn:E; [|done]. injection H' as H1 H2.
  assert (Hr' : recvs s1 !! (ncallers s + t) = Some (is_recv st1)) by (unfold recvs; rewrite list_lookup_fmap, <- Hn, Hs; done).
  rewrite Hr in Hr'. unfold recvs in Hr'. rewrite list_lookup_fmap in Hr'. destruct (stacks s !! (ncallers s + t)) as [st|] eqn:Es; [|done].
  injection Hr' as Hr'. specialize (H t th st E Es). unfold pool_state_ok in *. by rewrite <- H1, <- H2, <- Hr'.
Qed.

(* an actor whose new stack is as much of a "recv" stack as the old one *)
Lemma recvs_update s s' a ac newst :
  s.(actors) !! a = Some ac -> stacks s' = <[a := newst]> (stacks s) -> is_recv newst = is_recv ac.(stack) -> recvs s' = recvs s.
Proof.
  intros Ea Hst Hr. unfold recvs. rewrite Hst, list_fmap_insert, Hr. apply list_insert_id. by rewrite list_lookup_fmap, stacks_lookup, Ea.
Qed.

Lemma bc_updt_same s t f : (forall x, (f x).(busy) = x.(busy) /\ (f x).(chan) = x.(chan)) -> bc (updt s t f) = bc s.
Proof.
  intros Hf. unfold bc, updt; cbn. apply list_eq. intros i. rewrite !list_lookup_fmap.
  destruct (decide (t = i)) as [->|]; [rewrite list_lookup_alter|by rewrite list_lookup_alter_ne].
  destruct (threads s !! i); cbn; [|done]. by destruct (Hf p) as [-> ->].
Qed.
Lemma recvs_upda_same s a f : (forall x, (f x).(stack) = x.(stack)) -> recvs (upda s a f) = recvs s.
Proof. intros. unfold recvs. by rewrite stacks_upda_same. Qed.
Lemma recvs_wake s w ac q rest : s.(actors) !! w = Some ac -> ac.(stack) = FSBwait q :: rest -> recvs (setstack s w (FSBwoken q :: rest)) = recvs s.
Proof. intros Ew Est. eapply recvs_update; [done|apply stacks_setstack|by rewrite Est]. Qed.
Lemma recvs_notify F s w : recvs (notify F s w) = recvs s.
Proof.
  unfold notify. set (s1 := if f_sticky_notify F then upda s w (fun x => x <| kicked := true |>) else s).
  assert (H1 : recvs s1 = recvs s) by (subst s1; destruct (f_sticky_notify F); [by apply recvs_upda_same|done]).
  destruct (actors s1 !! w) as [aw|] eqn:Ew; [|done]. destruct (stack aw) as [|[] rest] eqn:Es; try done.
  rewrite <- H1. by eapply recvs_wake.
Qed.
Lemma recvs_foldl_notify F ws s : recvs (foldl (notify F) s ws) = recvs s.
Proof. revert s; induction ws as [|w ws IH]; intros s; cbn; [done|]. by rewrite IH, recvs_notify. Qed.
Lemma recvs_run_job F s j : recvs (run_job F s j) = recvs s.
Proof.
  destruct j as [o|o c|o c]; unfold run_job; [done|by rewrite recvs_upda_same|].
  set (s1 := upda _ c _). assert (H1 : recvs s1 = recvs s) by (subst s1; by rewrite recvs_upda_same).
  destruct (actors s1 !! c) as [ac|] eqn:Ec; [|done]. destruct (stack ac) as [|[] rest] eqn:Es; try done.
  rewrite <- H1. by eapply recvs_wake.
Qed.

Lemma PoolInv_generic s s' :
  (forall t th1 st1, s'.(threads) !! t = Some th1 -> stacks s' !! (ncallers s' + t) = Some st1 ->
     exists th st, s.(threads) !! t = Some th /\ stacks s !! (ncallers s + t) = Some st /\ (pool_state_ok th st = true -> pool_state_ok th1 st1 = true)) ->
  PoolInv s -> PoolInv s'.
Proof. intros H HP t th1 st1 Ht Hs. destruct (H t th1 st1 Ht Hs) as (th & st & H1 & H2 & H3). apply H3. by eapply HP. Qed.
Lemma ncallers_setstack s a st : ncallers (setstack s a st) = ncallers s.
Proof. unfold ncallers. by rewrite length_actors_setstack. Qed.
Lemma ncallers_updt s t f : ncallers (updt s t f) = ncallers s.
Proof. unfold ncallers. by rewrite length_threads_updt. Qed.
Lemma stacks_setstack_lookup s a st b : stacks (setstack s a st) !! b = if decide (a = b) then (fun _ => st) <$> (stacks s !! b) else stacks s !! b.
Proof.
  rewrite stacks_setstack. case_decide; subst.
  - destruct (stacks s !! b) eqn:E; cbn; [rewrite list_lookup_insert; [done|by eapply lookup_lt_Some]|].
    apply lookup_ge_None. rewrite insert_length. by apply lookup_ge_None.
  - by rewrite list_lookup_insert_ne.
Qed.

Section PoolStep.
  Context (T : tables) (F : facts).

  Lemma step_pool s a s' : Shape s -> PoolInv s -> step T F s a = Some s' -> PoolInv s'.
  Proof.
    intros HS HP Hstep. unfold step in Hstep.
    destruct (actors s !! a) as [ac|] eqn:Ea; cbn in Hstep; [|congruence].
    destruct (stack ac) as [|fr rest] eqn:Est; [congruence|].
    pose proof (kind_of s a ac HS Ea) as Hkind. rewrite Est in Hkind.
    destruct fr.
    all: cbn beta iota zeta in Hstep.
    all: repeat (first
         [ match type of Hstep with
           | context [queues _ !! ?q] => let E := fresh "Eq" in destruct (queues s !! q) as [qq|] eqn:E; cbn in Hstep; [|congruence]
           | context [threads _ !! ?t] => let E := fresh "Et" in destruct (threads s !! t) as [th|] eqn:E; cbn in Hstep
           end
         | match type of Hstep with context [match ?x with _ => _ end] => let E := fresh "E" in destruct x eqn:E end; cbn in Hstep; try congruence ]).
    all: try discriminate.
    all: try (injection Hstep as <-).
    (* steps that keep (busy, chan) of every thread and the recv-ness of every stack *)
    all: try (intros t1 th1 st1; eapply PoolInv_view2; [ eapply recvs_update; [exact Ea | ob_stacks | cbn; by rewrite Est] | first [done | by apply bc_updt_same] | exact HP ]; fail).
    all: destruct Hkind as [[Hlt Hok]|(t0 & Hat & Hok)];
         [ apply caller_ok_inv in Hok as [(-> & Hfr)|[(os & -> & Hsf)|(g & os & -> & Hpo)]]; try discriminate;
           try (cbn in Hpo; destruct g; try discriminate; try (apply bool_decide_eq_true in Hpo; subst))
         | apply pool_ok_inv in Hok as [(-> & Hfr)|(-> & Hfr)]; try discriminate; try (cbn in Hfr; apply bool_decide_eq_true in Hfr; subst) ].
    all: try subst a.
    all: try (intros t1 th1 st1; eapply PoolInv_view2; [ eapply recvs_update; [exact Ea | ob_stacks | cbn; by rewrite Est] | first [done | by apply bc_updt_same] | exact HP ]; fail).
    (* run_job / notify first *)
    all: try (lazymatch goal with |- PoolInv (setstack (run_job ?F ?s ?j) ?a ?st) =>
              destruct (run_job_self F s j a ac Ea) as (ac1 & Ea1 & Est1); [by rewrite Est|];
              intros t1 th1 st1; eapply (PoolInv_view2 _ s);
              [ etrans; [eapply recvs_update; [exact Ea1 | ob_stacks | cbn; by rewrite Est1, Est]|apply recvs_run_job]
              | destruct (run_job_frame F s j) as (A & R & ->); done | exact HP ] end; fail).
    all: try (lazymatch goal with |- PoolInv (setstack (updq (foldl (notify ?F) ?s ?ws) _ _) ?a ?st) =>
              destruct (foldl_notify_self F ws s a ac Ea) as (ac1 & Ea1 & Est1); [by rewrite Est|];
              intros t1 th1 st1; eapply (PoolInv_view2 _ s);
              [ etrans; [eapply recvs_update; [exact Ea1 | ob_stacks | cbn; by rewrite Est1, Est]|apply recvs_foldl_notify]
              | destruct (foldl_notify_frame F ws s) as (A & ->); done | exact HP ] end; fail).
    (* the scan claims a dormant thread *)
    1-2: (apply (PoolInv_generic s); [|exact HP]; intros t1 th1 st1 Ht1 Hs1;
          rewrite threads_setstack, threads_updt_lookup in Ht1; cbn [threads set] in Ht1;
          rewrite ncallers_setstack, ncallers_updt, stacks_setstack_lookup in Hs1;
          change (ncallers (s <| threads_held := None |>)) with (ncallers s) in Hs1;
          change (stacks (updt (s <| threads_held := None |>) i _)) with (stacks s) in Hs1;
          rewrite decide_False in Hs1 by lia;
          destruct (decide (i = t1)) as [<-|Hne];
          [ rewrite Et in Ht1; cbn in Ht1; injection Ht1 as <-; exists th, st1; split; [done|]; split; [done|];
            unfold pool_state_ok; cbn; rewrite E1; destruct (chan th); [done|done]
          | exists th1, st1; done ]).
    (* spawning *)
    1-2: (pose proof HS as [L _ _ _ _ _ _];
          assert (Hlen : length (actors s) = ncallers s + length (threads s)) by (unfold ncallers; lia);
          intros t1 th1 st1 Ht1 Hs1;
          rewrite threads_setstack in Ht1; cbn [threads set] in Ht1;
          rewrite ncallers_setstack, stacks_setstack_lookup in Hs1;
          match type of Hs1 with context [ncallers ?s1] => assert (Hn1 : ncallers s1 = ncallers s) by (unfold ncallers; cbn; rewrite !app_length; cbn; lia); rewrite Hn1 in Hs1 end;
          rewrite decide_False in Hs1 by lia;
          unfold stacks in Hs1; cbn [actors set] in Hs1; rewrite fmap_app in Hs1;
          destruct (decide (t1 < length (threads s))) as [Hl1|Hg1];
          [ rewrite lookup_app_l in Ht1 by done; rewrite lookup_app_l in Hs1 by (rewrite fmap_length; lia); by eapply HP
          | rewrite lookup_app_r in Ht1 by lia; rewrite lookup_app_r in Hs1 by (rewrite fmap_length; lia); rewrite fmap_length in Hs1;
            destruct (t1 - length (threads s)) eqn:Ed; [|done];
            replace (ncallers s + t1 - length (actors s)) with 0 in Hs1 by lia;
            cbn in Ht1, Hs1; injection Ht1 as <-; injection Hs1 as <-; done ]).
    (* FTrecv takes the closure; FTrelnone goes dormant *)
    2: { pose proof HS as [L _ _ _ _ _ _].
         assert (Hth : exists th, threads s !! t0 = Some th) by (apply lookup_lt_is_Some_2; apply lookup_lt_Some in Ea; unfold ncallers in *; lia).
         destruct Hth as [th Et].
         apply (PoolInv_generic s); [|exact HP]. intros t1 th1 st1 Ht1 Hs1.
         rewrite threads_setstack, threads_updt_lookup in Ht1.
         rewrite ncallers_setstack, ncallers_updt, stacks_setstack_lookup in Hs1.
         change (stacks (updt s t0 _)) with (stacks s) in Hs1.
         destruct (decide (t0 = t1)) as [<-|Hne].
         - rewrite decide_True in Hs1 by done. rewrite Et in Ht1. cbn in Ht1. injection Ht1 as <-.
           rewrite stacks_lookup, Ea in Hs1. cbn in Hs1. injection Hs1 as <-.
           exists th, (stack ac). split; [done|]. split; [by rewrite stacks_lookup, Ea|]. rewrite Est. unfold pool_state_ok; cbn.
           destruct (busy th), (chan th) as [|[|?]]; done.
         - rewrite decide_False in Hs1 by lia. exists th1, st1. done. }
    apply (PoolInv_generic s); [|exact HP]. intros t1 th1 st1 Ht1 Hs1.
    rewrite threads_setstack, threads_updt_lookup in Ht1.
    rewrite ncallers_setstack, ncallers_updt, stacks_setstack_lookup in Hs1.
    change (stacks (updt s t0 _)) with (stacks s) in Hs1.
    destruct (decide (t0 = t1)) as [<-|Hne].
    - rewrite decide_True in Hs1 by done. rewrite Et in Ht1. cbn in Ht1. injection Ht1 as <-.
      rewrite stacks_lookup, Ea in Hs1. cbn in Hs1. injection Hs1 as <-.
      exists th, (stack ac). split; [done|]. split; [by rewrite stacks_lookup, Ea|]. rewrite Est. unfold pool_state_ok; cbn.
      rewrite E. destruct (busy th), n as [|?]; done.
    - rewrite decide_False in Hs1 by lia. exists th1, st1. done.
  Qed.
End PoolStep.

(* ====================================================================== *)
(* the tables restricted to the three states the prototype can reach *)
Record core_tables (T : tables) : Prop := {
  k_desync_i : T.(t_desync) Idle = (Pending, DASchedule);
  k_desync_p : T.(t_desync) Pending = (Pending, DANone);
  k_desync_r : T.(t_desync) Running = (Running, DANone);
  k_sync_i : forall e, T.(t_sync) Idle e = (Running, if e then SAImmediate else SADrain);
  k_sync_p : forall e, T.(t_sync) Pending e = (Running, SADrain);
  k_sync_r : forall e, T.(t_sync) Running e = (Running, SABackground);
  k_try_i : forall e, T.(t_trysync) Idle e = if e then (Running, TAImmediate) else (Idle, TABusy);
  k_try_p : forall e, T.(t_trysync) Pending e = (Pending, TABusy);
  k_try_r : forall e, T.(t_trysync) Running e = (Running, TABusy);
  k_resched_i : forall ne, T.(t_resched) Idle ne = if ne then (Pending, true) else (Idle, false);
  k_resched_p : forall ne, T.(t_resched) Pending ne = (Pending, false);
  k_resched_r : forall ne, T.(t_resched) Running ne = (Running, false);
  k_next_i : T.(t_next) Idle = None;
  k_next_p : T.(t_next) Pending = Some Running;
  k_next_r : T.(t_next) Running = None;
  k_claim_i : T.(t_claim) Idle = Some Running;
  k_claim_p : T.(t_claim) Pending = Some Running;
  k_claim_r : T.(t_claim) Running = None;
  k_deq_i : T.(t_dequeue_refuses) Idle = false;
  k_deq_p : T.(t_dequeue_refuses) Pending = false;
  k_deq_r : T.(t_dequeue_refuses) Running = false;
  k_fin : forall e, T.(t_drain_fin) Running e = if e then (Idle, true) else (Running, false);
}.
Lemma fixed_core : core_tables (fixed_trysync orig_tables).
Proof. split; try done; by intros []. Qed.

Definition core_state (st : qstate) : Prop := st = Idle \/ st = Pending \/ st = Running.
Definition has_top (s : state) (fr : frame) : Prop := exists b st, stacks s !! b = Some st /\ hd_error st = Some fr.

Record QClauses (s : state) (q : nat) (qq : queue) : Prop := {
  qc_core : core_state qq.(qs);
  qc_pending : qq.(qs) = Pending -> qq.(jobs) <> [] /\ (q ∈ s.(sched) \/ has_top s (FD2 q) \/ has_top s (FRQ2 q));
  qc_idle : qq.(qs) = Idle -> qq.(jobs) <> [] -> has_top s (FRQ1 q);
}.
Definition QInv (s : state) : Prop := forall q qq, s.(queues) !! q = Some qq -> QClauses s q qq.

(* witnesses: the three frames that carry responsibility for a queue *)
Definition wit (st : list frame) : option frame :=
  match st with (FD2 q as f) :: _ | (FRQ2 q as f) :: _ | (FRQ1 q as f) :: _ => Some f | _ => None end.
Definition is_wit (fr : frame) : bool := match fr with FD2 _ | FRQ2 _ | FRQ1 _ => true | _ => false end.

Lemma has_top_other s s' a ac newst fr :
  s.(actors) !! a = Some ac -> stacks s' = <[a := newst]> (stacks s) -> hd_error ac.(stack) <> Some fr -> has_top s fr -> has_top s' fr.
Proof.
  intros Ea Hst Hne (b & st & Hb & Hh). exists b, st. split; [|done]. rewrite Hst.
  destruct (decide (a = b)) as [->|]; [|by rewrite list_lookup_insert_ne].
  rewrite stacks_lookup, Ea in Hb. cbn in Hb. injection Hb as <-. done.
Qed.
Lemma has_top_new s s' a ac newst fr :
  s.(actors) !! a = Some ac -> stacks s' = <[a := newst]> (stacks s) -> hd_error newst = Some fr -> has_top s' fr.
Proof.
  intros Ea Hst Hh. exists a, newst. split; [|done]. rewrite Hst, list_lookup_insert; [done|].
  unfold stacks. rewrite fmap_length. by eapply lookup_lt_Some.
Qed.

Lemma QInv_update s s' a ac q g newst :
  QInv s -> s.(actors) !! a = Some ac ->
  stacks s' = <[a := newst]> (stacks s) ->
  (forall q', s'.(queues) !! q' = if decide (q = q') then g <$> (s.(queues) !! q') else s.(queues) !! q') ->
  (forall q', q' <> q -> q' ∈ s.(sched) -> q' ∈ s'.(sched)) ->
  (forall f, hd_error ac.(stack) = Some f -> is_wit f = true -> f = FD2 q \/ f = FRQ2 q \/ f = FRQ1 q) ->
  (forall qq, s.(queues) !! q = Some qq -> QClauses s q qq -> QClauses s' q (g qq)) ->
  QInv s'.
Proof.
  intros HQ Ea Hst Hq Hsch Hwit Hthis q' qq' Hqq'. rewrite Hq in Hqq'. destruct (decide (q = q')) as [<-|Hne].
  - destruct (queues s !! q) as [qq|] eqn:E; [|done]. injection Hqq' as <-. apply Hthis; [done|]. by apply HQ.
  - destruct (HQ q' qq' Hqq') as [C1 C2 C3].
    assert (Hoth : forall f, (f = FD2 q' \/ f = FRQ2 q' \/ f = FRQ1 q') -> has_top s f -> has_top s' f).
    { intros f Hf. eapply has_top_other; [done|done|]. intros Hh.
      assert (Hw : is_wit f = true) by (destruct Hf as [-> | [-> | ->]]; done).
      destruct (Hwit f Hh Hw) as [H1 | [H1 | H1]]; destruct Hf as [H2 | [H2 | H2]]; congruence. }
    split; [done| |].
    + intros Hp. destruct (C2 Hp) as [Hj Hs]. split; [done|]. destruct Hs as [Hs | [Hs | Hs]].
      * left. by apply Hsch.
      * right; left. apply Hoth; [|done]. by left.
      * right; right. apply Hoth; [|done]. right; by left.
    + intros Hi Hj. apply Hoth; [|by apply C3]. right; by right.
Qed.

(* steps that touch neither queues nor schedule nor witnesses *)
Lemma QInv_noq s s' a ac newst :
  QInv s -> s.(actors) !! a = Some ac -> stacks s' = <[a := newst]> (stacks s) ->
  s'.(queues) = s.(queues) -> (forall q', q' ∈ s.(sched) -> q' ∈ s'.(sched)) ->
  wit ac.(stack) = None ->
  QInv s'.
Proof.
  intros HQ Ea Hst Hq Hsch Hw.
  eapply (QInv_update s s' a ac 0 id newst); try done.
  - intros q'. rewrite Hq. case_decide; [|done]. by destruct (queues s !! q').
  - intros q' _. apply Hsch.
  - intros f Hh Hf. destruct (stack ac) as [|f' r]; [done|]. injection Hh as ->. by destruct f.
  - intros qq Hqq [C1 C2 C3]. cbn.
    assert (Hoth : forall f, is_wit f = true -> has_top s f -> has_top s' f).
    { intros f Hf. eapply has_top_other; [done|done|]. intros Hh. destruct (stack ac) as [|f' r]; [done|]. injection Hh as ->. by destruct f. }
    split; [done| |].
    + intros Hp. destruct (C2 Hp) as [Hj Hs]. split; [done|]. destruct Hs as [Hs | [Hs | Hs]].
      * left. by apply Hsch.
      * right; left. by apply Hoth.
      * right; right. by apply Hoth.
    + intros Hi Hj. apply Hoth; [done|]. by apply C3.
Qed.

Lemma QInv_same s1 s : stacks s1 = stacks s -> s1.(queues) = s.(queues) -> s1.(sched) = s.(sched) -> QInv s -> QInv s1.
Proof.
  intros Hst Hq Hs HQ q qq Hqq. rewrite Hq in Hqq. destruct (HQ q qq Hqq) as [C1 C2 C3].
  assert (Ht : forall f, has_top s f -> has_top s1 f) by (intros f (b & st & H1 & H2); exists b, st; by rewrite Hst).
  split; [done| |].
  - intros Hp. destruct (C2 Hp) as [Hj Hx]. split; [done|]. rewrite Hs. destruct Hx as [?|[?|?]]; eauto.
  - intros Hi Hj. apply Ht. by apply C3.
Qed.
Lemma QInv_wake s w ac q rest : QInv s -> s.(actors) !! w = Some ac -> ac.(stack) = FSBwait q :: rest -> QInv (setstack s w (FSBwoken q :: rest)).
Proof. intros HQ Ew Est. eapply (QInv_noq s _ w ac); try done; [apply stacks_setstack|by rewrite Est]. Qed.
Lemma QInv_notify F s w : QInv s -> QInv (notify F s w).
Proof.
  intros HQ. unfold notify. set (s1 := if f_sticky_notify F then upda s w (fun x => x <| kicked := true |>) else s).
  assert (H1 : QInv s1) by (subst s1; destruct (f_sticky_notify F); [apply (QInv_same _ s); try done; by apply stacks_upda_same|done]).
  destruct (actors s1 !! w) as [aw|] eqn:Ew; [|done]. destruct (stack aw) as [|[] rest] eqn:Es; try done. by eapply QInv_wake.
Qed.
Lemma QInv_foldl_notify F ws s : QInv s -> QInv (foldl (notify F) s ws).
Proof. revert s; induction ws as [|w ws IH]; intros s HQ; cbn; [done|]. apply IH. by apply QInv_notify. Qed.
Lemma QInv_run_job F s j : QInv s -> QInv (run_job F s j).
Proof.
  intros HQ. destruct j as [o|o c|o c]; unfold run_job.
  - by apply (QInv_same _ s).
  - apply (QInv_same _ s); try done. by rewrite stacks_upda_same.
  - set (s1 := upda _ c _). assert (H1 : QInv s1) by (subst s1; apply (QInv_same _ s); try done; by rewrite stacks_upda_same).
    destruct (actors s1 !! c) as [ac|] eqn:Ec; [|done]. destruct (stack ac) as [|[] rest] eqn:Es; try done. by eapply QInv_wake.
Qed.

(* ---------- re-establishing the clauses of the queue a step touches ---------- *)
Lemma QC_running s q qq : qq.(qs) = Running -> QClauses s q qq.
Proof. intros H. split; [right; by right| |]; rewrite H; done. Qed.
Lemma QC_keep s s' q qq qq' :
  qq'.(qs) = qq.(qs) -> (qq.(jobs) = [] <-> qq'.(jobs) = []) ->
  (q ∈ s.(sched) -> q ∈ s'.(sched)) ->
  (forall f, (f = FD2 q \/ f = FRQ2 q \/ f = FRQ1 q) -> has_top s f -> has_top s' f) ->
  QClauses s q qq -> QClauses s' q qq'.
Proof.
  intros Hs Hj Hsch Ht [C1 C2 C3]. split; rewrite Hs; [done| |].
  - intros Hp. destruct (C2 Hp) as [Hn Hx]. split; [by rewrite <- Hj|]. destruct Hx as [?|[?|?]]; [by left; auto|right; left|right; right]; apply Ht; auto.
  - intros Hi Hn. apply Ht; [auto|]. apply C3; [done|]. by rewrite Hj.
Qed.

Lemma QC_pending_keep s s' q qq qq' :
  qq.(qs) = Pending -> qq'.(qs) = Pending -> (qq.(jobs) <> [] -> qq'.(jobs) <> []) ->
  (q ∈ s.(sched) -> q ∈ s'.(sched)) ->
  (forall f, (f = FD2 q \/ f = FRQ2 q) -> has_top s f -> has_top s' f) ->
  QClauses s q qq -> QClauses s' q qq'.
Proof.
  intros Hs Hs' Hj Hsch Ht [C1 C2 C3]. split; rewrite Hs'; [right; by left| |done].
  intros _. destruct (C2 Hs) as [Hn Hx]. split; [by apply Hj|]. destruct Hx as [?|[?|?]]; [by left; auto|right; left|right; right]; apply Ht; auto.
Qed.

Lemma QC_idle_keep s s' q qq qq' :
  qq.(qs) = Idle -> qq'.(qs) = Idle -> (qq'.(jobs) <> [] -> qq.(jobs) <> []) ->
  (has_top s (FRQ1 q) -> has_top s' (FRQ1 q)) ->
  QClauses s q qq -> QClauses s' q qq'.
Proof.
  intros Hs Hs' Hj Ht [C1 C2 C3]. split; rewrite Hs'; [by left|done|]. intros _ Hn. apply Ht, C3; [done|by apply Hj].
Qed.

Lemma QInv_add_actor s s1 new :
  s1.(queues) = s.(queues) -> s1.(sched) = s.(sched) -> stacks s1 = stacks s ++ [new] -> QInv s -> QInv s1.
Proof.
  intros Hq Hs Hst HQ q qq Hqq. rewrite Hq in Hqq. destruct (HQ q qq Hqq) as [C1 C2 C3].
  assert (Ht : forall f, has_top s f -> has_top s1 f).
  { intros f (b & st & H1 & H2). exists b, st. split; [|done]. rewrite Hst. by apply lookup_app_l_Some. }
  split; [done| |].
  - intros Hp. destruct (C2 Hp) as [Hj Hx]. split; [done|]. rewrite Hs. destruct Hx as [?|[?|?]]; eauto.
  - intros Hi Hj. apply Ht. by apply C3.
Qed.

Ltac ob_sched_same := intros; cbn; try done; try (apply elem_of_app; by left).
Ltac ob_wit Est := intros f Hh Hf; rewrite Est in Hh; cbn in Hh; injection Hh as <-; cbn in Hf; try discriminate; eauto.
Ltac ob_q_id := intros ?q'; cbn; case_decide; [by match goal with |- context [queues ?s !! ?q] => destruct (queues s !! q) end|done].
(* apply QInv_update with the queue-update function read off the goal *)
Ltac q_update HQ Ea q :=
  lazymatch goal with
  | |- QInv (setstack (updq (updq _ _ ?f1) _ ?f2) ?a _) => eapply (QInv_update _ _ a _ q (fun x => f2 (f1 x)) _ HQ Ea)
  | |- QInv (setstack (updq _ _ ?f) ?a _) => eapply (QInv_update _ _ a _ q f _ HQ Ea)
  | |- QInv (setstack (upda (updq _ _ ?f) _ _) ?a _) => eapply (QInv_update _ _ a _ q f _ HQ Ea)
  | |- QInv (setstack _ ?a _) => eapply (QInv_update _ _ a _ q (fun x => x) _ HQ Ea)
  end.
Ltac tops_other Ea Est := intros f Hf Ht; eapply has_top_other; [exact Ea|ob_stacks| |exact Ht]; rewrite Est; cbn; destruct Hf as [-> | [-> | ->]]; congruence.

Section QStep.
  Context (T : tables) (F : facts) (HK : core_tables T) (HT : own_conditions T).

  Lemma step_q s a s' : Shape s -> Inv s -> QInv s -> step T F s a = Some s' -> QInv s'.
  Proof.
    intros HS HI HQ Hstep. unfold step in Hstep.
    destruct (actors s !! a) as [ac|] eqn:Ea; cbn in Hstep; [|congruence].
    destruct (stack ac) as [|fr rest] eqn:Est; [congruence|].
    pose proof (fun q' => stack_cnt_self s a ac q' Ea) as Hold. rewrite Est in Hold.
    destruct fr.
    all: cbn beta iota zeta in Hstep.
    all: repeat (first
         [ match type of Hstep with
           | context [queues _ !! ?q] => let E := fresh "Eq" in destruct (queues s !! q) as [qq|] eqn:E; cbn in Hstep; [|congruence]
           | context [threads _ !! ?t] => let E := fresh "Et" in destruct (threads s !! t) as [th|] eqn:E; cbn in Hstep
           end
         | match type of Hstep with context [match ?x with _ => _ end] => let E := fresh "E" in destruct x eqn:E end; cbn in Hstep; try congruence ]).
    all: try discriminate.
    all: try (injection Hstep as <-).
    (* steps that touch neither queues nor witnesses *)
    all: try (eapply (QInv_noq s _ a ac _ HQ Ea); [ ob_stacks | done | ob_sched_same | by rewrite Est ]; fail).
    (* spawn *)
    all: try (lazymatch goal with |- QInv (setstack (_ <| threads := _ |> <| actors := ?A |>) _ _) => idtac end;
          set (s1 := s <| threads := _ |> <| actors := _ |>);
          assert (HQ1 : QInv s1) by (eapply (QInv_add_actor s s1); [done|done| |exact HQ]; unfold stacks; subst s1; cbn; by rewrite fmap_app);
          assert (Ea1 : actors s1 !! a = Some ac) by (subst s1; cbn; by apply lookup_app_l_Some);
          eapply (QInv_noq s1 _ a ac _ HQ1 Ea1); [ ob_stacks | done | ob_sched_same | by rewrite Est ]; fail).
    (* desync push *)
    all: try (lazymatch goal with Est : stack _ = FD1 ?q :: _ |- _ => idtac end;
          pose proof (HQ q qq Eq) as HC; pose proof (qc_core _ _ _ HC) as C1;
          q_update HQ Ea q; [ ob_stacks | obs_q2 | ob_sched_same | ob_wit Est | ];
          intros qq0 Hqq0 HC0; rewrite Eq in Hqq0; injection Hqq0 as <-;
          destruct C1 as [Hc|[Hc|Hc]]; rewrite Hc in E;
          rewrite ?(k_desync_i _ HK), ?(k_desync_p _ HK), ?(k_desync_r _ HK) in E; simplify_eq;
          first
          [ (* the queue ends up Running *) solve [apply QC_running; by cbn]
          | (* Idle -> Pending, witness FD2 *)
            solve [split; cbn; [right; by left | intros _; split; [by destruct (jobs qq)|]; right; left; eapply has_top_new; [exact Ea|ob_stacks|done] | done ]]
          | (* Pending stays Pending *)
            solve [eapply (QC_keep s _ q qq); [by cbn; rewrite Hc | cbn; split; [intros H; by rewrite H in *; destruct (qc_pending _ _ _ HC0 Hc) | by destruct (jobs qq)] | done | tops_other Ea Est | exact HC0 ]] ]; fail).
    (* every other step that touches one queue *)
    all: try (
          match goal with Eq : queues _ !! ?q = Some ?qq |- _ =>
            pose proof (HQ q qq Eq) as HC; pose proof (qc_core _ _ _ HC) as C1;
            (* the runner's queue is Running *)
            try (assert (Hrun : qs qq = Running) by (eapply (runner_owns s a q qq); [exact HI| |exact Eq]; rewrite Hold; cbn [cnt owns_b]; rewrite bool_decide_true by done; done));
            q_update HQ Ea q;
            [ ob_stacks | first [obs_q2 | ob_q_id]
            | intros q' Hne Hin; cbn; first [done | apply elem_of_app; by left | apply elem_of_list_filter; by split
                                            | match goal with E0 : sched _ = _ :: _ |- _ => rewrite E0 in Hin; apply elem_of_cons in Hin as [->|Hin]; done end ]
            | ob_wit Est | ];
            intros qq0 Hqq0 HC0; rewrite Eq in Hqq0; injection Hqq0 as <-;
            destruct C1 as [Hc|[Hc|Hc]]; rewrite ?Hc in *; try discriminate;
            rewrite ?(k_sync_i _ HK), ?(k_sync_p _ HK), ?(k_sync_r _ HK), ?(k_try_i _ HK), ?(k_try_p _ HK), ?(k_try_r _ HK),
                    ?(k_claim_i _ HK), ?(k_claim_p _ HK), ?(k_claim_r _ HK), ?(k_next_i _ HK), ?(k_next_p _ HK), ?(k_next_r _ HK),
                    ?(k_deq_i _ HK), ?(k_deq_p _ HK), ?(k_deq_r _ HK), ?(k_fin _ HK), ?(k_resched_i _ HK), ?(k_resched_p _ HK), ?(k_resched_r _ HK) in *;
            repeat match goal with H : context [if ?b then _ else _] |- _ => destruct b eqn:? end; simplify_eq;
            first
            [ solve [apply QC_running; by cbn]
            | (* released: Idle, and this thread is about to reschedule *)
              solve [split; cbn; [by left | done | intros _ _; eapply has_top_new; [exact Ea|ob_stacks|done]]]
            | (* unchanged *)
              solve [eapply (QC_keep s _ q qq); [by cbn; rewrite ?Hc | cbn; first [done | split; [intros H; by rewrite H in *; destruct (qc_pending _ _ _ HC0 Hc) | by destruct (jobs qq)]] | cbn; first [done | intros; apply elem_of_app; by left] | tops_other Ea Est | exact HC0 ]] ]
          end; fail).
    (* releases by a foreground runner: Idle, and FRQ1 is on top *)
    all: try (lazymatch goal with
              | Est : stack _ = FSIidle ?q :: _ |- _ => q_update HQ Ea q | Est : stack _ = FSDidle ?q :: _ |- _ => q_update HQ Ea q
              | Est : stack _ = FSBstealidle ?q :: _ |- _ => q_update HQ Ea q end;
              [ ob_stacks | obs_q2 | ob_sched_same | ob_wit Est | ];
              intros qq0 Hqq0 HC0; split; cbn; [by left | done | intros _ _; eapply has_top_new; [exact Ea|ob_stacks|done]]; fail).
    (* FD2 / FRQ2: the witness pushes the queue on the schedule *)
    all: try (lazymatch goal with Est : stack _ = FD2 ?q :: _ |- _ => q_update HQ Ea q | Est : stack _ = FRQ2 ?q :: _ |- _ => q_update HQ Ea q end;
              [ ob_stacks | ob_q_id | ob_sched_same | ob_wit Est | ];
              intros qq0 Hqq0 [C1 C2 C3]; cbn; split; [done | | ];
              [ intros Hp; destruct (C2 Hp) as [Hj _]; split; [done|]; left; cbn; apply elem_of_app; right; by apply elem_of_list_singleton
              | intros Hi Hj; eapply has_top_other; [exact Ea|ob_stacks|by rewrite Est|by apply C3] ]; fail).
    (* run_job first, then nothing else changes *)
    all: try (lazymatch goal with |- QInv (setstack (run_job ?F ?s ?j) ?a ?st) =>
              assert (HQ1 : QInv (run_job F s j)) by (by apply QInv_run_job);
              destruct (run_job_self F s j a ac Ea) as (ac1 & Ea1 & Est1); [by rewrite Est|];
              destruct (run_job_frame F s j) as (A & R & Hfr); rewrite Hfr in *;
              eapply (QInv_noq _ _ a ac1 _ HQ1 Ea1); [ ob_stacks | done | ob_sched_same | by rewrite Est1, Est ] end; fail).
    (* FSDpush: the runner pushes its own job; FSBreg / FSBdone only touch the waiter list *)
    all: try (lazymatch goal with Est : stack _ = FSDpush ?q :: _ |- _ => q_update HQ Ea q end;
              [ ob_stacks | obs_q2 | ob_sched_same | ob_wit Est | ];
              intros qq0 Hqq0 HC0; apply QC_running; cbn;
              eapply (runner_owns s a _ qq0); [exact HI| |exact Hqq0]; rewrite Hold; cbn [cnt owns_b]; rewrite bool_decide_true by done; done).
    all: try (lazymatch goal with Est : stack _ = FSBreg ?q :: _ |- _ => q_update HQ Ea q | Est : stack _ = FSBdone ?q :: _ |- _ => q_update HQ Ea q end;
              [ ob_stacks | obs_q2 | ob_sched_same | ob_wit Est | ];
              intros qq0 Hqq0 HC0; eapply (QC_keep s _ _ qq0); [done | done | done | tops_other Ea Est | exact HC0 ]; fail).
    (* FSBpush when the queue is Idle: the job is pushed and this thread reschedules *)
    all: try (lazymatch goal with Est : stack _ = FSBpush ?q :: _ |- _ => q_update HQ Ea q end;
              [ ob_stacks | obs_q2 | ob_sched_same | ob_wit Est | ];
              intros qq0 Hqq0 HC0; rewrite Eq in Hqq0; injection Hqq0 as <-;
              destruct (qs qq) eqn:Hi; try discriminate;
              split; cbn; rewrite ?Hi; [by left | done | intros _ _; eapply has_top_new; [exact Ea|ob_stacks|done]]; fail).
    (* FROdeq: the frame below is the runner of the same queue *)
    all: try (lazymatch goal with Est : stack _ = FROdeq ?q :: _ |- _ => idtac end;
              pose proof (kind_of s a ac HS Ea) as Hkind; rewrite Est in Hkind;
              destruct Hkind as [[Hlt Hok]|(t0 & Hat & Hok)]; [|apply pool_ok_inv in Hok as [(_ & ?)|(_ & ?)]; done];
              apply caller_ok_inv in Hok as [(-> & ?)|[(os & -> & ?)|(g & os & -> & Hpo)]]; try done;
              cbn in Hpo; destruct g; try discriminate; apply bool_decide_eq_true in Hpo; subst;
              q_update HQ Ea q; [ ob_stacks | obs_q2 | ob_sched_same | ob_wit Est | ];
              intros qq0 Hqq0 HC0; apply QC_running; cbn;
              eapply (runner_owns s a _ qq0); [exact HI| |exact Hqq0]; rewrite Hold; cbn [cnt owns_b]; rewrite bool_decide_true by done; done).
    1: { pose proof (kind_of s a ac HS Ea) as Hkind; rewrite Est in Hkind.
         destruct Hkind as [[Hlt Hok]|(t0 & Hat & Hok)]; [|apply pool_ok_inv in Hok as [(_ & ?)|(_ & ?)]; done].
         apply caller_ok_inv in Hok as [(-> & ?)|[(os & -> & ?)|(g & os & -> & Hpo)]]; try done.
         cbn in Hpo; destruct g; try discriminate; apply bool_decide_eq_true in Hpo; subst.
         all: (q_update HQ Ea q0; [ ob_stacks | obs_q2 | ob_sched_same | ob_wit Est | ];
              intros qq0 Hqq0 HC0; apply QC_running; cbn;
              eapply (runner_owns s a _ qq0); [exact HI| |exact Hqq0]; rewrite Hold; cbn [cnt owns_b]; rewrite bool_decide_true by done; done). }
    (* FRQ1: reschedule_queue after waking the waiters *)
    all: try (lazymatch goal with |- QInv (setstack (updq (foldl (notify ?F) ?s ?ws) ?q ?g) ?a ?st) =>
              assert (HQ1 : QInv (foldl (notify F) s ws)) by (by apply QInv_foldl_notify);
              destruct (foldl_notify_self F ws s a ac Ea) as (ac1 & Ea1 & Est1); [by rewrite Est|]; rewrite Est in Est1;
              destruct (foldl_notify_frame F ws s) as (A & Hfr); rewrite Hfr in *;
              pose proof (HQ1 q qq Eq) as HC; pose proof (qc_core _ _ _ HC) as C1;
              eapply (QInv_update _ _ a ac1 q g _ HQ1 Ea1); [ ob_stacks | obs_q2 | ob_sched_same | ob_wit Est1 | ];
              intros qq0 Hqq0 HC0; cbn in Hqq0; rewrite Eq in Hqq0; injection Hqq0 as <-;
              destruct C1 as [Hc|[Hc|Hc]]; rewrite ?Hc in *;
              rewrite ?(k_resched_i _ HK), ?(k_resched_p _ HK), ?(k_resched_r _ HK) in *;
              repeat match goal with H : context [if ?b then _ else _] |- _ => destruct b eqn:? end; simplify_eq;
              first
              [ solve [apply QC_running; by cbn]
              | (* Idle and non-empty: Pending, FRQ2 on top *)
                solve [split; cbn; [right; by left | intros _; split; [by match goal with H : negb (bool_decide _) = true |- _ => apply negb_true_iff, bool_decide_eq_false in H end|]; right; right; eapply has_top_new; [exact Ea1|ob_stacks|done] | done]]
              | (* Idle and empty *)
                solve [split; cbn; rewrite ?Hc; [by left | done | intros _ Hj; exfalso; apply Hj; by match goal with H : negb (bool_decide _) = false |- _ => apply negb_false_iff, bool_decide_eq_true in H end]]
              | (* Pending: unchanged *)
                solve [eapply (QC_pending_keep _ _ q qq); [done | by cbn | done | done
                       | intros f Hf Ht; eapply has_top_other; [exact Ea1|ob_stacks| |exact Ht]; rewrite Est1; cbn; destruct Hf as [-> | ->]; congruence | exact HC0 ]] ] end; fail).
    1: { assert (HQ1 : QInv (foldl (notify F) s (wake_blocked qq))) by (by apply QInv_foldl_notify).
         destruct (foldl_notify_self F (wake_blocked qq) s a ac Ea) as (ac1 & Ea1 & Est1); [by rewrite Est|]. rewrite Est in Est1.
         destruct (foldl_notify_frame F (wake_blocked qq) s) as (A & Hfr); rewrite Hfr in *.
         pose proof (HQ1 q qq Eq) as HC; pose proof (qc_core _ _ _ HC) as C1.
         eapply (QInv_update _ _ a ac1 q (λ x : queue, x <| qs := q0 |>) _ HQ1 Ea1); [ ob_stacks | obs_q2 | ob_sched_same | ob_wit Est1 | ].
         intros qq0 Hqq0 HC0; cbn in Hqq0; rewrite Eq in Hqq0; injection Hqq0 as <-.
         destruct C1 as [Hc|[Hc|Hc]]; rewrite ?Hc in *;
         rewrite ?(k_resched_i _ HK), ?(k_resched_p _ HK), ?(k_resched_r _ HK) in *;
         repeat match goal with H : context [if ?b then _ else _] |- _ => destruct b eqn:? end; simplify_eq.
         - apply negb_false_iff, bool_decide_eq_true in Heqb0. split; cbn; [by left | done | intros _ Hj; by rewrite Heqb0 in Hj].
         - eapply (QC_pending_keep (s <| actors := A |>) _ q qq); [done | by cbn | done | done
           | intros f Hf Ht; eapply has_top_other; [exact Ea1|ob_stacks| |exact Ht]; rewrite Est1; cbn; destruct Hf as [-> | ->]; congruence | exact HC0 ].
         - apply QC_running; by cbn. }
    (* FTexam skips a schedule entry *)
    all: try (lazymatch goal with Est : stack _ = FTexam _ :: _, E0 : sched _ = ?n :: _ |- _ =>
              eapply (QInv_update s _ a ac n (fun x => x) _ HQ Ea);
              [ ob_stacks | ob_q_id
              | intros q' Hne Hin; cbn; rewrite E0 in Hin; apply elem_of_cons in Hin as [->|Hin]; done
              | ob_wit Est | ] end;
              intros qq0 Hqq0 HC0;
              first [ congruence
                    | match goal with Eq : queues _ !! _ = Some ?qq |- _ => rewrite Eq in Hqq0; injection Hqq0 as <-;
                        destruct (qc_core _ _ _ HC0) as [Hc|[Hc|Hc]]; rewrite Hc in *;
                        rewrite ?(k_next_i _ HK), ?(k_next_p _ HK), ?(k_next_r _ HK) in *; try discriminate;
                        [ eapply (QC_idle_keep s _ _ qq); [done|done|done| intros Ht; eapply has_top_other; [exact Ea|ob_stacks|by rewrite Est|exact Ht] | exact HC0]
                        | by apply QC_running ] end ]; fail).
    (* FDRfin, done: the runner found its queue empty and lets go *)
    assert (Hrun : qs qq = Running) by (eapply (runner_owns s a q qq); [exact HI| |exact Eq]; rewrite Hold; cbn [cnt owns_b]; rewrite bool_decide_true by done; done).
    rewrite Hrun, (k_fin _ HK) in E. destruct (bool_decide (jobs qq = [])) eqn:Ej; [|discriminate]. injection E as <-.
    apply bool_decide_eq_true in Ej.
    eapply (QInv_update s _ a ac q (fun x => x <| qs := Idle |> <| owner := None |>) _ HQ Ea); [ ob_stacks | obs_q2 | ob_sched_same | ob_wit Est | ].
    intros qq0 Hqq0 HC0. rewrite Eq in Hqq0. injection Hqq0 as <-. split; cbn; [by left | done | intros _ Hj; by rewrite Ej in Hj].
  Qed.
End QStep.
