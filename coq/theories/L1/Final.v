From stdpp Require Import list numbers option.
From RecordUpdate Require Import RecordUpdate.
From L1 Require Import Model Own Shape Stuck Live Wait Help.

(* ---------- all invariants together ---------- *)
Record All (s : state) : Prop := {
  a_shape : Shape s; a_inv : Inv s; a_wf : WF s; a_pool : PoolInv s; a_q : QInv s; a_j : JInv s; a_k : KInv s; a_max : 1 <= s.(maxt);
}.

Section Assembly.
  Context (T : tables) (F : facts) (HK : core_tables T) (HT : own_conditions T) (HF : F.(f_dormant_blocks) = true).

  Lemma step_maxt s a s' : step T F s a = Some s' -> s'.(maxt) = s.(maxt).
  Proof.
    intros Hstep. unfold step in Hstep.
    destruct (actors s !! a) as [ac|] eqn:Ea; cbn in Hstep; [|congruence].
    destruct (stack ac) as [|fr rest] eqn:Est; [congruence|].
    destruct fr.
    all: cbn beta iota zeta in Hstep.
    all: repeat (first
         [ match type of Hstep with
           | context [queues _ !! ?q] => let E := fresh "Eq" in destruct (queues s !! q) as [qq|] eqn:E; cbn in Hstep; [|congruence]
           | context [threads _ !! ?t] => let E := fresh "Et" in destruct (threads s !! t) as [th|] eqn:E; cbn in Hstep
           end
         | match type of Hstep with context [match ?x with _ => _ end] => let E := fresh "E" in destruct x eqn:E end; cbn in Hstep; try congruence ]).
    all: try discriminate.
    all: try (injection Hstep as <-).
    all: try done.
    all: try (lazymatch goal with |- context [run_job ?F ?s ?j] => destruct (run_job_frame F s j) as (A & R & ->) end; done).
    all: try (lazymatch goal with |- context [foldl (notify ?F) ?s ?ws] => destruct (foldl_notify_frame F ws s) as (A & ->) end; done).
  Qed.

  Lemma step_all s a s' : All s -> step T F s a = Some s' -> All s'.
  Proof.
    intros [H1 H2 H3 H4 H5 H6 H7 H8] Hstep. split.
    - by eapply step_shape.
    - by eapply step_inv.
    - by eapply step_wf.
    - by eapply step_pool.
    - by eapply step_q.
    - by eapply step_j.
    - by eapply step_k.
    - by rewrite (step_maxt _ _ _ Hstep).
  Qed.
End Assembly.

Lemma init_inv nq mx scripts : Inv (init nq mx scripts).
Proof.
  split.
  - intros b q qq n Hn Hq. unfold init in *; cbn in *. apply lookup_replicate in Hq as [-> _]. cbn.
    unfold stack_cnt in Hn; cbn in Hn. rewrite list_lookup_fmap in Hn. destruct (scripts !! b); cbn in Hn; [|done]. injection Hn as <-. done.
  - intros q qq Hq. unfold init in *; cbn in *. apply lookup_replicate in Hq as [-> _]. cbn. split; [by intros [? ?]|done].
  - intros q qq b Hq Ho. unfold init in *; cbn in *. apply lookup_replicate in Hq as [-> _]. done.
Qed.
Lemma init_pool nq mx scripts : PoolInv (init nq mx scripts).
Proof. intros t th st Ht. done. Qed.
Lemma init_q nq mx scripts : QInv (init nq mx scripts).
Proof.
  intros q qq Hq. unfold init in Hq; cbn in Hq. apply lookup_replicate in Hq as [-> _]. split; cbn; [by left|done|done].
Qed.
Lemma init_k nq mx scripts : KInv (init nq mx scripts).
Proof. intros (q & qq & Hin & _). unfold init in Hin; cbn in Hin. by apply elem_of_nil in Hin. Qed.

Section Final.
  Context (T : tables) (F : facts) (HK : core_tables T) (HT : own_conditions T) (HF : F.(f_dormant_blocks) = true).

  Lemma init_all nq mx scripts : wf_scripts nq scripts -> 1 <= mx -> All (init nq mx scripts).
  Proof.
    intros Hs Hm. split; [apply init_shape|apply init_inv|by apply init_wf|apply init_pool|apply init_q|apply init_j|apply init_k|done].
  Qed.

  Theorem reachable_all nq mx scripts tr s : wf_scripts nq scripts -> 1 <= mx -> run T F (init nq mx scripts) tr = Some s -> All s.
  Proof.
    intros Hs Hm. pose proof (init_all nq mx scripts Hs Hm) as H0. unfold run. revert H0. generalize (init nq mx scripts).
    induction tr as [|a tr IH]; intros s0 H0; cbn.
    - by intros [= <-].
    - destruct (step T F s0 a) as [s1|] eqn:E; cbn; [|by rewrite run_none]. apply IH. by eapply step_all.
  Qed.
End Final.

(* ---------- a terminal state is complete ---------- *)
Definition stuck_frame (fr : frame) : Prop := match fr with FTop [] | FSBwait _ | FTrecv _ => True | _ => False end.
Lemma stuck_hd s st fr : stuck_ok s st -> hd_error st = Some fr -> stuck_frame fr.
Proof. destruct st as [|[] [|]]; cbn; try done; intros H [= <-]; try done; by destruct script. Qed.

Lemma stuck_cnt0 s b ab q : Shape s -> s.(actors) !! b = Some ab -> stuck_ok s ab.(stack) -> cnt q ab.(stack) = 0.
Proof.
  intros HS Eb Hst. destruct (kind_of s b ab HS Eb) as [[_ Hok]|(t & _ & Hok)].
  - destruct (stack ab) as [|fr rest]; [done|]. apply caller_ok_inv in Hok as [(-> & Hfr)|[(os & -> & Hsf)|(g & os & -> & Hpo)]].
    + by destruct fr.
    + destruct fr; try done.
    + destruct fr; try done; by destruct g.
  - destruct (stack ab) as [|fr rest]; [done|]. apply pool_ok_inv in Hok as [(-> & Hfr)|(-> & Hfr)]; by destruct fr.
Qed.

Section Quiet.
  Context (T : tables) (F : facts) (HK : core_tables T) (HT : own_conditions T) (HF : F.(f_dormant_blocks) = true).

  Theorem terminal_complete s : All s -> terminal T F s -> complete s = true.
  Proof.
    intros [HS HI HW HP HQ HJ HKI Hm] Hterm.
    pose proof (stuck_frames T F s HS HW Hterm) as Hstuck.
    assert (HA : forall f, has_top s f -> stuck_frame f).
    { intros f (b & st & Hb & Hh). rewrite stacks_lookup in Hb. destruct (actors s !! b) as [ab|] eqn:Eb; [|done]. injection Hb as <-.
      eapply stuck_hd; [by eapply Hstuck|done]. }
    (* no queue is Running *)
    assert (HB1 : forall q qq, s.(queues) !! q = Some qq -> qq.(qs) <> Running).
    { intros q qq Hq Hr. destruct HI as [I1 I2 I3]. destruct (proj2 (I2 q qq Hq) Hr) as [b Hb].
      pose proof (I3 q qq b Hq Hb) as Hlt. destruct (lookup_lt_is_Some_2 _ _ Hlt) as [ab Eb].
      assert (Hc : stack_cnt s b q = Some (cnt q (stack ab))) by (unfold stack_cnt; by rewrite Eb).
      pose proof (I1 b q qq _ Hc Hq) as H1. rewrite decide_True in H1 by done.
      rewrite (stuck_cnt0 s b ab q HS Eb (Hstuck b ab Eb)) in H1. done. }
    (* no queue is Pending *)
    assert (HB2 : forall q qq, s.(queues) !! q = Some qq -> qq.(qs) <> Pending).
    { intros q qq Hq Hp. destruct (HQ q qq Hq) as [C1 C2 C3]. destruct (C2 Hp) as [Hj [Hs|[Hs|Hs]]]; [|by apply HA in Hs|by apply HA in Hs].
      assert (Htk : takeable s) by (exists q, qq; done).
      destruct (HKI Htk) as [(t & th & st & G1 & G2 & G3 & G4)|(b & st & Hb & Hc)].
      - rewrite stacks_lookup in G2. destruct (actors s !! (ncallers s + t)) as [ap|] eqn:Eap; [|done]. injection G2 as <-.
        pose proof (Hstuck _ ap Eap) as Hsk. pose proof HS as [_ _ _ Po _ _ _]. specialize (Po t ap Eap).
        destruct (stack ap) as [|fr rest] eqn:Es; [done|]. apply pool_ok_inv in Po as [(-> & Hfr)|(-> & Hfr)]; [|by destruct fr].
        destruct fr; try done. cbn in Hfr. apply bool_decide_eq_true in Hfr. subst. cbn in Hsk. destruct Hsk as (th' & Ht' & Hch). rewrite G1 in Ht'. injection Ht' as <-.
        assert (Hps : pool_state_ok th [FTrecv t] = true) by (apply (HP t th); [done|rewrite stacks_lookup, Eap; cbn; by rewrite Es]).
        unfold pool_state_ok in Hps. rewrite G3, Hch in Hps. done.
      - rewrite stacks_lookup in Hb. destruct (actors s !! b) as [ab|] eqn:Eb; [|done]. injection Hb as <-.
        pose proof (hclause_htop _ _ Hc) as Hh. pose proof (Hstuck b ab Eb) as Hsk.
        destruct (stack ab) as [|fr rest]; [done|]. pose proof (stuck_hd s _ fr Hsk eq_refl) as Hf. by destruct fr. }
    (* every queue is Idle and empty *)
    assert (HB3 : forall q qq, s.(queues) !! q = Some qq -> qq.(qs) = Idle /\ qq.(jobs) = []).
    { intros q qq Hq. destruct (HQ q qq Hq) as [C1 C2 C3]. destruct C1 as [Hc|[Hc|Hc]]; [|by destruct (HB2 q qq Hq)|by destruct (HB1 q qq Hq)].
      split; [done|]. destruct (decide (jobs qq = [])) as [Hj|Hn]; [done|]. exfalso. specialize (C3 Hc Hn). by apply HA in C3. }
    (* nobody is inside the condition-variable wait *)
    assert (HC : forall w ac q rest, s.(actors) !! w = Some ac -> ac.(stack) = FSBwait q :: rest -> False).
    { intros w ac q rest Ew Est. destruct (HJ w ac Ew) as [J1 J2].
      assert (Hr : ready ac = false) by (apply (J2 q); by rewrite Est).
      destruct (J1 q) as [(qq & o & G1 & G2)|(b & st & o & G1 & (q' & G2))]; [by rewrite Est|done| |].
      - destruct (HB3 q qq G1) as [_ Hj]. rewrite Hj in G2. by apply elem_of_nil in G2.
      - assert (Ht : has_top s (FROrun q' (JSyncBg o w)) \/ has_top s (FDRrun q' (JSyncBg o w))) by (destruct G2; [left|right]; by exists b, st).
        destruct Ht as [Ht|Ht]; by apply HA in Ht. }
    unfold complete. rewrite !andb_true_iff. split; [split|].
    - apply forallb_forall. intros ab Hin. apply elem_of_list_In, elem_of_list_lookup in Hin as [b Eb].
      pose proof (Hstuck b ab Eb) as Hsk. unfold actor_done. destruct (stack ab) as [|fr rest] eqn:Es; [done|].
      destruct fr; try done; cbn in Hsk.
      + destruct script; [|done]. by destruct rest.
      + exfalso. by eapply HC.
      + by destruct rest.
    - apply forallb_forall. intros qq Hin. apply elem_of_list_In, elem_of_list_lookup in Hin as [q Hq]. destruct (HB3 q qq Hq) as [-> ->]. done.
    - apply forallb_forall. intros th Hin. apply elem_of_list_In, elem_of_list_lookup in Hin as [t Ht].
      pose proof HS as [L _ _ Po _ _ _].
      assert (Hi : ncallers s + t < length (actors s)) by (apply lookup_lt_Some in Ht; unfold ncallers; lia).
      destruct (lookup_lt_is_Some_2 _ _ Hi) as [ap Eap]. specialize (Po t ap Eap). pose proof (Hstuck _ ap Eap) as Hsk.
      destruct (stack ap) as [|fr rest] eqn:Es; [done|]. apply pool_ok_inv in Po as [(-> & Hfr)|(-> & Hfr)]; [|by destruct fr].
      destruct fr; try done. cbn in Hfr. apply bool_decide_eq_true in Hfr. subst. cbn in Hsk. destruct Hsk as (th' & Ht' & Hch). rewrite Ht in Ht'. injection Ht' as <-.
      assert (Hps : pool_state_ok th [FTrecv t] = true) by (apply (HP t th); [done|rewrite stacks_lookup, Eap; cbn; by rewrite Es]).
      unfold pool_state_ok in Hps. rewrite Hch in Hps. by destruct (busy th).
  Qed.

  (* L-quiet on the prototype: with at least one pool thread allowed, every reachable state in which no thread
     can move is complete: all scripts finished, all queues idle and empty, no thread marked busy. *)
  Theorem L_quiet nq mx scripts tr s :
    wf_scripts nq scripts -> 1 <= mx -> run T F (init nq mx scripts) tr = Some s -> terminal T F s -> complete s = true.
  Proof. intros Hs Hm Hr. apply terminal_complete. by eapply (reachable_all T F). Qed.
End Quiet.

(* the repaired tables and facts meet every hypothesis *)
Corollary L_quiet_repaired F nq mx scripts tr s :
  F.(f_dormant_blocks) = true -> wf_scripts nq scripts -> 1 <= mx ->
  run (fixed_trysync orig_tables) F (init nq mx scripts) tr = Some s -> terminal (fixed_trysync orig_tables) F s -> complete s = true.
Proof. intros HF. apply L_quiet; [apply fixed_core|apply fixed_tables_ok|done]. Qed.

Print Assumptions L_quiet_repaired.

(* ---------- the hypothesis f_dormant_blocks is needed: with try_lock the model strands a queue (F1) ---------- *)
Definition f1_facts : facts := {| f_dormant_blocks := false; f_sticky_notify := true |}.
Definition f1_scripts : list (list op) := [[ODesync 0]; [ODesync 1]].
Definition f1_trace : list nat := [0; 0; 0; 0; 0; 0; 0; 0; 1; 1; 2; 2; 2; 2; 2; 2; 2; 2; 2; 2; 2; 2; 1; 1; 1; 1; 1; 2].
Definition terminal_b (T : tables) (F : facts) (s : state) : bool :=
  forallb (fun a => match step T F s a with None => true | Some _ => false end) (seq 0 (length s.(actors))).

Example L_quiet_refuted_without_blocking_scan :
  exists s, run (fixed_trysync orig_tables) f1_facts (init 2 1 f1_scripts) f1_trace = Some s
            /\ terminal_b (fixed_trysync orig_tables) f1_facts s = true /\ complete s = false.
Proof. eexists. split; [vm_compute; reflexivity|]. split; vm_compute; reflexivity. Qed.
