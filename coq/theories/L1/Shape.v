From stdpp Require Import list numbers option.
From RecordUpdate Require Import RecordUpdate.
From L1 Require Import Model.

(* ---------- stack shapes ---------- *)
Definition simple_frame (f : frame) : bool :=
  match f with
  | FD1 _ | FD2 _ | FSTlock | FSTscan _ | FSTspawn | FS1 _ | FSIrun _ | FSIidle _ | FSDpush _ | FSDloop _ | FSDidle _
  | FSBreg _ | FSBpush _ | FSBcheck _ | FSBwait _ | FSBwoken _ | FSBclaim _ | FSBsteal _ | FSBstealidle _ | FSBdone _
  | FTS1 _ | FRQ1 _ | FRQ2 _ => true
  | _ => false
  end.
Definition pair_ok (f g : frame) : bool :=
  match f, g with
  | FROdeq q, FSDloop q' | FROdeq q, FSBsteal q' | FROrun q _, FSDloop q' | FROrun q _, FSBsteal q' => bool_decide (q = q')
  | FRQ1 _, FSBcheck _ | FRQ2 _, FSBcheck _ | FSTlock, FSBcheck _ | FSTscan _, FSBcheck _ | FSTspawn, FSBcheck _ => true
  | _, _ => false
  end.
Definition is_top (f : frame) : bool := match f with FTop _ => true | _ => false end.
Definition caller_ok (st : list frame) : bool :=
  match st with
  | [f] => is_top f
  | [f; g] => is_top g && simple_frame f
  | [f; g; h] => is_top h && pair_ok f g
  | _ => false
  end.
Definition pool_ok (t : nat) (st : list frame) : bool :=
  match st with
  | [FTrecv t'] | [FTlock t'] | [FTnext t'] | [FTexam t'] | [FTrelnone t'] | [FTrelsome t' _]
  | [FDRdeq _; FTlock t'] | [FDRrun _ _; FTlock t'] | [FDRfin _; FTlock t'] => bool_decide (t' = t)
  | _ => false
  end.
(* the frames during which the pool thread holds its own busy lock *)
Definition holds_busy (st : list frame) : bool :=
  match st with [FTnext _] | [FTexam _] | [FTrelnone _] | [FTrelsome _ _] => true | _ => false end.

Definition ncallers (s : state) : nat := length s.(actors) - length s.(threads).

Record Shape (s : state) : Prop := {
  sh_len : length s.(threads) <= length s.(actors);
  sh_tactor : forall t th, s.(threads) !! t = Some th -> th.(tactor) = ncallers s + t;
  sh_caller : forall a ac, s.(actors) !! a = Some ac -> a < ncallers s -> caller_ok ac.(stack) = true;
  sh_pool : forall t ac, s.(actors) !! (ncallers s + t) = Some ac -> pool_ok t ac.(stack) = true;
  sh_held : forall t th ac, s.(threads) !! t = Some th -> s.(actors) !! (ncallers s + t) = Some ac ->
            th.(held) = holds_busy ac.(stack);
  sh_sched_held : forall h, s.(sched_held) = Some h <-> exists ac t, s.(actors) !! h = Some ac /\ ac.(stack) = [FTexam t];
  sh_threads_held : forall h, s.(threads_held) = Some h <-> exists ac i rest, s.(actors) !! h = Some ac /\ ac.(stack) = FSTscan i :: rest;
}.

(* ---------- basic facts about updates ---------- *)
Lemma actors_setstack_lookup s a st b :
  (setstack s a st).(actors) !! b = if decide (a = b) then (fun x => x <| stack := st |>) <$> (s.(actors) !! b) else s.(actors) !! b.
Proof. unfold setstack, upda; cbn. case_decide; subst; [by rewrite list_lookup_alter|by rewrite list_lookup_alter_ne]. Qed.
Lemma actors_upda_lookup s a f b :
  (upda s a f).(actors) !! b = if decide (a = b) then f <$> (s.(actors) !! b) else s.(actors) !! b.
Proof. unfold upda; cbn. case_decide; subst; [by rewrite list_lookup_alter|by rewrite list_lookup_alter_ne]. Qed.
Lemma threads_updt_lookup s t f u :
  (updt s t f).(threads) !! u = if decide (t = u) then f <$> (s.(threads) !! u) else s.(threads) !! u.
Proof. unfold updt; cbn. case_decide; subst; [by rewrite list_lookup_alter|by rewrite list_lookup_alter_ne]. Qed.
Lemma length_actors_upda s a f : length (upda s a f).(actors) = length s.(actors).
Proof. unfold upda; cbn. by rewrite alter_length. Qed.
Lemma length_threads_updt s t f : length (updt s t f).(threads) = length s.(threads).
Proof. unfold updt; cbn. by rewrite alter_length. Qed.

(* a "stack view": everything Shape needs to know about a state *)
Definition stacks (s : state) : list (list frame) := stack <$> s.(actors).
Definition tinfo (s : state) : list (bool * nat) := (fun th => (th.(held), th.(tactor))) <$> s.(threads).

Lemma Shape_view s1 s :
  stacks s1 = stacks s -> tinfo s1 = tinfo s -> s1.(sched_held) = s.(sched_held) -> s1.(threads_held) = s.(threads_held) ->
  Shape s -> Shape s1.
Proof.
  intros Hst Hti Hsh Hth [L Ta Ca Po He Sh Th].
  assert (Hla : length s1.(actors) = length s.(actors)) by (apply (f_equal length) in Hst; unfold stacks in Hst; by rewrite !fmap_length in Hst).
  assert (Hlt : length s1.(threads) = length s.(threads)) by (apply (f_equal length) in Hti; unfold tinfo in Hti; by rewrite !fmap_length in Hti).
  assert (Hn : ncallers s1 = ncallers s) by (unfold ncallers; lia).
  assert (Hstk : forall a ac1, s1.(actors) !! a = Some ac1 -> exists ac, s.(actors) !! a = Some ac /\ ac.(stack) = ac1.(stack)).
  { intros a ac1 H. assert (H' : stacks s1 !! a = Some ac1.(stack)) by (unfold stacks; by rewrite list_lookup_fmap, H).
    rewrite Hst in H'. unfold stacks in H'. rewrite list_lookup_fmap in H'. destruct (actors s !! a) as [ac|]; [|done]. injection H' as H'. eauto. }
  assert (Hthr : forall t th1, s1.(threads) !! t = Some th1 -> exists th, s.(threads) !! t = Some th /\ th.(held) = th1.(held) /\ th.(tactor) = th1.(tactor)).
  { intros t th1 H. assert (H' : tinfo s1 !! t = Some (th1.(held), th1.(tactor))) by (unfold tinfo; by rewrite list_lookup_fmap, H).
    rewrite Hti in H'. unfold tinfo in H'. rewrite list_lookup_fmap in H'. destruct (threads s !! t) as [th|]; [|done]. injection H' as H1 H2. eauto. }
  split.
  - lia.
  - intros t th1 H. destruct (Hthr _ _ H) as (th & H1 & _ & H3). rewrite Hn, <- H3. by apply Ta.
  - intros a ac1 H Hlt'. destruct (Hstk _ _ H) as (ac & H1 & H2). rewrite <- H2. apply (Ca a); [done|lia].
  - intros t ac1 H. rewrite Hn in H. destruct (Hstk _ _ H) as (ac & H1 & H2). rewrite <- H2. by apply Po.
  - intros t th1 ac1 H1 H2. rewrite Hn in H2. destruct (Hthr _ _ H1) as (th & G1 & G2 & _). destruct (Hstk _ _ H2) as (ac & G3 & G4).
    rewrite <- G2, <- G4. by eapply He.
  - intros h. rewrite Hsh, Sh. split; intros (ac & t & H1 & H2).
    + assert (H' : stacks s1 !! h = Some [FTexam t]) by (rewrite Hst; unfold stacks; by rewrite list_lookup_fmap, H1; cbn; rewrite H2).
      unfold stacks in H'. rewrite list_lookup_fmap in H'. destruct (actors s1 !! h) as [ac1|]; [|done]. injection H' as H'. eauto.
    + destruct (Hstk _ _ H1) as (ac0 & G1 & G2). exists ac0, t. split; [done|congruence].
  - intros h. rewrite Hth, Th. split; intros (ac & i & rest & H1 & H2).
    + assert (H' : stacks s1 !! h = Some (FSTscan i :: rest)) by (rewrite Hst; unfold stacks; by rewrite list_lookup_fmap, H1; cbn; rewrite H2).
      unfold stacks in H'. rewrite list_lookup_fmap in H'. destruct (actors s1 !! h) as [ac1|]; [|done]. injection H' as H'. eauto.
    + destruct (Hstk _ _ H1) as (ac0 & G1 & G2). exists ac0, i, rest. split; [done|congruence].
Qed.

Definition is_exam (st : list frame) : bool := match st with [FTexam _] => true | _ => false end.
Definition is_scan (st : list frame) : bool := match st with FSTscan _ :: _ => true | _ => false end.

Lemma stacks_lookup s a : stacks s !! a = stack <$> (s.(actors) !! a).
Proof. unfold stacks. by rewrite list_lookup_fmap. Qed.

(* one actor replaces its stack; threads keep their number and their actors *)
Lemma Shape_update s s' a ac newst :
  Shape s -> s.(actors) !! a = Some ac ->
  stacks s' = <[a := newst]> (stacks s) ->
  length s'.(threads) = length s.(threads) ->
  (forall t th', s'.(threads) !! t = Some th' -> exists th, s.(threads) !! t = Some th /\ th'.(tactor) = th.(tactor) /\
        th'.(held) = if decide (a = ncallers s + t) then holds_busy newst else th.(held)) ->
  (a < ncallers s -> caller_ok newst = true) ->
  (forall t, a = ncallers s + t -> pool_ok t newst = true) ->
  s'.(sched_held) = (if is_exam newst then Some a else if is_exam ac.(stack) then None else s.(sched_held)) ->
  (is_exam newst = true -> is_exam ac.(stack) = false -> s.(sched_held) = None) ->
  s'.(threads_held) = (if is_scan newst then Some a else if is_scan ac.(stack) then None else s.(threads_held)) ->
  (is_scan newst = true -> is_scan ac.(stack) = false -> s.(threads_held) = None) ->
  Shape s'.
Proof.
  intros [L Ta Ca Po He Sh Th] Ea Hst Hlt Hthr Hcal Hpool Hsh Hsh0 Hth Hth0.
  assert (Hla : length s'.(actors) = length s.(actors)).
  { apply (f_equal length) in Hst. unfold stacks in Hst. by rewrite insert_length, !fmap_length in Hst. }
  assert (Hn : ncallers s' = ncallers s) by (unfold ncallers; lia).
  assert (Hstk : forall b ac', s'.(actors) !! b = Some ac' ->
            if decide (a = b) then ac'.(stack) = newst else exists ac0, s.(actors) !! b = Some ac0 /\ ac0.(stack) = ac'.(stack)).
  { intros b ac' H. assert (H' : stacks s' !! b = Some ac'.(stack)) by (by rewrite stacks_lookup, H).
    rewrite Hst in H'. case_decide; subst.
    - rewrite list_lookup_insert in H' by (unfold stacks; rewrite fmap_length; by eapply lookup_lt_Some). by injection H'.
    - rewrite list_lookup_insert_ne in H' by done. rewrite stacks_lookup in H'. destruct (actors s !! b) as [ac0|]; [|done]. injection H' as H'. eauto. }
  assert (Hinv : forall b ac0, s.(actors) !! b = Some ac0 -> exists ac', s'.(actors) !! b = Some ac' /\
            ac'.(stack) = if decide (a = b) then newst else ac0.(stack)).
  { intros b ac0 H. assert (Hb : b < length s'.(actors)) by (rewrite Hla; by eapply lookup_lt_Some).
    destruct (lookup_lt_is_Some_2 _ _ Hb) as [ac' H']. exists ac'. split; [done|].
    specialize (Hstk b ac' H'). case_decide; [done|]. destruct Hstk as (ac1 & G1 & G2). congruence. }
  split.
  - lia.
  - intros t th' H. destruct (Hthr _ _ H) as (th & G1 & G2 & _). rewrite Hn, G2. by apply Ta.
  - intros b ac' H Hb. rewrite Hn in Hb. specialize (Hstk b ac' H). case_decide as Hab; [subst b|].
    + rewrite Hstk. by apply Hcal.
    + destruct Hstk as (ac0 & G1 & G2). rewrite <- G2. by apply (Ca b).
  - intros t ac' H. rewrite Hn in H. specialize (Hstk _ ac' H). case_decide.
    + rewrite Hstk. by apply Hpool.
    + destruct Hstk as (ac0 & G1 & G2). rewrite <- G2. by apply Po.
  - intros t th' ac' H1 H2. rewrite Hn in H2. destruct (Hthr _ _ H1) as (th & G1 & _ & G3). rewrite G3.
    specialize (Hstk _ ac' H2). case_decide.
    + by rewrite Hstk.
    + destruct Hstk as (ac0 & G4 & G5). rewrite <- G5. by eapply He.
  - intros h. rewrite Hsh. split.
    + intros H. destruct (is_exam newst) eqn:En.
      * injection H as <-. destruct (Hinv a ac Ea) as (ac' & G1 & G2). rewrite decide_True in G2 by done.
        destruct newst as [|[] [|]]; try done. eauto.
      * destruct (is_exam (stack ac)) eqn:Eo; [done|]. apply Sh in H as (ac0 & t & G1 & G2).
        destruct (Hinv h ac0 G1) as (ac' & G3 & G4). case_decide; subst.
        -- rewrite Ea in G1. injection G1 as <-. by rewrite G2 in Eo.
        -- exists ac', t. split; [done|congruence].
    + intros (ac' & t & H1 & H2). specialize (Hstk h ac' H1). case_decide as Hah; [subst h|].
      * rewrite H2 in Hstk. subst newst. done.
      * destruct Hstk as (ac0 & G1 & G2).
        assert (Hh : s.(sched_held) = Some h) by (apply Sh; exists ac0, t; split; [done|congruence]).
        destruct (is_exam newst) eqn:En.
        -- destruct (is_exam (stack ac)) eqn:Eo.
           ++ assert (s.(sched_held) = Some a) by (apply Sh; destruct (stack ac) as [|[] [|]] eqn:E; try done; eauto). congruence.
           ++ rewrite Hsh0 in Hh by done. done.
        -- destruct (is_exam (stack ac)) eqn:Eo; [|done].
           assert (s.(sched_held) = Some a) by (apply Sh; destruct (stack ac) as [|[] [|]] eqn:E; try done; eauto). congruence.
  - intros h. rewrite Hth. split.
    + intros H. destruct (is_scan newst) eqn:En.
      * injection H as <-. destruct (Hinv a ac Ea) as (ac' & G1 & G2). rewrite decide_True in G2 by done.
        destruct newst as [|[] ?]; try done. eauto.
      * destruct (is_scan (stack ac)) eqn:Eo; [done|]. apply Th in H as (ac0 & i & rest & G1 & G2).
        destruct (Hinv h ac0 G1) as (ac' & G3 & G4). case_decide; subst.
        -- rewrite Ea in G1. injection G1 as <-. by rewrite G2 in Eo.
        -- exists ac', i, rest. split; [done|congruence].
    + intros (ac' & i & rest & H1 & H2). specialize (Hstk h ac' H1). case_decide as Hah; [subst h|].
      * rewrite H2 in Hstk. subst newst. done.
      * destruct Hstk as (ac0 & G1 & G2).
        assert (Hh : s.(threads_held) = Some h) by (apply Th; exists ac0, i, rest; split; [done|congruence]).
        destruct (is_scan newst) eqn:En.
        -- destruct (is_scan (stack ac)) eqn:Eo.
           ++ assert (s.(threads_held) = Some a) by (apply Th; destruct (stack ac) as [|[] ?] eqn:E; try done; eauto). congruence.
           ++ rewrite Hth0 in Hh by done. done.
        -- destruct (is_scan (stack ac)) eqn:Eo; [|done].
           assert (s.(threads_held) = Some a) by (apply Th; destruct (stack ac) as [|[] ?] eqn:E; try done; eauto). congruence.
Qed.

(* ---------- waking a waiter keeps the shapes ---------- *)
Lemma stacks_upda_same s a f : (forall x, (f x).(stack) = x.(stack)) -> stacks (upda s a f) = stacks s.
Proof.
  intros Hf. unfold stacks, upda; cbn. apply list_eq. intros i. rewrite !list_lookup_fmap.
  destruct (decide (a = i)) as [->|]; [rewrite list_lookup_alter|by rewrite list_lookup_alter_ne].
  destruct (actors s !! i); cbn; [by rewrite Hf|done].
Qed.
Lemma stacks_setstack s a st : stacks (setstack s a st) = <[a := st]> (stacks s).
Proof.
  unfold stacks, setstack, upda; cbn. apply list_eq. intros i. rewrite list_lookup_fmap.
  destruct (decide (a = i)) as [->|].
  - rewrite list_lookup_alter. destruct (actors s !! i) eqn:E; cbn.
    + rewrite list_lookup_insert; [done|]. rewrite fmap_length. by eapply lookup_lt_Some.
    + symmetry. apply lookup_ge_None. rewrite insert_length, fmap_length. by apply lookup_ge_None.
  - rewrite list_lookup_alter_ne, list_lookup_insert_ne by done. by rewrite list_lookup_fmap.
Qed.

Lemma Shape_wake s w ac q rest :
  Shape s -> s.(actors) !! w = Some ac -> ac.(stack) = FSBwait q :: rest -> Shape (setstack s w (FSBwoken q :: rest)).
Proof.
  intros HS Ew Est. pose proof HS as [L Ta Ca Po He Sh Th].
  eapply (Shape_update s _ w ac (FSBwoken q :: rest)); try done.
  - apply stacks_setstack.
  - intros t th' H. exists th'. split; [done|]. split; [done|]. case_decide as Hw; [|done]. subst w.
    specialize (Po t ac Ew). rewrite Est in Po. done.
  - intros Hw. specialize (Ca w ac Ew Hw). rewrite Est in Ca. destruct rest as [|g [|h [|]]]; try done; destruct g; try done.
  - intros t ->. specialize (Po t ac Ew). by rewrite Est in Po.
  - cbn. by rewrite Est.
  - cbn. by rewrite Est.
Qed.

Lemma Shape_kick s w (f : actor -> actor) : (forall x, (f x).(stack) = x.(stack)) -> Shape s -> Shape (upda s w f).
Proof. intros Hf. apply Shape_view; try done. by apply stacks_upda_same. Qed.

Lemma Shape_notify F s w : Shape s -> Shape (notify F s w).
Proof.
  intros HS. unfold notify.
  set (s1 := if f_sticky_notify F then upda s w (fun x => x <| kicked := true |>) else s).
  assert (HS1 : Shape s1) by (subst s1; destruct (f_sticky_notify F); [by apply Shape_kick|done]).
  destruct (actors s1 !! w) as [aw|] eqn:Ew; [|done].
  destruct (stack aw) as [|[] rest] eqn:Es; try done.
  by eapply Shape_wake.
Qed.
Lemma Shape_foldl_notify F ws s : Shape s -> Shape (foldl (notify F) s ws).
Proof. revert s; induction ws as [|w ws IH]; intros s HS; cbn; [done|]. apply IH. by apply Shape_notify. Qed.
Lemma Shape_run_job F s j : Shape s -> Shape (run_job F s j).
Proof.
  intros HS. destruct j as [o|o c|o c]; unfold run_job.
  - by apply (Shape_view _ s).
  - apply Shape_kick; [done|]. by apply (Shape_view _ s).
  - set (s1 := upda _ c _).
    assert (HS1 : Shape s1) by (subst s1; apply Shape_kick; [done|]; by apply (Shape_view _ s)).
    destruct (actors s1 !! c) as [ac|] eqn:Ec; [|done].
    destruct (stack ac) as [|[] rest] eqn:Es; try done.
    by eapply Shape_wake.
Qed.

(* ---------- the step preserves the shapes ---------- *)
Lemma kind_of s a ac : Shape s -> s.(actors) !! a = Some ac ->
  (a < ncallers s /\ caller_ok ac.(stack) = true) \/ (exists t, a = ncallers s + t /\ pool_ok t ac.(stack) = true).
Proof.
  intros [L Ta Ca Po He Sh Th] Ea. destruct (decide (a < ncallers s)) as [Hlt|Hge].
  - left. split; [done|by eapply Ca].
  - right. exists (a - ncallers s). split; [lia|]. apply Po. by replace (ncallers s + (a - ncallers s)) with a by lia.
Qed.

Lemma Shape_spawn s a ac rest :
  Shape s -> s.(actors) !! a = Some ac -> ac.(stack) = FSTspawn :: rest -> s.(threads_held) = None ->
  Shape (setstack (s <| threads := s.(threads) ++ [ {| busy := false; held := false; chan := 0; tactor := length s.(actors) |} ] |>
                     <| actors := s.(actors) ++ [ {| stack := [FTrecv (length s.(threads))]; ready := false; result := false; opctr := 0; kicked := false |} ] |>)
                  a (FSTlock :: rest)).
Proof.
  intros HS Ea Est Hfree. pose proof HS as [L Ta Ca Po He Sh Th].
  set (s1 := s <| threads := _ |> <| actors := _ |>).
  assert (Hn1 : ncallers s1 = ncallers s) by (unfold ncallers; subst s1; cbn; rewrite !app_length; cbn; lia).
  assert (Hlen : length s.(actors) = ncallers s + length s.(threads)) by (unfold ncallers; lia).
  assert (HS1 : Shape s1).
  { split.
    - subst s1; cbn. rewrite !app_length; cbn. lia.
    - intros t th H. rewrite Hn1. subst s1; cbn in H. destruct (decide (t < length (threads s))) as [Hlt|Hge].
      + rewrite lookup_app_l in H by done. by apply Ta.
      + rewrite lookup_app_r in H by lia. destruct (t - length (threads s)) eqn:E; [|done]. cbn in H. injection H as <-. cbn. lia.
    - intros b ab H Hb. rewrite Hn1 in Hb. subst s1; cbn in H. rewrite lookup_app_l in H by lia. by eapply Ca.
    - intros t ab H. rewrite Hn1 in H. subst s1; cbn in H. destruct (decide (t < length (threads s))) as [Hlt|Hge].
      + rewrite lookup_app_l in H by lia. by apply Po.
      + rewrite lookup_app_r in H by lia. destruct (ncallers s + t - length (actors s)) eqn:E; [|done]. cbn in H. injection H as <-. cbn.
        rewrite bool_decide_true; [done|lia].
    - intros t th ab H1 H2. rewrite Hn1 in H2. subst s1; cbn in H1, H2. destruct (decide (t < length (threads s))) as [Hlt|Hge].
      + rewrite lookup_app_l in H1 by done. rewrite lookup_app_l in H2 by lia. by eapply He.
      + rewrite lookup_app_r in H1 by lia. rewrite lookup_app_r in H2 by lia.
        destruct (t - length (threads s)) eqn:E1; [|done]. destruct (ncallers s + t - length (actors s)) eqn:E2; [|done].
        cbn in H1, H2. injection H1 as <-. injection H2 as <-. done.
    - intros h. subst s1; cbn. rewrite Sh. split; intros (ab & t & H1 & H2).
      + exists ab, t. split; [|done]. by apply lookup_app_l_Some.
      + apply lookup_app_Some in H1 as [H1|[_ H1]]; [eauto|]. destruct (h - length (actors s)); [|done]. cbn in H1. injection H1 as <-. done.
    - intros h. subst s1; cbn. rewrite Th. split; intros (ab & i & r & H1 & H2).
      + exists ab, i, r. split; [|done]. by apply lookup_app_l_Some.
      + apply lookup_app_Some in H1 as [H1|[_ H1]]; [eauto|]. destruct (h - length (actors s)); [|done]. cbn in H1. injection H1 as <-. done. }
  assert (Ea1 : s1.(actors) !! a = Some ac) by (subst s1; cbn; by apply lookup_app_l_Some).
  destruct (kind_of s a ac HS Ea) as [[Hlt Hok]|(t & -> & Hok)]; [|by rewrite Est in Hok].
  eapply (Shape_update s1 _ a ac (FSTlock :: rest)); try done.
  - apply stacks_setstack.
  - intros t th' H. exists th'. split; [done|]. split; [done|]. rewrite Hn1. case_decide; [lia|done].
  - intros _. rewrite Est in Hok. destruct rest as [|g [|h [|]]]; try done; destruct g; try done.
  - intros t Ht. lia.
  - cbn. by rewrite Est.
  - cbn. by rewrite Est.
Qed.

Lemma caller_ok_inv fr rest : caller_ok (fr :: rest) = true ->
  (rest = [] /\ is_top fr = true) \/ (exists os, rest = [FTop os] /\ simple_frame fr = true)
  \/ (exists g os, rest = [g; FTop os] /\ pair_ok fr g = true).
Proof.
  destruct rest as [|g [|h [|i r]]]; cbn.
  - intros H. by left.
  - intros [H1 H2]%andb_true_iff. right; left. destruct g; try discriminate. eauto.
  - intros [H1 H2]%andb_true_iff. right; right. destruct h; try discriminate. eauto.
  - discriminate.
Qed.
Definition pool1 (t : nat) (f : frame) : bool :=
  match f with FTrecv t' | FTlock t' | FTnext t' | FTexam t' | FTrelnone t' | FTrelsome t' _ => bool_decide (t' = t) | _ => false end.
Definition drainf (f : frame) : bool := match f with FDRdeq _ | FDRrun _ _ | FDRfin _ => true | _ => false end.
Lemma pool_ok_alt t st : pool_ok t st = match st with [f] => pool1 t f | [f; FTlock t'] => drainf f && bool_decide (t' = t) | _ => false end.
Proof. destruct st as [|f [|g [|h r]]]; try done; destruct f; try done; destruct g; done. Qed.
Lemma pool_ok_inv t fr rest : pool_ok t (fr :: rest) = true ->
  (rest = [] /\ pool1 t fr = true) \/ (rest = [FTlock t] /\ drainf fr = true).
Proof.
  rewrite pool_ok_alt. destruct rest as [|g [|h r]].
  - intros H. by left.
  - destruct g; try discriminate. intros [H1 H2%bool_decide_eq_true]%andb_true_iff. subst. by right.
  - destruct g; discriminate.
Qed.

Ltac goal_decide := match goal with |- context [decide (?x = ?y)] => destruct (decide (x = y)) end.
Ltac ob_stacks := rewrite stacks_setstack; f_equal; first [done | by rewrite stacks_upda_same].
Ltac ob_len := cbn; rewrite ?length_threads_updt, ?alter_length; done.

Lemma threads_setstack s a st : (setstack s a st).(threads) = s.(threads).
Proof. done. Qed.
Lemma mine_true h a : mine h a = true -> h = Some a.
Proof. destruct h; cbn; [|done]. intros H%bool_decide_eq_true. by subst. Qed.
Lemma free_true h : free h = true -> h = None.
Proof. by destruct h. Qed.
Ltac locks := repeat match goal with
  | H : negb (mine ?h ?a) = false |- _ => apply negb_false_iff, mine_true in H
  | H : negb (free ?h) = false |- _ => apply negb_false_iff, free_true in H
  | H : free ?h = true |- _ => apply free_true in H
  end.

(* waking waiters does not touch the stack of an actor that is not waiting *)
Definition not_waiting (st : list frame) : Prop := match st with FSBwait _ :: _ => False | _ => True end.
Lemma notify_self F s w a ac : s.(actors) !! a = Some ac -> not_waiting ac.(stack) ->
  exists ac1, (notify F s w).(actors) !! a = Some ac1 /\ ac1.(stack) = ac.(stack).
Proof.
  intros Ea Hnw. unfold notify.
  set (s1 := if f_sticky_notify F then upda s w (fun x => x <| kicked := true |>) else s).
  assert (H1 : exists ac1, s1.(actors) !! a = Some ac1 /\ ac1.(stack) = ac.(stack)).
  { subst s1. destruct (f_sticky_notify F); [|eauto]. rewrite actors_upda_lookup. case_decide; subst; rewrite Ea; cbn; eauto. }
  destruct H1 as (ac1 & E1 & S1).
  destruct (actors s1 !! w) as [aw|] eqn:Ew; [|eauto].
  destruct (stack aw) as [|[] rest] eqn:Es; eauto.
  rewrite actors_setstack_lookup. case_decide; subst; [|eauto].
  rewrite Ew in E1. injection E1 as <-. rewrite Es in S1. rewrite <- S1 in Hnw. done.
Qed.
Lemma foldl_notify_self F ws s a ac : s.(actors) !! a = Some ac -> not_waiting ac.(stack) ->
  exists ac1, (foldl (notify F) s ws).(actors) !! a = Some ac1 /\ ac1.(stack) = ac.(stack).
Proof.
  revert s ac; induction ws as [|w ws IH]; intros s ac Ea Hnw; cbn; [eauto|].
  destruct (notify_self F s w a ac Ea Hnw) as (ac1 & E1 & S1).
  destruct (IH _ ac1 E1) as (ac2 & E2 & S2); [by rewrite S1|]. exists ac2. split; [done|congruence].
Qed.
Lemma run_job_self F s j a ac : s.(actors) !! a = Some ac -> not_waiting ac.(stack) ->
  exists ac1, (run_job F s j).(actors) !! a = Some ac1 /\ ac1.(stack) = ac.(stack).
Proof.
  intros Ea Hnw. destruct j as [o|o c|o c]; unfold run_job.
  - eauto.
  - rewrite actors_upda_lookup. case_decide; subst; cbn; rewrite Ea; cbn; eauto.
  - set (s1 := upda _ c _).
    assert (H1 : exists ac1, s1.(actors) !! a = Some ac1 /\ ac1.(stack) = ac.(stack)).
    { subst s1. rewrite actors_upda_lookup. case_decide; subst; cbn; rewrite Ea; cbn; eauto. }
    destruct H1 as (ac1 & E1 & S1).
    destruct (actors s1 !! c) as [acc|] eqn:Ec; [|eauto].
    destruct (stack acc) as [|[] rest] eqn:Es; eauto.
    rewrite actors_setstack_lookup. case_decide; subst; [|eauto].
    rewrite Ec in E1. injection E1 as <-. rewrite Es in S1. rewrite <- S1 in Hnw. done.
Qed.
Lemma ncallers_obs s1 s : length s1.(actors) = length s.(actors) -> length s1.(threads) = length s.(threads) -> ncallers s1 = ncallers s.
Proof. unfold ncallers. lia. Qed.

(* wake-ups only change the actors (and the ghost list of run operations) *)
Lemma state_eta s : s = {| queues := queues s; sched := sched s; sched_held := sched_held s; threads := threads s; threads_held := threads_held s;
                           maxt := maxt s; actors := actors s; ran := ran s; nextop := nextop s |}.
Proof. by destruct s. Qed.
Lemma length_actors_setstack s a st : length (setstack s a st).(actors) = length s.(actors).
Proof. apply length_actors_upda. Qed.
Lemma notify_len F s w : length (notify F s w).(actors) = length s.(actors).
Proof.
  unfold notify. set (s1 := if f_sticky_notify F then _ else s).
  assert (H1 : length s1.(actors) = length s.(actors)) by (subst s1; destruct (f_sticky_notify F); [apply length_actors_upda|done]).
  destruct (_ !! w) as [aw|]; [|done]. destruct (stack aw) as [|[] rest]; try done. by rewrite length_actors_setstack.
Qed.
Lemma foldl_notify_len F ws s : length (foldl (notify F) s ws).(actors) = length s.(actors).
Proof. revert s; induction ws as [|w ws IH]; intros s; cbn; [done|]. by rewrite IH, notify_len. Qed.
Lemma run_job_len F s j : length (run_job F s j).(actors) = length s.(actors).
Proof.
  destruct j as [o|o c|o c]; unfold run_job; [done|by rewrite length_actors_upda|].
  set (s1 := upda _ c _). assert (H1 : length s1.(actors) = length s.(actors)) by (subst s1; by rewrite length_actors_upda).
  destruct (_ !! c) as [ac|]; [|done]. destruct (stack ac) as [|[] rest]; try done. by rewrite length_actors_setstack.
Qed.
Lemma notify_frame F s w : exists A, notify F s w = s <| actors := A |>.
Proof.
  unfold notify. set (s1 := if f_sticky_notify F then _ else s).
  assert (H1 : exists A, s1 = s <| actors := A |>).
  { subst s1. destruct (f_sticky_notify F); [by eexists|]. exists (actors s). by destruct s. }
  destruct H1 as (A & ->). destruct (_ !! w) as [aw|]; [|by eexists]. destruct (stack aw) as [|[] rest]; by eexists.
Qed.
Lemma foldl_notify_frame F ws s : exists A, foldl (notify F) s ws = s <| actors := A |>.
Proof.
  revert s; induction ws as [|w ws IH]; intros s; cbn.
  - exists (actors s). by destruct s.
  - destruct (notify_frame F s w) as (A & ->). destruct (IH (s <| actors := A |>)) as (B & ->). by eexists.
Qed.
Lemma run_job_frame F s j : exists A R, run_job F s j = s <| actors := A |> <| ran := R |>.
Proof.
  destruct j as [o|o c|o c]; unfold run_job.
  - exists (actors s), (o :: ran s). by destruct s.
  - by do 2 eexists.
  - set (s1 := upda _ c _). assert (H1 : exists A R, s1 = s <| actors := A |> <| ran := R |>) by (subst s1; by do 2 eexists).
    destruct H1 as (A & R & ->). destruct (_ !! c) as [ac|]; [|by do 2 eexists]. destruct (stack ac) as [|[] rest]; by do 2 eexists.
Qed.

Section ShapeStep.
  Context (T : tables) (F : facts).

  Lemma step_shape s a s' : Shape s -> step T F s a = Some s' -> Shape s'.
  Proof.
    intros HS Hstep. unfold step in Hstep.
    destruct (actors s !! a) as [ac|] eqn:Ea; cbn in Hstep; [|congruence].
    destruct (stack ac) as [|fr rest] eqn:Est; [congruence|].
    pose proof (kind_of s a ac HS Ea) as Hkind. rewrite Est in Hkind.
    pose proof HS as [L Ta Ca Po He Sh Th].
    destruct fr.
    all: cbn beta iota zeta in Hstep.
    all: repeat (first
         [ match type of Hstep with
           | context [queues _ !! ?q] => let E := fresh "Eq" in destruct (queues s !! q) as [qq|] eqn:E; cbn in Hstep; [|congruence]
           | context [threads _ !! ?t] => let E := fresh "Et" in destruct (threads s !! t) as [th|] eqn:E; cbn in Hstep
           end
         | match type of Hstep with context [match ?x with _ => _ end] => let E := fresh "E" in destruct x eqn:E end; cbn in Hstep; try congruence ]).
    all: try discriminate.
    all: try (injection Hstep as <-).
    (* the whole stack is known once we know whether [a] is a caller or the pool actor of thread t0 *)
    all: destruct Hkind as [[Hlt Hok]|(t0 & Hat & Hok)];
         [ apply caller_ok_inv in Hok as [(-> & Hfr)|[(os & -> & Hsf)|(g & os & -> & Hpo)]]; try discriminate;
           try (cbn in Hpo; destruct g; try discriminate; try (apply bool_decide_eq_true in Hpo; subst))
         | apply pool_ok_inv in Hok as [(-> & Hfr)|(-> & Hfr)]; try discriminate; try (cbn in Hfr; apply bool_decide_eq_true in Hfr; subst) ].
    all: try subst a.
    all: locks.
    (* callers that leave the threads alone *)
    all: try (eapply (Shape_update s _ a ac _ HS Ea);
              [ ob_stacks | ob_len
              | intros t1 th' Ht1; exists th'; split; [exact Ht1|]; split; [done|]; goal_decide; [lia|done]
              | intros _; cbn; rewrite ?bool_decide_true by done; done
              | intros t1 Ht1; lia
              | cbn; rewrite ?Est; cbn; try done; congruence | cbn; rewrite ?Est; try done
              | cbn; rewrite ?Est; cbn; try done; congruence | cbn; rewrite ?Est; try done ]; fail).
    (* the scan claims a dormant thread: only busy and chan of that thread change *)
    all: try (lazymatch goal with |- Shape (setstack (updt _ ?i _) _ _) => idtac end;
              eapply (Shape_update s _ a ac _ HS Ea);
              [ ob_stacks | ob_len
              | intros t1 th' Ht1; rewrite threads_setstack, threads_updt_lookup in Ht1; cbn [threads set] in Ht1; (match type of Ht1 with context [decide (?x = ?y)] => destruct (decide (x = y)) end); subst;
                [ match goal with E : threads _ !! _ = Some ?th |- _ => cbn in Ht1; rewrite E in Ht1; cbn in Ht1; injection Ht1 as <-; exists th; split; [done|]; split; [done|] end
                | exists th'; split; [exact Ht1|]; split; [done|] ]; goal_decide; try lia; try done
              | intros _; cbn; rewrite ?bool_decide_true by done; done
              | intros t1 Ht1; try lia
              | cbn; rewrite ?Est; cbn; try done; congruence | cbn; rewrite ?Est; try done
              | cbn; rewrite ?Est; cbn; try done; congruence | cbn; rewrite ?Est; try done ]; fail).
    (* spawning a pool thread *)
    all: try (lazymatch goal with |- Shape (setstack (_ <| threads := _ |> <| actors := _ |>) _ _) => idtac end;
              by eapply Shape_spawn).
    (* steps that first wake waiters (run_job, reschedule_queue): go through the intermediate state *)
    all: try (lazymatch goal with |- Shape (setstack (run_job ?F ?s ?j) ?a ?st) =>
              assert (HS1 : Shape (run_job F s j)) by (by apply Shape_run_job);
              destruct (run_job_self F s j a ac Ea) as (ac1 & Ea1 & Est1); [by rewrite Est|];
              pose proof (run_job_len F s j) as HA;
              destruct (run_job_frame F s j) as (A & R & Hfr); rewrite Hfr in *;
              assert (Hn1 : ncallers (s <| actors := A |> <| ran := R |>) = ncallers s) by (unfold ncallers; cbn in *; lia);
              eapply (Shape_update _ _ a ac1 _ HS1 Ea1);
              [ ob_stacks | ob_len
              | intros t1 th' Ht1; exists th'; split; [exact Ht1|]; split; [done|]; rewrite Hn1; goal_decide; try lia; try done
              | intros _; cbn; rewrite ?bool_decide_true by done; done
              | intros t1 Ht1; rewrite Hn1 in Ht1; try lia
              | cbn; rewrite ?Est1, ?Est; cbn; try done; congruence | cbn; rewrite ?Est1, ?Est; try done
              | cbn; rewrite ?Est1, ?Est; cbn; try done; congruence | cbn; rewrite ?Est1, ?Est; try done ] end; fail).
    all: try (lazymatch goal with |- Shape (setstack (updq (foldl (notify ?F) ?s ?ws) ?q ?g) ?a ?st) =>
              assert (HS1 : Shape (foldl (notify F) s ws)) by (by apply Shape_foldl_notify);
              destruct (foldl_notify_self F ws s a ac Ea) as (ac1 & Ea1 & Est1); [by rewrite Est|];
              pose proof (foldl_notify_len F ws s) as HA;
              destruct (foldl_notify_frame F ws s) as (A & Hfr); rewrite Hfr in *;
              assert (Hn1 : ncallers (s <| actors := A |>) = ncallers s) by (unfold ncallers; cbn in *; lia);
              eapply (Shape_update _ _ a ac1 _ HS1 Ea1);
              [ ob_stacks | ob_len
              | intros t1 th' Ht1; exists th'; split; [exact Ht1|]; split; [done|]; rewrite Hn1; goal_decide; try lia; try done
              | intros _; cbn; rewrite ?bool_decide_true by done; done
              | intros t1 Ht1; rewrite Hn1 in Ht1; try lia
              | cbn; rewrite ?Est1, ?Est; cbn; try done; congruence | cbn; rewrite ?Est1, ?Est; try done
              | cbn; rewrite ?Est1, ?Est; cbn; try done; congruence | cbn; rewrite ?Est1, ?Est; try done ] end; fail).
    (* pool actor steps: its own thread's held flag follows its stack *)
    all: try (assert (Hth0 : exists th0, threads s !! t0 = Some th0 /\ held th0 = holds_busy (stack ac));
              [ destruct (lookup_lt_is_Some_2 (threads s) t0) as [th0 Hth0];
                [ apply lookup_lt_Some in Ea; unfold ncallers in *; lia | exists th0; split; [done|]; by eapply He ] | ];
              destruct Hth0 as (th0 & Hth0 & Hheld0); rewrite Est in Hheld0; cbn in Hheld0).
    all: try (eapply (Shape_update s _ _ ac _ HS Ea);
              [ ob_stacks | ob_len
              | intros t1 th' Ht1; rewrite ?threads_setstack in Ht1; rewrite ?threads_updt_lookup in Ht1; cbn [threads set] in Ht1;
                destruct (decide (t0 = t1)) as [<-|Hne];
                [ try rewrite decide_True in Ht1 by done; cbn in Ht1; rewrite ?Hth0 in Ht1; cbn in Ht1; injection Ht1 as <-;
                  exists th0; split; [done|]; split; [done|]; rewrite decide_True by done; cbn; congruence
                | try rewrite decide_False in Ht1 by done; exists th'; split; [exact Ht1|]; split; [done|]; rewrite decide_False by lia; done ]
              | intros Hc; lia
              | intros t1 Ht1; assert (t1 = t0) by lia; subst; cbn; rewrite ?bool_decide_true by done; done
              | cbn; rewrite ?Est; cbn; try done; congruence | cbn; rewrite ?Est; try done
              | cbn; rewrite ?Est; cbn; try done; congruence | cbn; rewrite ?Est; try done ]; fail).
    all: try (lazymatch goal with |- Shape (setstack (run_job ?F ?s ?j) ?a ?st) =>
              assert (HS1 : Shape (run_job F s j)) by (by apply Shape_run_job);
              destruct (run_job_self F s j a ac Ea) as (ac1 & Ea1 & Est1); [by rewrite Est|];
              pose proof (run_job_len F s j) as HA;
              destruct (run_job_frame F s j) as (A & R & Hfr); rewrite Hfr in *;
              assert (Hn1 : ncallers (s <| actors := A |> <| ran := R |>) = ncallers s) by (unfold ncallers; cbn in *; lia);
              eapply (Shape_update _ _ _ ac1 _ HS1 Ea1);
              [ ob_stacks | ob_len
              | intros t1 th' Ht1; cbn [threads set] in Ht1; rewrite Hn1;
                destruct (decide (t0 = t1)) as [<-|Hne];
                [ rewrite Hth0 in Ht1; injection Ht1 as <-; exists th0; split; [done|]; split; [done|]; rewrite decide_True by done; cbn; congruence
                | exists th'; split; [exact Ht1|]; split; [done|]; rewrite decide_False by lia; done ]
              | rewrite Hn1; intros Hc; lia
              | rewrite Hn1; intros t1 Ht1; assert (t1 = t0) by lia; subst; cbn; rewrite ?bool_decide_true by done; done
              | cbn; rewrite ?Est1, ?Est; cbn; try done; congruence | cbn; rewrite ?Est1, ?Est; try done
              | cbn; rewrite ?Est1, ?Est; cbn; try done; congruence | cbn; rewrite ?Est1, ?Est; try done ] end; fail).
    assert (HS1 : Shape (run_job F s j)) by (by apply Shape_run_job).
    destruct (run_job_self F s j _ ac Ea) as (ac1 & Ea1 & Est1); [by rewrite Est|].
    pose proof (run_job_len F s j) as HA.
    destruct (run_job_frame F s j) as (A & R & Hfr2). rewrite Hfr2 in *.
    assert (Hn1 : ncallers (s <| actors := A |> <| ran := R |>) = ncallers s) by (unfold ncallers; cbn in *; lia).
    rewrite <- Hn1 in Ea1.
    eapply (Shape_update _ _ _ ac1 _ HS1 Ea1).
    - rewrite Hn1. ob_stacks.
    - ob_len.
    - intros t1 th' Ht1. cbn [threads set] in Ht1. rewrite Hn1.
      destruct (decide (t0 = t1)) as [<-|Hne].
      + change (threads s !! t0 = Some th') in Ht1. rewrite Hth0 in Ht1. injection Ht1 as <-. exists th0. split; [done|]. split; [done|]. rewrite decide_True by done. cbn. congruence.
      + exists th'. split; [exact Ht1|]. split; [done|]. rewrite decide_False by lia. done.
    - rewrite Hn1. intros Hc. lia.
    - rewrite Hn1. intros t1 Ht1. assert (t1 = t0) by lia. subst. cbn. rewrite ?bool_decide_true by done. done.
    - cbn. rewrite ?Est1, ?Est. cbn. done.
    - cbn. done.
    - cbn. rewrite ?Est1, ?Est. cbn. done.
    - cbn. done.
  Qed.

  Lemma init_shape nq mx scripts : Shape (init nq mx scripts).
  Proof.
    split; unfold init, ncallers; cbn.
    - lia.
    - intros t th H. done.
    - intros a ac H _. rewrite list_lookup_fmap in H. destruct (scripts !! a); [|done]. injection H as <-. done.
    - intros t ac H. rewrite fmap_length in H. apply lookup_lt_Some in H. rewrite fmap_length in H. lia.
    - intros t th ac H. done.
    - intros h. split; [done|]. intros (ac & t & H1 & H2). rewrite list_lookup_fmap in H1. destruct (scripts !! h); [|done]. injection H1 as <-. done.
    - intros h. split; [done|]. intros (ac & i & r & H1 & H2). rewrite list_lookup_fmap in H1. destruct (scripts !! h); [|done]. injection H1 as <-. done.
  Qed.

  Theorem reachable_shape nq mx scripts tr s :
    foldl (fun os a => o ← os; step T F o a) (Some (init nq mx scripts)) tr = Some s -> Shape s.
  Proof.
    pose proof (init_shape nq mx scripts) as H0. revert H0. generalize (init nq mx scripts).
    induction tr as [|a tr IH]; intros s0 H0; cbn.
    - by intros [= <-].
    - destruct (step T F s0 a) as [s1|] eqn:E; cbn.
      + apply IH. by eapply step_shape.
      + clear. induction tr; cbn; done.
  Qed.
End ShapeStep.

Print Assumptions reachable_shape.

