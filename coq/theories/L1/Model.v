From stdpp Require Import list numbers option.
From RecordUpdate Require Import RecordUpdate.

From L0 Require Export Types.

Definition orig_tables : tables := {|
  t_desync st := match st with Idle => (Pending, DASchedule) | Panicked => (Panicked, DAPanic) | s => (s, DANone) end;
  t_sync st e := match st with
     | Running | WaitingForWake | WaitingForUnpark | WaitingForPoll _ | AwokenWhileRunning => (st, SABackground)
     | Panicked => (st, SAPanic)
     | Pending => (Running, SADrain)
     | Idle => (Running, if e then SAImmediate else SADrain) end;
  t_trysync st e := match st with
     | Panicked => (st, TAPanic)
     | Idle => (Running, if e then TAImmediate else TABusy)       (* the defect: Running even when Busy *)
     | _ => (st, TABusy) end;
  t_resched st ne := match st with
     | Idle => if ne then (Pending, true) else (Idle, false)
     | WaitingForPoll _ => (st, true)
     | _ => (st, false) end;
  t_next st := match st with Pending | WaitingForPoll _ => Some Running | _ => None end;
  t_claim st := match st with Pending | Idle => Some Running | _ => None end;
  t_dequeue_refuses st := match st with WaitingForWake | WaitingForPoll _ | WaitingForUnpark => true | _ => false end;
  t_drain_fin st e := if e then ((if is_running st then Idle else st), true)
                      else match st with Pending => (st, true) | _ => (st, false) end;
|}.
Definition fixed_trysync (T : tables) : tables :=
  {| t_desync := T.(t_desync); t_sync := T.(t_sync);
     t_trysync st e := match st with Panicked => (st, TAPanic) | Idle => if e then (Running, TAImmediate) else (Idle, TABusy) | _ => (st, TABusy) end;
     t_resched := T.(t_resched); t_next := T.(t_next); t_claim := T.(t_claim);
     t_dequeue_refuses := T.(t_dequeue_refuses); t_drain_fin := T.(t_drain_fin) |}.

(* ---------- L1 state ---------- *)
Inductive job := JPlain (op : nat) | JSyncDrain (op caller : nat) | JSyncBg (op caller : nat).
Inductive op := ODesync (q : nat) | OSync (q : nat) | OTrySync (q : nat).

Record queue := { qs : qstate; jobs : list job; wake_blocked : list nat; owner : option nat (* ghost *) }.
#[export] Instance eta_queue : Settable _ := settable! Build_queue <qs; jobs; wake_blocked; owner>.
Record pthread := { busy : bool; held : bool; chan : nat; tactor : nat }.
#[export] Instance eta_pthread : Settable _ := settable! Build_pthread <busy; held; chan; tactor>.

Inductive frame :=
(* caller top level *)
| FTop (script : list op)
(* desync *)
| FD1 (q : nat) | FD2 (q : nat)
(* schedule_thread *)
| FSTlock | FSTscan (i : nat) | FSTspawn
(* sync *)
| FS1 (q : nat)
| FSIrun (q : nat) | FSIidle (q : nat)
| FSDpush (q : nat) | FSDloop (q : nat) | FSDidle (q : nat)
| FSBreg (q : nat) | FSBpush (q : nat) | FSBcheck (q : nat) | FSBwait (q : nat) | FSBwoken (q : nat)
| FSBclaim (q : nat) | FSBsteal (q : nat) | FSBstealidle (q : nat) | FSBdone (q : nat)
(* run_one_job_now *)
| FROdeq (q : nat) | FROrun (q : nat) (j : job)
(* try_sync *)
| FTS1 (q : nat)
(* reschedule_queue *)
| FRQ1 (q : nat) | FRQ2 (q : nat)
(* pool thread *)
| FTrecv (t : nat) | FTlock (t : nat) | FTnext (t : nat) | FTexam (t : nat) | FTrelnone (t : nat) | FTrelsome (t q : nat)
| FDRdeq (q : nat) | FDRrun (q : nat) (j : job) | FDRfin (q : nat).

Record actor := { stack : list frame; ready : bool; result : bool; opctr : nat; kicked : bool }.
#[export] Instance eta_actor : Settable _ := settable! Build_actor <stack; ready; result; opctr; kicked>.

Record state := { queues : list queue; sched : list nat; sched_held : option nat; threads : list pthread; threads_held : option nat; maxt : nat;
                  actors : list actor; ran : list nat (* ghost: ops whose closure ran, by global op id *); nextop : nat }.
#[export] Instance eta_state : Settable _ := settable! Build_state <queues; sched; sched_held; threads; threads_held; maxt; actors; ran; nextop>.

Definition updq (s : state) (q : nat) (f : queue -> queue) := s <| queues := alter f q s.(queues) |>.
Definition upda (s : state) (a : nat) (f : actor -> actor) := s <| actors := alter f a s.(actors) |>.
Definition updt (s : state) (t : nat) (f : pthread -> pthread) := s <| threads := alter f t s.(threads) |>.
Definition setstack (s : state) (a : nat) (st : list frame) := upda s a (fun x => x <| stack := st |>).

(* notify a condvar belonging to waiter [w]: only effective if [w] is currently inside wait (unless sticky) *)
Definition notify (F : facts) (s : state) (w : nat) : state :=
  let s := if F.(f_sticky_notify) then upda s w (fun x => x <| kicked := true |>) else s in
  match s.(actors) !! w with
  | Some aw => match aw.(stack) with
               | FSBwait q :: rest => setstack s w (FSBwoken q :: rest)
               | _ => s
               end
  | None => s
  end.

Definition run_job (F : facts) (s : state) (j : job) : state :=
  match j with
  | JPlain o => s <| ran := o :: s.(ran) |>
  | JSyncDrain o c => upda (s <| ran := o :: s.(ran) |>) c (fun x => x <| result := true |>)
  | JSyncBg o c => (* run closure, set result; then the wrapper is dropped: ready := true; notify_all *)
      let s1 := upda (s <| ran := o :: s.(ran) |>) c (fun x => x <| result := true |> <| ready := true |>) in
      match s1.(actors) !! c with
      | Some ac => match ac.(stack) with FSBwait q :: rest => setstack s1 c (FSBwoken q :: rest) | _ => s1 end
      | None => s1
      end
  end.

Definition free (h : option nat) : bool := match h with None => true | Some _ => false end.
Definition mine (h : option nat) (a : nat) : bool := match h with Some b => bool_decide (a = b) | None => false end.

Definition step (T : tables) (F : facts) (s : state) (a : nat) : option state :=
  ac ← s.(actors) !! a;
  match ac.(stack) with
  | [] => None
  | fr :: rest =>
    let ret := setstack s a rest in
    let goto s' f := setstack s' a (f :: rest) in
    let call s' f k := setstack s' a (f :: k :: rest) in
    match fr with
    | FTop [] => None
    | FTop (o :: os) =>
        let s1 := s <| nextop := S s.(nextop) |> in
        let s1 := upda s1 a (fun x => x <| opctr := s.(nextop) |> <| ready := false |> <| result := false |>) in
        match o with
        | ODesync q => Some (setstack s1 a (FD1 q :: FTop os :: rest))
        | OSync q => Some (setstack s1 a (FS1 q :: FTop os :: rest))
        | OTrySync q => Some (setstack s1 a (FTS1 q :: FTop os :: rest))
        end
    | FD1 q =>
        qq ← s.(queues) !! q;
        let '(st', act) := T.(t_desync) qq.(qs) in
        let s1 := updq s q (fun x => x <| jobs := x.(jobs) ++ [JPlain ac.(opctr)] |> <| qs := st' |>) in
        match act with DASchedule => Some (goto s1 (FD2 q)) | _ => Some (setstack s1 a rest) end
    | FD2 q => if free s.(sched_held) then Some (goto (s <| sched := s.(sched) ++ [q] |>) FSTlock) else None
    | FSTlock => if free s.(threads_held) then Some (goto (s <| threads_held := Some a |>) (FSTscan 0)) else None
    | FSTscan i =>
        if negb (mine s.(threads_held) a) then None else
        match s.(threads) !! i with
        | None => Some (goto (s <| threads_held := None |>) FSTspawn)
        | Some th =>
            if th.(held) then (if F.(f_dormant_blocks) then None else Some (goto s (FSTscan (S i))))
            else if th.(busy) then Some (goto s (FSTscan (S i)))
            else Some (setstack (updt (s <| threads_held := None |>) i (fun x => x <| busy := true |> <| chan := S x.(chan) |>)) a rest)
        end
    | FSTspawn =>
        if negb (free s.(threads_held)) then None else
        if decide (length s.(threads) < s.(maxt)) then
          let t := length s.(threads) in
          let na := length s.(actors) in
          let s1 := s <| threads := s.(threads) ++ [ {| busy := false; held := false; chan := 0; tactor := na |} ] |>
                      <| actors := s.(actors) ++ [ {| stack := [FTrecv t]; ready := false; result := false; opctr := 0; kicked := false |} ] |> in
          Some (goto s1 FSTlock)
        else Some ret
    | FS1 q =>
        qq ← s.(queues) !! q;
        let '(st', act) := T.(t_sync) qq.(qs) (bool_decide (qq.(jobs) = [])) in
        let s1 := updq s q (fun x => x <| qs := st' |>) in
        let s1o := updq s1 q (fun x => x <| owner := Some a |>) in
        match act with
        | SAImmediate => Some (goto s1o (FSIrun q))
        | SADrain => Some (goto s1o (FSDpush q))
        | SABackground => Some (goto s1 (FSBreg q))
        | SAPanic => Some (setstack s1 a rest)
        end
    | FSIrun q => Some (goto (s <| ran := ac.(opctr) :: s.(ran) |>) (FSIidle q))
    | FSIidle q => Some (goto (updq s q (fun x => x <| qs := Idle |> <| owner := None |>)) (FRQ1 q))
    | FSDpush q => Some (goto (updq s q (fun x => x <| jobs := x.(jobs) ++ [JSyncDrain ac.(opctr) a] |>)) (FSDloop q))
    | FSDloop q => if ac.(result) then Some (goto s (FSDidle q)) else Some (call s (FROdeq q) (FSDloop q))
    | FSDidle q => Some (goto (updq s q (fun x => x <| qs := Idle |> <| owner := None |>)) (FRQ1 q))
    | FSBreg q => Some (goto (upda (updq s q (fun x => x <| wake_blocked := x.(wake_blocked) ++ [a] |>)) a (fun x => x <| kicked := F.(f_sticky_notify) |>)) (FSBpush q))
    | FSBpush q =>
        qq ← s.(queues) !! q;
        let idle := match qq.(qs) with Idle => true | _ => false end in
        let s1 := updq s q (fun x => x <| jobs := x.(jobs) ++ [JSyncBg ac.(opctr) a] |>) in
        if idle then Some (call s1 (FRQ1 q) (FSBcheck q)) else Some (goto s1 (FSBcheck q))
    | FSBcheck q => if ac.(ready) then Some (goto s (FSBdone q))
                    else if ac.(kicked) then Some (goto (upda s a (fun x => x <| kicked := false |>)) (FSBclaim q))
                    else Some (goto s (FSBwait q))
    | FSBwait q => None
    | FSBwoken q => if ac.(ready) then Some (goto s (FSBdone q)) else Some (goto (upda s a (fun x => x <| kicked := false |>)) (FSBclaim q))
    | FSBclaim q =>
        if negb (free s.(sched_held)) then None else
        qq ← s.(queues) !! q;
        match T.(t_claim) qq.(qs) with
        | Some st' => Some (goto (updq (s <| sched := filter (fun x => x <> q) s.(sched) |>) q (fun x => x <| qs := st' |> <| owner := Some a |>)) (FSBsteal q))
        | None => Some (goto s (FSBcheck q))
        end
    | FSBsteal q => if ac.(ready) then Some (goto s (FSBstealidle q)) else Some (call s (FROdeq q) (FSBsteal q))
    | FSBstealidle q => Some (call (updq s q (fun x => x <| qs := Idle |> <| owner := None |>)) (FRQ1 q) (FSBcheck q))
    | FSBdone q => Some (setstack (updq s q (fun x => x <| wake_blocked := filter (fun w => w <> a) x.(wake_blocked) |>)) a rest)
    | FROdeq q =>
        qq ← s.(queues) !! q;
        if T.(t_dequeue_refuses) qq.(qs) then Some ret
        else match qq.(jobs) with
             | [] => Some ret
             | j :: js => Some (goto (updq s q (fun x => x <| jobs := js |>)) (FROrun q j))
             end
    | FROrun q j => Some (setstack (run_job F s j) a rest)
    | FTS1 q =>
        qq ← s.(queues) !! q;
        let '(st', act) := T.(t_trysync) qq.(qs) (bool_decide (qq.(jobs) = [])) in
        let s1 := updq s q (fun x => x <| qs := st' |>) in
        match act with
        | TAImmediate => Some (goto (updq s1 q (fun x => x <| owner := Some a |>)) (FSIrun q))
        | _ => Some (setstack s1 a rest)
        end
    | FRQ1 q =>
        qq ← s.(queues) !! q;
        let s1 := foldl (notify F) s qq.(wake_blocked) in
        let '(st', push) := T.(t_resched) qq.(qs) (negb (bool_decide (qq.(jobs) = []))) in
        let s2 := updq s1 q (fun x => x <| qs := st' |>) in
        if push then Some (setstack s2 a (FRQ2 q :: rest)) else Some (setstack s2 a rest)
    | FRQ2 q => if free s.(sched_held) then Some (goto (s <| sched := s.(sched) ++ [q] |>) FSTlock) else None
    | FTrecv t =>
        th ← s.(threads) !! t;
        match th.(chan) with
        | 0 => None
        | S n => Some (goto (updt s t (fun x => x <| chan := n |>)) (FTlock t))
        end
    | FTlock t => Some (goto (updt s t (fun x => x <| held := true |>)) (FTnext t))
    | FTnext t => if free s.(sched_held) then Some (goto (s <| sched_held := Some a |>) (FTexam t)) else None
    | FTexam t =>
        if negb (mine s.(sched_held) a) then None else
        match s.(sched) with
        | [] => Some (goto (s <| sched_held := None |>) (FTrelnone t))
        | q :: sc' =>
            match s.(queues) !! q with
            | None => Some (goto (s <| sched := sc' |>) (FTexam t))
            | Some qq =>
                match T.(t_next) qq.(qs) with
                | Some st' => Some (goto (updq (s <| sched := sc' |> <| sched_held := None |>) q (fun x => x <| qs := st' |> <| owner := Some a |>)) (FTrelsome t q))
                | None => Some (goto (s <| sched := sc' |>) (FTexam t))
                end
            end
        end
    | FTrelnone t => Some (goto (updt s t (fun x => x <| busy := false |> <| held := false |>)) (FTrecv t))
    | FTrelsome t q => Some (setstack (updt s t (fun x => x <| held := false |>)) a (FDRdeq q :: FTlock t :: rest))
    | FDRdeq q =>
        qq ← s.(queues) !! q;
        if T.(t_dequeue_refuses) qq.(qs) then Some (goto s (FDRfin q))
        else match qq.(jobs) with
             | [] => Some (goto s (FDRfin q))
             | j :: js => Some (goto (updq s q (fun x => x <| jobs := js |>)) (FDRrun q j))
             end
    | FDRrun q j => Some (goto (run_job F s j) (FDRdeq q))
    | FDRfin q =>
        qq ← s.(queues) !! q;
        let '(st', done) := T.(t_drain_fin) qq.(qs) (bool_decide (qq.(jobs) = [])) in
        let s1 := updq s q (fun x => x <| qs := st' |>) in
        if done then Some (setstack (updq s1 q (fun x => x <| owner := None |>)) a rest) else Some (goto s1 (FDRdeq q))
    end
  end.

Definition init (nq : nat) (mx : nat) (scripts : list (list op)) : state :=
  {| queues := replicate nq {| qs := Idle; jobs := []; wake_blocked := []; owner := None |};
     sched := []; sched_held := None; threads := []; threads_held := None; maxt := mx;
     actors := (fun sc => {| stack := [FTop sc]; ready := false; result := false; opctr := 0; kicked := false |}) <$> scripts;
     ran := []; nextop := 0 |}.

Definition actor_done (ac : actor) : bool :=
  match ac.(stack) with [FTop []] => true | [FTrecv _] => true | _ => false end.
Definition complete (s : state) : bool :=
  forallb actor_done s.(actors) &&
  forallb (fun q => match q.(qs), q.(jobs) with Idle, [] => true | _, _ => false end) s.(queues) &&
  forallb (fun t => negb t.(busy)) s.(threads).
