From stdpp Require Import list numbers option.
From RecordUpdate Require Import RecordUpdate.
From L1 Require Import Model Own Shape Stuck Live.

(* ---------- try_sync (C09): never blocks, never half-runs, never disturbs the queue ---------- *)
Record trysync_conditions (T : tables) : Prop := {
  ts_busy_unchanged : forall st e st', T.(t_trysync) st e = (st', TABusy) -> st' = st;
  ts_panic_unchanged : forall st e st', T.(t_trysync) st e = (st', TAPanic) -> st' = st /\ st = Panicked;
  ts_imm_only_idle_empty : forall st e st', T.(t_trysync) st e = (st', TAImmediate) -> st = Idle /\ e = true /\ st' = Running;
  ts_idle_empty_imm : T.(t_trysync) Idle true = (Running, TAImmediate);
}.

Lemma queue_eta (x : queue) : x <| qs := qs x |> = x. Proof. by destruct x. Qed.
Lemma alter_same {A} (f : A -> A) (l : list A) q x : l !! q = Some x -> f x = x -> alter f q l = l.
Proof.
  intros Hq Hf. apply list_eq. intros i. destruct (decide (i = q)) as [->|Hn].
  - rewrite list_lookup_alter, Hq. cbn. by rewrite Hf.
  - by rewrite list_lookup_alter_ne.
Qed.
Lemma state_eta (s : state) : s <| queues := queues s |> = s. Proof. by destruct s. Qed.
Lemma updq_same s q qq : s.(queues) !! q = Some qq -> updq s q (fun x => x <| qs := qs qq |>) = s.
Proof.
  intros Hq. unfold updq. rewrite (alter_same _ _ _ _ Hq); [apply state_eta|apply queue_eta].
Qed.

Section TrySync.
  Context (T : tables) (F : facts) (HC : trysync_conditions T).

  (* the decision step of try_sync is always enabled on an existing object: the call has no waiting point *)
  Lemma trysync_enabled s a ac q rest qq :
    s.(actors) !! a = Some ac -> ac.(stack) = FTS1 q :: rest -> s.(queues) !! q = Some qq -> is_Some (step T F s a).
  Proof.
    intros Ea Est Eq. unfold step. rewrite Ea; cbn. rewrite Est; cbn. rewrite Eq; cbn.
    destruct (t_trysync T (qs qq) (bool_decide (jobs qq = []))) as [st' act]. destruct act; eauto.
  Qed.

  (* what the decision step does: either the object is idle with nothing queued and the caller becomes its owner and goes
     on to run the closure, or NOTHING but the caller's own stack changes (Busy / Panic): queue state, queued jobs,
     schedule, pool and the set of closures that have run are all untouched *)
  Lemma trysync_decision s a ac q rest qq s' :
    s.(actors) !! a = Some ac -> ac.(stack) = FTS1 q :: rest -> s.(queues) !! q = Some qq -> step T F s a = Some s' ->
    (qq.(qs) = Idle /\ qq.(jobs) = [] /\
       s' = setstack (updq (updq s q (fun x => x <| qs := Running |>)) q (fun x => x <| owner := Some a |>)) a (FSIrun q :: rest))
    \/ ((qq.(qs) <> Idle \/ qq.(jobs) <> []) /\ s' = setstack s a rest).
  Proof.
    intros Ea Est Eq Hstep. unfold step in Hstep. rewrite Ea in Hstep; cbn in Hstep. rewrite Est in Hstep; cbn in Hstep. rewrite Eq in Hstep; cbn in Hstep.
    destruct (t_trysync T (qs qq) (bool_decide (jobs qq = []))) as [st' act] eqn:E. destruct act; injection Hstep as <-.
    - apply (ts_imm_only_idle_empty _ HC) in E as (E1 & E2 & ->). left. apply bool_decide_eq_true in E2. done.
    - pose proof (ts_busy_unchanged _ HC _ _ _ E) as ->. right. rewrite (updq_same _ _ _ Eq). split; [|done].
      destruct (decide (qs qq = Idle)) as [Hi|]; [|by left]. right. intros Hj.
      rewrite Hi in E. rewrite bool_decide_eq_true_2 in E by done. rewrite (ts_idle_empty_imm _ HC) in E. congruence.
    - pose proof (ts_panic_unchanged _ HC _ _ _ E) as (-> & Hp). right. rewrite (updq_same _ _ _ Eq). split; [|done]. left. congruence.
  Qed.

  (* an object with nothing queued and nothing in progress accepts try_sync *)
  Lemma trysync_succeeds_when_idle s a ac q rest qq :
    s.(actors) !! a = Some ac -> ac.(stack) = FTS1 q :: rest -> s.(queues) !! q = Some qq -> qq.(qs) = Idle -> qq.(jobs) = [] ->
    exists s', step T F s a = Some s' /\ (stack <$> (s'.(actors) !! a)) = Some (FSIrun q :: rest).
  Proof.
    intros Ea Est Eq Hi Hj. destruct (trysync_enabled s a ac q rest qq Ea Est Eq) as [s' Hs]. exists s'. split; [done|].
    destruct (trysync_decision s a ac q rest qq s' Ea Est Eq Hs) as [(_ & _ & ->)|([?|?] & _)]; [|done|done].
    unfold setstack, upda, updq; cbn. rewrite list_lookup_alter, Ea. done.
  Qed.
End TrySync.

(* in every reachable state an object that holds no job and has no runner is Idle (so try_sync on it succeeds) *)
Section Quiescent.
  Context (T : tables) (F : facts) (HK : core_tables T) (HT : own_conditions T).

  Theorem quiescent_object_is_idle nq mx scripts tr s q qq :
    run T F (init nq mx scripts) tr = Some s -> s.(queues) !! q = Some qq -> qq.(jobs) = [] -> qq.(owner) = None -> qq.(qs) = Idle.
  Proof.
    intros Hr Hq Hj Ho.
    assert (H3 : Shape s /\ Inv s /\ QInv s).
    { clear Hq Hj Ho. revert Hr. unfold run.
      assert (H0 : Shape (init nq mx scripts) /\ Inv (init nq mx scripts) /\ QInv (init nq mx scripts)).
      { split; [apply init_shape|]. split.
        - eapply (reachable_inv T F HT nq mx scripts []). done.
        - intros q0 qq0 Hq0. unfold init in Hq0; cbn in Hq0. apply lookup_replicate in Hq0 as [-> _]. split; cbn; [by left|done|done]. }
      revert H0. generalize (init nq mx scripts). induction tr as [|a tr IH]; intros s0 H0; cbn.
      - by intros [= <-].
      - destruct (step T F s0 a) as [s1|] eqn:E; cbn.
        + apply IH. destruct H0 as (A & B & C). split; [by eapply step_shape|]. split; [by eapply step_inv|by eapply step_q].
        + intros Hf. exfalso. clear -Hf. induction tr as [|b tr IH]; cbn in Hf; [done|]. by apply IH. }
    destruct H3 as (HS & HI & HQ). destruct (HQ q qq Hq) as [[Hc|[Hc|Hc]] Hp _]; [done| |].
    - destruct (Hp Hc) as [Hne _]. done.
    - apply (inv_state _ HI q qq Hq) in Hc. rewrite Ho in Hc. by destruct Hc.
  Qed.
End Quiescent.

Print Assumptions trysync_decision.
Print Assumptions quiescent_object_is_idle.
