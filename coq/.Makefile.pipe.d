theories/Pipe/Model.vo theories/Pipe/Model.glob theories/Pipe/Model.v.beautified theories/Pipe/Model.required_vo: theories/Pipe/Model.v 
theories/Pipe/Model.vio: theories/Pipe/Model.v 
theories/Pipe/Model.vos theories/Pipe/Model.vok theories/Pipe/Model.required_vos: theories/Pipe/Model.v 
theories/Pipe/Base.vo theories/Pipe/Base.glob theories/Pipe/Base.v.beautified theories/Pipe/Base.required_vo: theories/Pipe/Base.v theories/Pipe/Model.vo
theories/Pipe/Base.vio: theories/Pipe/Base.v theories/Pipe/Model.vio
theories/Pipe/Base.vos theories/Pipe/Base.vok theories/Pipe/Base.required_vos: theories/Pipe/Base.v theories/Pipe/Model.vos
theories/Pipe/Data.vo theories/Pipe/Data.glob theories/Pipe/Data.v.beautified theories/Pipe/Data.required_vo: theories/Pipe/Data.v theories/Pipe/Model.vo theories/Pipe/Base.vo
theories/Pipe/Data.vio: theories/Pipe/Data.v theories/Pipe/Model.vio theories/Pipe/Base.vio
theories/Pipe/Data.vos theories/Pipe/Data.vok theories/Pipe/Data.required_vos: theories/Pipe/Data.v theories/Pipe/Model.vos theories/Pipe/Base.vos
theories/Pipe/Notify.vo theories/Pipe/Notify.glob theories/Pipe/Notify.v.beautified theories/Pipe/Notify.required_vo: theories/Pipe/Notify.v theories/Pipe/Model.vo theories/Pipe/Base.vo
theories/Pipe/Notify.vio: theories/Pipe/Notify.v theories/Pipe/Model.vio theories/Pipe/Base.vio
theories/Pipe/Notify.vos theories/Pipe/Notify.vok theories/Pipe/Notify.required_vos: theories/Pipe/Notify.v theories/Pipe/Model.vos theories/Pipe/Base.vos
theories/Pipe/Token.vo theories/Pipe/Token.glob theories/Pipe/Token.v.beautified theories/Pipe/Token.required_vo: theories/Pipe/Token.v theories/Pipe/Model.vo theories/Pipe/Base.vo theories/Pipe/Notify.vo
theories/Pipe/Token.vio: theories/Pipe/Token.v theories/Pipe/Model.vio theories/Pipe/Base.vio theories/Pipe/Notify.vio
theories/Pipe/Token.vos theories/Pipe/Token.vok theories/Pipe/Token.required_vos: theories/Pipe/Token.v theories/Pipe/Model.vos theories/Pipe/Base.vos theories/Pipe/Notify.vos
theories/Pipe/Closed.vo theories/Pipe/Closed.glob theories/Pipe/Closed.v.beautified theories/Pipe/Closed.required_vo: theories/Pipe/Closed.v theories/Pipe/Model.vo theories/Pipe/Base.vo theories/Pipe/Data.vo theories/Pipe/Notify.vo theories/Pipe/Token.vo
theories/Pipe/Closed.vio: theories/Pipe/Closed.v theories/Pipe/Model.vio theories/Pipe/Base.vio theories/Pipe/Data.vio theories/Pipe/Notify.vio theories/Pipe/Token.vio
theories/Pipe/Closed.vos theories/Pipe/Closed.vok theories/Pipe/Closed.required_vos: theories/Pipe/Closed.v theories/Pipe/Model.vos theories/Pipe/Base.vos theories/Pipe/Data.vos theories/Pipe/Notify.vos theories/Pipe/Token.vos
theories/Pipe/Terminal.vo theories/Pipe/Terminal.glob theories/Pipe/Terminal.v.beautified theories/Pipe/Terminal.required_vo: theories/Pipe/Terminal.v theories/Pipe/Model.vo theories/Pipe/Base.vo theories/Pipe/Data.vo theories/Pipe/Notify.vo theories/Pipe/Token.vo theories/Pipe/Closed.vo
theories/Pipe/Terminal.vio: theories/Pipe/Terminal.v theories/Pipe/Model.vio theories/Pipe/Base.vio theories/Pipe/Data.vio theories/Pipe/Notify.vio theories/Pipe/Token.vio theories/Pipe/Closed.vio
theories/Pipe/Terminal.vos theories/Pipe/Terminal.vok theories/Pipe/Terminal.required_vos: theories/Pipe/Terminal.v theories/Pipe/Model.vos theories/Pipe/Base.vos theories/Pipe/Data.vos theories/Pipe/Notify.vos theories/Pipe/Token.vos theories/Pipe/Closed.vos
theories/Pipe/Drop.vo theories/Pipe/Drop.glob theories/Pipe/Drop.v.beautified theories/Pipe/Drop.required_vo: theories/Pipe/Drop.v theories/Pipe/Model.vo theories/Pipe/Base.vo theories/Pipe/Notify.vo theories/Pipe/Terminal.vo
theories/Pipe/Drop.vio: theories/Pipe/Drop.v theories/Pipe/Model.vio theories/Pipe/Base.vio theories/Pipe/Notify.vio theories/Pipe/Terminal.vio
theories/Pipe/Drop.vos theories/Pipe/Drop.vok theories/Pipe/Drop.required_vos: theories/Pipe/Drop.v theories/Pipe/Model.vos theories/Pipe/Base.vos theories/Pipe/Notify.vos theories/Pipe/Terminal.vos
theories/Pipe/Scenarios.vo theories/Pipe/Scenarios.glob theories/Pipe/Scenarios.v.beautified theories/Pipe/Scenarios.required_vo: theories/Pipe/Scenarios.v theories/Pipe/Model.vo
theories/Pipe/Scenarios.vio: theories/Pipe/Scenarios.v theories/Pipe/Model.vio
theories/Pipe/Scenarios.vos theories/Pipe/Scenarios.vok theories/Pipe/Scenarios.required_vos: theories/Pipe/Scenarios.v theories/Pipe/Model.vos
theories/Pipe/Refute.vo theories/Pipe/Refute.glob theories/Pipe/Refute.v.beautified theories/Pipe/Refute.required_vo: theories/Pipe/Refute.v theories/Pipe/Model.vo theories/Pipe/Base.vo theories/Pipe/Notify.vo theories/Pipe/Terminal.vo theories/Pipe/Drop.vo theories/Pipe/Scenarios.vo
theories/Pipe/Refute.vio: theories/Pipe/Refute.v theories/Pipe/Model.vio theories/Pipe/Base.vio theories/Pipe/Notify.vio theories/Pipe/Terminal.vio theories/Pipe/Drop.vio theories/Pipe/Scenarios.vio
theories/Pipe/Refute.vos theories/Pipe/Refute.vok theories/Pipe/Refute.required_vos: theories/Pipe/Refute.v theories/Pipe/Model.vos theories/Pipe/Base.vos theories/Pipe/Notify.vos theories/Pipe/Terminal.vos theories/Pipe/Drop.vos theories/Pipe/Scenarios.vos
theories/Pipe/PropsC12.vo theories/Pipe/PropsC12.glob theories/Pipe/PropsC12.v.beautified theories/Pipe/PropsC12.required_vo: theories/Pipe/PropsC12.v theories/Pipe/Model.vo theories/Pipe/Base.vo theories/Pipe/Data.vo theories/Pipe/Notify.vo theories/Pipe/Token.vo theories/Pipe/Closed.vo theories/Pipe/Terminal.vo theories/Pipe/Scenarios.vo theories/Pipe/Refute.vo
theories/Pipe/PropsC12.vio: theories/Pipe/PropsC12.v theories/Pipe/Model.vio theories/Pipe/Base.vio theories/Pipe/Data.vio theories/Pipe/Notify.vio theories/Pipe/Token.vio theories/Pipe/Closed.vio theories/Pipe/Terminal.vio theories/Pipe/Scenarios.vio theories/Pipe/Refute.vio
theories/Pipe/PropsC12.vos theories/Pipe/PropsC12.vok theories/Pipe/PropsC12.required_vos: theories/Pipe/PropsC12.v theories/Pipe/Model.vos theories/Pipe/Base.vos theories/Pipe/Data.vos theories/Pipe/Notify.vos theories/Pipe/Token.vos theories/Pipe/Closed.vos theories/Pipe/Terminal.vos theories/Pipe/Scenarios.vos theories/Pipe/Refute.vos
theories/Pipe/PropsC16.vo theories/Pipe/PropsC16.glob theories/Pipe/PropsC16.v.beautified theories/Pipe/PropsC16.required_vo: theories/Pipe/PropsC16.v theories/Pipe/Model.vo theories/Pipe/Base.vo theories/Pipe/Drop.vo theories/Pipe/Scenarios.vo theories/Pipe/Refute.vo
theories/Pipe/PropsC16.vio: theories/Pipe/PropsC16.v theories/Pipe/Model.vio theories/Pipe/Base.vio theories/Pipe/Drop.vio theories/Pipe/Scenarios.vio theories/Pipe/Refute.vio
theories/Pipe/PropsC16.vos theories/Pipe/PropsC16.vok theories/Pipe/PropsC16.required_vos: theories/Pipe/PropsC16.v theories/Pipe/Model.vos theories/Pipe/Base.vos theories/Pipe/Drop.vos theories/Pipe/Scenarios.vos theories/Pipe/Refute.vos
