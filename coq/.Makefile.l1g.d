theories/L0/Types.vo theories/L0/Types.glob theories/L0/Types.v.beautified theories/L0/Types.required_vo: theories/L0/Types.v 
theories/L0/Types.vio: theories/L0/Types.v 
theories/L0/Types.vos theories/L0/Types.vok theories/L0/Types.required_vos: theories/L0/Types.v 
gen/Tables.vo gen/Tables.glob gen/Tables.v.beautified gen/Tables.required_vo: gen/Tables.v theories/L0/Types.vo
gen/Tables.vio: gen/Tables.v theories/L0/Types.vio
gen/Tables.vos gen/Tables.vok gen/Tables.required_vos: gen/Tables.v theories/L0/Types.vos
theories/L1/Model.vo theories/L1/Model.glob theories/L1/Model.v.beautified theories/L1/Model.required_vo: theories/L1/Model.v theories/L0/Types.vo
theories/L1/Model.vio: theories/L1/Model.v theories/L0/Types.vio
theories/L1/Model.vos theories/L1/Model.vok theories/L1/Model.required_vos: theories/L1/Model.v theories/L0/Types.vos
theories/L1/Own.vo theories/L1/Own.glob theories/L1/Own.v.beautified theories/L1/Own.required_vo: theories/L1/Own.v theories/L1/Model.vo
theories/L1/Own.vio: theories/L1/Own.v theories/L1/Model.vio
theories/L1/Own.vos theories/L1/Own.vok theories/L1/Own.required_vos: theories/L1/Own.v theories/L1/Model.vos
theories/L1/Shape.vo theories/L1/Shape.glob theories/L1/Shape.v.beautified theories/L1/Shape.required_vo: theories/L1/Shape.v theories/L1/Model.vo
theories/L1/Shape.vio: theories/L1/Shape.v theories/L1/Model.vio
theories/L1/Shape.vos theories/L1/Shape.vok theories/L1/Shape.required_vos: theories/L1/Shape.v theories/L1/Model.vos
theories/L1/Stuck.vo theories/L1/Stuck.glob theories/L1/Stuck.v.beautified theories/L1/Stuck.required_vo: theories/L1/Stuck.v theories/L1/Model.vo theories/L1/Shape.vo
theories/L1/Stuck.vio: theories/L1/Stuck.v theories/L1/Model.vio theories/L1/Shape.vio
theories/L1/Stuck.vos theories/L1/Stuck.vok theories/L1/Stuck.required_vos: theories/L1/Stuck.v theories/L1/Model.vos theories/L1/Shape.vos
theories/L1/Live.vo theories/L1/Live.glob theories/L1/Live.v.beautified theories/L1/Live.required_vo: theories/L1/Live.v theories/L1/Model.vo theories/L1/Own.vo theories/L1/Shape.vo theories/L1/Stuck.vo
theories/L1/Live.vio: theories/L1/Live.v theories/L1/Model.vio theories/L1/Own.vio theories/L1/Shape.vio theories/L1/Stuck.vio
theories/L1/Live.vos theories/L1/Live.vok theories/L1/Live.required_vos: theories/L1/Live.v theories/L1/Model.vos theories/L1/Own.vos theories/L1/Shape.vos theories/L1/Stuck.vos
theories/L1/Wait.vo theories/L1/Wait.glob theories/L1/Wait.v.beautified theories/L1/Wait.required_vo: theories/L1/Wait.v theories/L1/Model.vo theories/L1/Own.vo theories/L1/Shape.vo theories/L1/Stuck.vo theories/L1/Live.vo
theories/L1/Wait.vio: theories/L1/Wait.v theories/L1/Model.vio theories/L1/Own.vio theories/L1/Shape.vio theories/L1/Stuck.vio theories/L1/Live.vio
theories/L1/Wait.vos theories/L1/Wait.vok theories/L1/Wait.required_vos: theories/L1/Wait.v theories/L1/Model.vos theories/L1/Own.vos theories/L1/Shape.vos theories/L1/Stuck.vos theories/L1/Live.vos
theories/L1/Help.vo theories/L1/Help.glob theories/L1/Help.v.beautified theories/L1/Help.required_vo: theories/L1/Help.v theories/L1/Model.vo theories/L1/Own.vo theories/L1/Shape.vo theories/L1/Stuck.vo theories/L1/Live.vo theories/L1/Wait.vo
theories/L1/Help.vio: theories/L1/Help.v theories/L1/Model.vio theories/L1/Own.vio theories/L1/Shape.vio theories/L1/Stuck.vio theories/L1/Live.vio theories/L1/Wait.vio
theories/L1/Help.vos theories/L1/Help.vok theories/L1/Help.required_vos: theories/L1/Help.v theories/L1/Model.vos theories/L1/Own.vos theories/L1/Shape.vos theories/L1/Stuck.vos theories/L1/Live.vos theories/L1/Wait.vos
theories/L1/Final.vo theories/L1/Final.glob theories/L1/Final.v.beautified theories/L1/Final.required_vo: theories/L1/Final.v theories/L1/Model.vo theories/L1/Own.vo theories/L1/Shape.vo theories/L1/Stuck.vo theories/L1/Live.vo theories/L1/Wait.vo theories/L1/Help.vo
theories/L1/Final.vio: theories/L1/Final.v theories/L1/Model.vio theories/L1/Own.vio theories/L1/Shape.vio theories/L1/Stuck.vio theories/L1/Live.vio theories/L1/Wait.vio theories/L1/Help.vio
theories/L1/Final.vos theories/L1/Final.vok theories/L1/Final.required_vos: theories/L1/Final.v theories/L1/Model.vos theories/L1/Own.vos theories/L1/Shape.vos theories/L1/Stuck.vos theories/L1/Live.vos theories/L1/Wait.vos theories/L1/Help.vos
theories/L1/Pool.vo theories/L1/Pool.glob theories/L1/Pool.v.beautified theories/L1/Pool.required_vo: theories/L1/Pool.v theories/L1/Model.vo theories/L1/Own.vo theories/L1/Shape.vo theories/L1/Stuck.vo
theories/L1/Pool.vio: theories/L1/Pool.v theories/L1/Model.vio theories/L1/Own.vio theories/L1/Shape.vio theories/L1/Stuck.vio
theories/L1/Pool.vos theories/L1/Pool.vok theories/L1/Pool.required_vos: theories/L1/Pool.v theories/L1/Model.vos theories/L1/Own.vos theories/L1/Shape.vos theories/L1/Stuck.vos
theories/L1g/Count.vo theories/L1g/Count.glob theories/L1g/Count.v.beautified theories/L1g/Count.required_vo: theories/L1g/Count.v 
theories/L1g/Count.vio: theories/L1g/Count.v 
theories/L1g/Count.vos theories/L1g/Count.vok theories/L1g/Count.required_vos: theories/L1g/Count.v 
theories/L1g/MView.vo theories/L1g/MView.glob theories/L1g/MView.v.beautified theories/L1g/MView.required_vo: theories/L1g/MView.v theories/L1/Model.vo theories/L1/Shape.vo theories/L1g/Count.vo
theories/L1g/MView.vio: theories/L1g/MView.v theories/L1/Model.vio theories/L1/Shape.vio theories/L1g/Count.vio
theories/L1g/MView.vos theories/L1g/MView.vok theories/L1g/MView.required_vos: theories/L1g/MView.v theories/L1/Model.vos theories/L1/Shape.vos theories/L1g/Count.vos
theories/L1g/MInv.vo theories/L1g/MInv.glob theories/L1g/MInv.v.beautified theories/L1g/MInv.required_vo: theories/L1g/MInv.v theories/L1g/Count.vo theories/L1g/MView.vo
theories/L1g/MInv.vio: theories/L1g/MInv.v theories/L1g/Count.vio theories/L1g/MView.vio
theories/L1g/MInv.vos theories/L1g/MInv.vok theories/L1g/MInv.required_vos: theories/L1g/MInv.v theories/L1g/Count.vos theories/L1g/MView.vos
theories/L1g/MSimBase.vo theories/L1g/MSimBase.glob theories/L1g/MSimBase.v.beautified theories/L1g/MSimBase.required_vo: theories/L1g/MSimBase.v theories/L1/Model.vo theories/L1/Own.vo theories/L1/Shape.vo theories/L1/Stuck.vo theories/L1/Live.vo theories/L1g/Count.vo theories/L1g/MView.vo
theories/L1g/MSimBase.vio: theories/L1g/MSimBase.v theories/L1/Model.vio theories/L1/Own.vio theories/L1/Shape.vio theories/L1/Stuck.vio theories/L1/Live.vio theories/L1g/Count.vio theories/L1g/MView.vio
theories/L1g/MSimBase.vos theories/L1g/MSimBase.vok theories/L1g/MSimBase.required_vos: theories/L1g/MSimBase.v theories/L1/Model.vos theories/L1/Own.vos theories/L1/Shape.vos theories/L1/Stuck.vos theories/L1/Live.vos theories/L1g/Count.vos theories/L1g/MView.vos
theories/L1g/MSim.vo theories/L1g/MSim.glob theories/L1g/MSim.v.beautified theories/L1g/MSim.required_vo: theories/L1g/MSim.v theories/L1/Model.vo theories/L1/Own.vo theories/L1/Shape.vo theories/L1/Stuck.vo theories/L1/Live.vo theories/L1/Wait.vo theories/L1/Help.vo theories/L1g/Count.vo theories/L1g/MView.vo theories/L1g/MSimBase.vo
theories/L1g/MSim.vio: theories/L1g/MSim.v theories/L1/Model.vio theories/L1/Own.vio theories/L1/Shape.vio theories/L1/Stuck.vio theories/L1/Live.vio theories/L1/Wait.vio theories/L1/Help.vio theories/L1g/Count.vio theories/L1g/MView.vio theories/L1g/MSimBase.vio
theories/L1g/MSim.vos theories/L1g/MSim.vok theories/L1g/MSim.required_vos: theories/L1g/MSim.v theories/L1/Model.vos theories/L1/Own.vos theories/L1/Shape.vos theories/L1/Stuck.vos theories/L1/Live.vos theories/L1/Wait.vos theories/L1/Help.vos theories/L1g/Count.vos theories/L1g/MView.vos theories/L1g/MSimBase.vos
theories/L1g/Frozen.vo theories/L1g/Frozen.glob theories/L1g/Frozen.v.beautified theories/L1g/Frozen.required_vo: theories/L1g/Frozen.v theories/L1/Model.vo theories/L1/Own.vo theories/L1/Shape.vo theories/L1/Stuck.vo theories/L1/Live.vo theories/L1/Wait.vo theories/L1/Help.vo theories/L1/Final.vo theories/L1/Pool.vo theories/L1g/Count.vo theories/L1g/MView.vo theories/L1g/MSimBase.vo theories/L1g/MSim.vo theories/L1g/MInv.vo
theories/L1g/Frozen.vio: theories/L1g/Frozen.v theories/L1/Model.vio theories/L1/Own.vio theories/L1/Shape.vio theories/L1/Stuck.vio theories/L1/Live.vio theories/L1/Wait.vio theories/L1/Help.vio theories/L1/Final.vio theories/L1/Pool.vio theories/L1g/Count.vio theories/L1g/MView.vio theories/L1g/MSimBase.vio theories/L1g/MSim.vio theories/L1g/MInv.vio
theories/L1g/Frozen.vos theories/L1g/Frozen.vok theories/L1g/Frozen.required_vos: theories/L1g/Frozen.v theories/L1/Model.vos theories/L1/Own.vos theories/L1/Shape.vos theories/L1/Stuck.vos theories/L1/Live.vos theories/L1/Wait.vos theories/L1/Help.vos theories/L1/Final.vos theories/L1/Pool.vos theories/L1g/Count.vos theories/L1g/MView.vos theories/L1g/MSimBase.vos theories/L1g/MSim.vos theories/L1g/MInv.vos
theories/L1g/MainC10.vo theories/L1g/MainC10.glob theories/L1g/MainC10.v.beautified theories/L1g/MainC10.required_vo: theories/L1g/MainC10.v theories/L1/Model.vo theories/L1/Own.vo theories/L1/Shape.vo theories/L1/Stuck.vo theories/L1/Live.vo theories/L1/Wait.vo theories/L1/Help.vo theories/L1/Final.vo theories/L1/Pool.vo theories/L1g/Count.vo theories/L1g/MView.vo theories/L1g/MSimBase.vo theories/L1g/MSim.vo theories/L1g/MInv.vo theories/L1g/Frozen.vo
theories/L1g/MainC10.vio: theories/L1g/MainC10.v theories/L1/Model.vio theories/L1/Own.vio theories/L1/Shape.vio theories/L1/Stuck.vio theories/L1/Live.vio theories/L1/Wait.vio theories/L1/Help.vio theories/L1/Final.vio theories/L1/Pool.vio theories/L1g/Count.vio theories/L1g/MView.vio theories/L1g/MSimBase.vio theories/L1g/MSim.vio theories/L1g/MInv.vio theories/L1g/Frozen.vio
theories/L1g/MainC10.vos theories/L1g/MainC10.vok theories/L1g/MainC10.required_vos: theories/L1g/MainC10.v theories/L1/Model.vos theories/L1/Own.vos theories/L1/Shape.vos theories/L1/Stuck.vos theories/L1/Live.vos theories/L1/Wait.vos theories/L1/Help.vos theories/L1/Final.vos theories/L1/Pool.vos theories/L1g/Count.vos theories/L1g/MView.vos theories/L1g/MSimBase.vos theories/L1g/MSim.vos theories/L1g/MInv.vos theories/L1g/Frozen.vos
