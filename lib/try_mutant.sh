#!/bin/sh
# try_mutant.sh <patch> <progs file> <scheds> : apply a seeded change to /repo, rebuild the harness, run the programs, undo the change
[ -n "$(git -C /repo status --short | grep -v '^??')" ] && { echo "/repo not clean"; exit 2; }
git -C /repo apply "$1" || exit 2
cd /verif/harness && cargo build --release --offline 2>&1 | grep -E "^error" -A5
./target/release/runner run --progs "$2" --scheds "$3" --seed 1 --no-failfast 2>&1 | awk -F'\t' '$1=="RES"{c[$2" "$5]++; if ($5!="ok" && !($2 in ex)) ex[$2]=$0} END{for(k in c) print k, c[k]; for (k in ex) print ex[k]}' | sort | cut -c1-400
git -C /repo checkout -- .
cargo build --release --offline 2>&1 | grep -E "^error" -A5
