#!/usr/bin/env python3
"""seedtest.py <Cxx> <n> [--checks C01,C02,...]: take the seeded change /tmp/mut/<Cxx>_out/m<n>.diff written by an independent
sub-agent, (1) confirm it in the scratch worktree /tmp/mut/<Cxx> (applies, builds, baseline tests still pass, the demo fails
with it and passes without), (2) apply it to /repo, run the given checks (default: the property's own), undo it straight
afterwards, (3) keep it under /verif/seeded/<Cxx>_m<n>/ with meta.json saying what was run and what was seen."""
import sys, os, json, subprocess, shutil, re, time
V = os.path.dirname(os.path.dirname(os.path.abspath(__file__)))
ENV = dict(os.environ, CARGO_NET_OFFLINE='true')
def sh(cmd, cwd=None, timeout=1800):
    try:
        p = subprocess.run(cmd, shell=True, cwd=cwd, stdout=subprocess.PIPE, stderr=subprocess.STDOUT, timeout=timeout, env=ENV)
        return p.returncode, p.stdout.decode('utf-8', 'replace')
    except subprocess.TimeoutExpired as e:
        return 124, (e.stdout or b'').decode('utf-8', 'replace') + '\nTIMEOUT'

def keep_evidence(checks):
    """evidence/<c>.json must describe runs on the UNCHANGED tree: remember the files before a run against a seeded change"""
    saved = {}
    for c in checks:
        f = os.path.join(V, 'evidence', c + '.json')
        saved[f] = open(f, 'rb').read() if os.path.exists(f) else None
    return saved
def restore_evidence(saved):
    for f, b in saved.items():
        if b is None:
            if os.path.exists(f): os.remove(f)
        else: open(f, 'wb').write(b)

def nextest(wt):
    rc, out = sh('cargo nextest run --workspace --no-fail-fast --test-threads 8 --offline 2>&1 | tail -12', cwd=wt, timeout=1500)
    m = re.search(r'(\d+) tests run: (\d+) passed(?: \((\d+) flaky\))?, (\d+) failed', out)
    failed = re.findall(r'FAIL \[[^\]]*\] \([^)]*\)\s+(\S+ \S+)', out)
    return (m.group(0) if m else out[-300:]), sorted(set(failed))

def run_demo(prop, n, wt, meta):
    out_dir = wt + '_out'
    cmd = meta.get('demo_cmd', '').split('#')[0]
    ddir = os.path.join(out_dir, 'm%d_demo' % n)
    drs = os.path.join(out_dir, 'm%d_demo.rs' % n)
    if os.path.isdir(ddir):
        args = ''
        m = re.search(r'cargo run[^\n;&#]*?(-- [^\n;&#]*)', cmd)
        if m: args = m.group(1)
        rel = '--release' if '--release' in cmd else ''
        mb = re.search(r'target/(?:debug|release)/(\w+)', cmd)
        if mb: rel += ' --bin ' + mb.group(1)
        rc, out = sh('timeout 600 cargo run --offline %s %s 2>&1 | tail -15' % (rel, args), cwd=ddir, timeout=900)
        rc2 = 0 if re.search(r'\bPASS\b|passed|exit code 0', out) and not re.search(r'FAIL|violat|wedged|blocked|panicked', out) else 1
        # use the real exit status
        rc, _ = sh('timeout 600 cargo run --offline %s %s >/dev/null 2>&1' % (rel, args), cwd=ddir, timeout=900)
        return rc, out[-600:]
    elif os.path.exists(drs):
        name = '%s_m%d_demo' % (prop.lower(), n)
        shutil.copy(drs, os.path.join(wt, 'tests', name + '.rs'))
        rc, out = sh('timeout 900 cargo test --offline %s --test %s 2>&1 | tail -25' % ('--release' if '--release' in cmd else '', name), cwd=wt, timeout=1200)
        ok = re.search(r'test result: ok', out) is not None
        os.remove(os.path.join(wt, 'tests', name + '.rs'))
        return (0 if ok else 1), out[-800:]
    return 99, 'no demo found'

def recheck(name):
    """re-run the property's check (or --checks) against an already confirmed seeded change kept under /verif/seeded/<name>/"""
    d = os.path.join(V, 'seeded', name)
    res = json.load(open(os.path.join(d, 'meta.json')))
    prop = res['property']
    checks = [prop]
    if '--checks' in sys.argv: checks = sys.argv[sys.argv.index('--checks') + 1].split(',')
    rc, out = sh('git -C /repo status --short | grep -v "^??" | head -3')
    if out.strip(): print('/repo is not clean'); return
    caught = res.get('checks', {})
    saved = keep_evidence(checks)
    try:
        sh('git -C /repo apply %s' % os.path.join(d, 'patch.diff'))
        for c in checks:
            t0 = time.time()
            rc, out = sh('./check %s --tier quick' % c, cwd=V, timeout=2400)
            lines = [l for l in out.split('\n') if l.startswith('VIOLATION') or l.startswith(c + ' quick') or l.startswith('KNOWN')]
            rp = None
            m = re.search(r'replay=(\S+)', out)
            if m and os.path.exists(m.group(1)): rp = json.load(open(m.group(1)))
            caught[c] = {'exit': rc, 'lines': lines, 'wall_s': round(time.time() - t0, 1), 'replay': {k: rp.get(k) for k in ('program', 'observed', 'broken', 'sched_seed')} if rp else None}
    finally:
        sh('git -C /repo checkout -- .')
        restore_evidence(saved)
        sh('cargo build --release --offline', cwd=os.path.join(V, 'harness'))      # the shared runner must not stay built from the seeded change
    res['checks'] = caught
    res['caught_by'] = [c for c in caught if caught[c]['exit'] == 1]
    res['ran'].append('recheck: git -C /repo apply; ' + '; '.join('./check %s --tier quick' % c for c in checks) + '; git -C /repo checkout -- .')
    json.dump(res, open(os.path.join(d, 'meta.json'), 'w'), indent=1)
    print(name, 'recheck: caught by', res['caught_by'], [(c, caught[c]['lines'][:1]) for c in checks])

def main():
    if sys.argv[1] == '--recheck': return recheck(sys.argv[2])
    wid, n = sys.argv[1], int(sys.argv[2])          # wid = worktree id (C01, or C01b for a second round on the same property)
    prop = wid[:3]
    checks = [prop]
    if '--checks' in sys.argv: checks = sys.argv[sys.argv.index('--checks') + 1].split(',')
    wt = '/tmp/mut/%s' % wid
    out_dir = '/tmp/mut/%s_out' % wid
    diff = os.path.join(out_dir, 'm%d.diff' % n)
    meta = json.load(open(os.path.join(out_dir, 'm%d_meta.json' % n)))
    res = {'property': prop, 'mutant': n, 'summary': meta.get('summary'), 'needs': meta.get('needs'), 'author': 'independent sub-agent (only the property text and a scratch worktree)', 'ran': []}
    sh('git checkout -- . && git clean -fdq tests src', cwd=wt)
    # without the change
    rc0, d0 = run_demo(prop, n, wt, meta)
    res['demo_without'] = {'exit': rc0, 'tail': d0[-300:]}
    rc, out = sh('git apply %s' % diff, cwd=wt)
    if rc != 0: res['error'] = 'diff does not apply: ' + out; print(json.dumps(res, indent=1)); return
    files = sh('git diff --stat | head -5', cwd=wt)[1]
    summary, failed = nextest(wt)
    res['tests_with'] = {'summary': summary, 'failed': failed}
    rc1, d1 = run_demo(prop, n, wt, meta)
    res['demo_with'] = {'exit': rc1, 'tail': d1[-300:]}
    sh('git checkout -- . && git clean -fdq tests src', cwd=wt)
    res['confirmed'] = (rc0 == 0 and rc1 != 0 and set(failed) <= {'desync::desync scheduler::asynchronous::panicking_panics_with_future_queues', 'desync::desync scheduler::asynchronous::async_only_runs_once'})
    res['ran'].append('worktree %s: demo without change (exit %d), git apply, cargo nextest (%s), demo with change (exit %d)' % (wt, rc0, summary, rc1))
    # run the checks against it
    rc, out = sh('git -C /repo status --short | grep -v "^??" | head -3')
    if out.strip(): res['error'] = '/repo is not clean'; print(json.dumps(res, indent=1)); return
    caught = {}
    saved = keep_evidence(checks)
    try:
        rc, out = sh('git -C /repo apply %s' % diff)
        for c in checks:
            t0 = time.time()
            rc, out = sh('./check %s --tier quick' % c, cwd=V, timeout=2400)
            lines = [l for l in out.split('\n') if l.startswith('VIOLATION') or l.startswith(c + ' quick') or l.startswith('KNOWN')]
            rp = None
            m = re.search(r'replay=(\S+)', out)
            if m and os.path.exists(m.group(1)):
                rp = json.load(open(m.group(1)))
            caught[c] = {'exit': rc, 'lines': lines, 'wall_s': round(time.time() - t0, 1), 'replay': {k: rp.get(k) for k in ('program', 'observed', 'broken', 'sched_seed')} if rp else None}
    finally:
        sh('git -C /repo checkout -- .')
        restore_evidence(saved)
        sh('cargo build --release --offline', cwd=os.path.join(V, 'harness'))      # the shared runner must not stay built from the seeded change
    res['checks'] = caught
    res['caught_by'] = [c for c in caught if caught[c]['exit'] == 1]
    res['ran'].append('git -C /repo apply; ' + '; '.join('./check %s --tier quick' % c for c in checks) + '; git -C /repo checkout -- .')
    d = os.path.join(V, 'seeded', '%s_%sm%d' % (prop, {'b': 'r2', 'c': 'r3', 'd': 'r4'}.get(wid[3:4], ''), n))
    os.makedirs(d, exist_ok=True)
    shutil.copy(diff, os.path.join(d, 'patch.diff'))
    ddir = os.path.join(out_dir, 'm%d_demo' % n); drs = os.path.join(out_dir, 'm%d_demo.rs' % n)
    if os.path.isdir(ddir):
        shutil.rmtree(os.path.join(d, 'demo'), ignore_errors=True)
        shutil.copytree(ddir, os.path.join(d, 'demo'), ignore=shutil.ignore_patterns('target', 'Cargo.lock'))
    elif os.path.exists(drs): shutil.copy(drs, os.path.join(d, 'demo.rs'))
    res['author_meta'] = meta
    json.dump(res, open(os.path.join(d, 'meta.json'), 'w'), indent=1)
    print(prop, 'm%d' % n, 'confirmed' if res['confirmed'] else 'NOT CONFIRMED', 'demo without/with exit', rc0, rc1, '|', summary, '| caught by', res['caught_by'], [ (c, caught[c]['lines'][:1]) for c in caught])
if __name__ == '__main__': main()
