"""Per-property configuration of /verif/check."""

def prof(name, quick, thorough, **kw):
    d = {'name': name, 'quick': quick, 'thorough': thorough}
    d.update(kw)
    return d

L1_TRUST = ['L1 model (coq/theories/L1/Model.v): control skeleton hand-written, tied by translator facts and the correspondence replay']

CORR_L2 = {'kind': 'l2', 'profiles': [prof('fut', (60, 5), (600, 10), extra=['--max-pool', '1']), prof('fut', (40, 5), (400, 10), extra=['--max-pool', '0']), prof('fut', (40, 5), (400, 10), extra=['--min-pool', '2']), prof('susp', (60, 5), (600, 10)), prof('progs:wake_sweep.progs', (0, 8), (0, 60)), prof('progs:fut_extra.progs', (0, 8), (0, 60)), prof('fsync', (60, 5), (600, 10)), prof('progs:cancel.progs', (0, 10), (0, 60)), prof('progs:syncfut_extra.progs', (0, 6), (0, 40)), prof('progs:fsync_pool0.progs', (0, 8), (0, 60)), prof('progs:f6_waiter_takeover.progs', (0, 8), (0, 60)), prof('progs:susp_extra.progs', (0, 8), (0, 60))]}
CORR_L1 = {'profiles': [prof('corpus', (0, 6), (0, 40)), prof('core', (40, 5), (600, 10)), prof('sync', (30, 5), (400, 10)), prof('try', (30, 5), (400, 10)), prof('pool', (40, 5), (400, 10))]}

L2_TRUST = ['L2 model (coq/theories/L2/Model.v): ONE queue with futures, three runner contexts, in-flight wakes, the sync_background waiter (kicked flag, claim, take-over) and future_sync (slot job over two oneshot cells), hand-written; the pool abstracted as runners that may take a scheduled queue (hand-over justified by L1: L-quiet/C10 matching invariant); tied by the generated waker/poll/claim tables, the order facts (gen_ffacts = code_ffacts, Inst/Fut_now.v), the replay of logged executions of the real crate on the extracted model (driver/l2/replay_l2.ml: sections with snapshots, harness markers, oneshot events) and the wake-position sweeps']

PROPS = {
    'C01': {
        'correspondence': CORR_L1,
        'coq': ['theories/Props/C01.vo', 'theories/Inst/C01_now.vo', 'theories/L2/PropsC01.vo', 'theories/L2/Inst.vo', 'theories/Inst/Fut_now.vo', 'theories/SyncFut/PropsC08.vo', 'theories/Inst/C08_now.vo', 'theories/Inst/Wrapper_now.vo', 'theories/L1n/PropsL1n.vo', 'theories/L1n/Inst.vo', 'theories/L2/PropsC08.vo'],
        'profiles': [prof('core', (60, 15), (1500, 60)), prof('sync', (40, 15), (800, 60)), prof('fut', (50, 15), (1000, 60)), prof('fsync', (30, 10), (600, 40)), prof('pipein', (20, 10), (400, 40), extra=['--max-steps', '30000']), prof('sweep:overlap_sweep.progs', (0, 2), (0, 12)), prof('progs:fut_extra.progs', (0, 60), (0, 1500)), prof('progs:cancel.progs', (0, 100), (0, 3000)), prof('progs:syncfut_extra.progs', (0, 20), (0, 300)), prof('progs:pipe_yield.progs', (0, 60), (0, 1500), extra=['--max-steps', '30000']), prof('progs:unwind_drop.progs', (0, 5), (0, 30), real=True)],
        'monitors': ['C01'], 'liveness': False, 'panics': False,
        'trusted_base': L1_TRUST,
        'assumptions': ['L1: all programs of desync/sync/try_sync on any number of objects; L2: one queue with future-based operations, exclusive across awaits (the suspended operation stays in the runner\'s hand or at the head of the queue)'],
    },
    'C03': {
        'correspondence': CORR_L1,
        'coq': ['theories/Props/C03.vo', 'theories/Inst/C03_now.vo', 'theories/L1h/PropsC03once.vo', 'theories/L1h/Inst.vo', 'theories/L1b/PropsLbound.vo', 'theories/L1b/Inst.vo', 'theories/Inst/Fut_now.vo', 'theories/Inst/Jobs_now.vo', 'theories/L1n/PropsL1n.vo', 'theories/L1n/Inst.vo', 'theories/L1n/PropsLboundN.vo'],
        'profiles': [prof('pool', (80, 20), (2000, 80)), prof('core', (40, 10), (1000, 40), extra=['--min-pool', '1']), prof('fut', (50, 15), (1000, 60), extra=['--min-pool', '1']), prof('progs:fut_extra.progs', (0, 60), (0, 1500)), prof('progs:susp_extra.progs', (0, 60), (0, 1500)), prof('progs:f6_waiter_takeover.progs', (0, 60), (0, 1500))],
        'monitors': ['C03'], 'liveness': True, 'panics': False,
        'trusted_base': L1_TRUST,
        'assumptions': ['L-quiet (terminal => complete) plus L-bound (every run of the L1 model is shorter than an explicit bound: no livelock) give: every maximal execution ends complete; both for layer L1 (operations that do not suspend)'],
    },
    'C02': {
        'correspondence': CORR_L1,
        'coq': ['theories/L1h/PropsC02.vo', 'theories/L1h/Inst.vo', 'theories/L1r/PropsObjExec.vo', 'theories/L1r/Inst.vo', 'theories/L2/PropsC02.vo', 'theories/L2/Inst.vo', 'theories/Inst/Fut_now.vo', 'theories/SyncFut/PropsC08.vo', 'theories/Inst/C08_now.vo', 'theories/L1n/PropsL1n.vo', 'theories/L1n/Inst.vo'],
        'profiles': [prof('core', (60, 15), (1500, 60)), prof('sync', (40, 15), (800, 60)), prof('fut', (40, 15), (800, 40)), prof('fsync', (30, 10), (600, 40)), prof('sweep:overlap_sweep.progs', (0, 2), (0, 12)), prof('progs:fut_extra.progs', (0, 60), (0, 1500)), prof('progs:cancel.progs', (0, 100), (0, 3000)), prof('progs:syncfut_extra.progs', (0, 20), (0, 300))],
        'monitors': ['C02'], 'liveness': False, 'panics': False,
        'trusted_base': L1_TRUST + ['L1h: history observer over the unmodified L1 step function'],
        'assumptions': ['L1 (history theorem, ObjExec refinement) for desync/sync/try_sync; L2 (pushes = starts ++ pending) for future-based operations on one queue; SyncFut (C08_2: no other operation starts or finishes inside the slot of a future_sync, also when it is cancelled) with its field-order / no-Drop-impl facts'],
    },
    'C04': {
        'correspondence': CORR_L1,
        'coq': ['theories/Props/C04.vo', 'theories/Inst/C04_now.vo', 'theories/L1h/PropsC04.vo', 'theories/L1h/Inst.vo', 'theories/L1b/PropsLbound.vo', 'theories/L1b/Inst.vo', 'theories/L1z/PropsC04zero.vo', 'theories/L1z/Inst.vo', 'theories/Inst/Fut_now.vo', 'theories/L2/PropsC06.vo', 'theories/L2/Inst.vo', 'theories/Inst/Jobs_now.vo', 'theories/Inst/Wrapper_now.vo', 'theories/L2/PropsC04.vo', 'theories/L1n/PropsL1n.vo', 'theories/L1n/Inst.vo', 'theories/L1n/PropsLboundN.vo'],
        'profiles': [prof('sync', (80, 20), (2000, 80)), prof('core', (40, 10), (800, 40)), prof('pool', (30, 10), (600, 40)), prof('fut', (40, 15), (800, 60), extra=['--max-pool', '1']), prof('progs:fut_extra.progs', (0, 60), (0, 1500)), prof('progs:susp_extra.progs', (0, 60), (0, 1500)), prof('progs:f6_waiter_takeover.progs', (0, 60), (0, 1500))],
        'monitors': ['C04'], 'liveness': True, 'panics': True,
        'trusted_base': L1_TRUST,
        'assumptions': ['nested sync (called from inside a job of another object, any depth, acyclic object order): L1n (C04n_sync_runs_own_closure, C03n_quiescent_is_complete). C04_full (any pool maximum incl. 0) is proved for layer L1 (operations that do not suspend); sync on a queue suspended on a future: L2 now models the sync_background waiter (kicked flag, claim through the generated t_claim, take-over with the sync-drain frames): C04_sync_returns_L2 - for any program and ANY pool size incl. 0, in a terminal state with all events fired nobody is left inside sync in any of its three modes; C04_needs_waiter_takeover_refuted_L2 = finding F6 (old claim table, witness by vm_compute).'],
    },
    'C05': {
        'correspondence': CORR_L1,
        'coq': ['theories/L1h/PropsC05.vo', 'theories/L1h/Inst.vo', 'theories/Inst/Fut_now.vo', 'theories/Inst/Wrapper_now.vo', 'theories/L1n/PropsL1n.vo', 'theories/L1n/Inst.vo'],
        'profiles': [prof('drop', (80, 20), (2000, 80)), prof('core', (30, 10), (600, 40)), prof('pipein', (40, 15), (600, 60), extra=['--max-steps', '30000']), prof('pipedrop', (30, 10), (400, 40), extra=['--max-steps', '30000']), prof('sweep:drop_sweep.progs', (0, 2), (0, 12), extra=['--max-steps', '30000']), prof('progs:fut_extra.progs', (0, 60), (0, 1500)), prof('progs:unwind_drop.progs', (0, 5), (0, 30), real=True)],
        'monitors': ['C05'], 'liveness': True, 'panics': True,
        'trusted_base': L1_TRUST + ['drop is modelled as what the code does: a final sync whose closure frees the value (fact drop_is_sync_free)'],
        'assumptions': ['freed-exactly-once and no-use-after-free are observed by the payload monitors (drop counter, dead flag) on the real crate; the theorem gives the ordering that makes them true'],
    },
    'C06': {
        'correspondence': CORR_L2,
        'coq': ['theories/L2/PropsC06.vo', 'theories/L2/Inst.vo', 'theories/L2/Examples.vo', 'theories/Inst/Fut_now.vo', 'theories/Inst/C04_now.vo', 'theories/L1z/PropsC04zero.vo', 'theories/L1z/Inst.vo', 'theories/L2/PropsC04.vo'],
        'profiles': [prof('sweep:wake_sweep.progs', (0, 3), (0, 30)), prof('fut', (60, 15), (1500, 60)), prof('susp', (30, 10), (600, 40)), prof('progs:fut_extra.progs', (0, 60), (0, 1500)), prof('progs:susp_extra.progs', (0, 60), (0, 1500)), prof('progs:f6_waiter_takeover.progs', (0, 60), (0, 1500)), prof('progs:fsync_pool0.progs', (0, 40), (0, 1000))],
        'monitors': ['C06', 'C03', 'C07', 'C04'], 'liveness': True, 'panics': True,
        'trusted_base': L2_TRUST,
        'assumptions': ['the no-lost-wake invariant (all three runner contexts, any event timing, stale wakers); terminal theorem with >= 1 pool runner (C06_terminal_partial_L2: in a terminal state with all events fired no operation is suspended and nothing is queued); terminal theorem with ZERO pool runners (C06_zero_pool_L2: caller 0 runs desync / awaited or detached future operations, the other callers only fire events: in a terminal state caller 0 has finished; needs zero_cond of the generated tables: poll always takes an idle or pending queue over). C06_zero_pool_sync_L2: with zero pool runners a caller that never awaits (desync, sync, .sync(), detach, poll-then-drop, fire) finishes whatever the other callers do. Outside both zero-pool theorems: mixtures of awaiting and non-awaiting calls on one caller, and an awaited suspend (refuted: C06_zero_pool_needs_side_condition_refuted) - exercised by the pool-0 wake sweeps'],
    },
    'C07': {
        'correspondence': CORR_L2,
        'coq': ['theories/L2/PropsC07.vo', 'theories/L2/Inst.vo', 'theories/Inst/Fut_now.vo', 'theories/Inst/Jobs_now.vo'],
        'profiles': [prof('fut', (100, 20), (2500, 60)), prof('sweep:wake_sweep.progs', (0, 2), (0, 12)), prof('progs:fut_extra.progs', (0, 60), (0, 1500)), prof('progs:fsync_pool0.progs', (0, 40), (0, 1000)), prof('progs:letgo.progs', (0, 60), (0, 1500))],
        'monitors': ['C07', 'C03'], 'liveness': True, 'panics': True,
        'trusted_base': L2_TRUST,
        'assumptions': ['proved (C07_full_L2): a result is resolved at most once, only after the operation signalled, with its own value; no would-panic state is reachable; poll stores the task waker in the critical section in which it found the result missing and signal takes and calls it; the task invariant (Inv_task) holds in every reachable state; and C07_complete_L2: with >= 1 pool runner, in every terminal state with all events fired every actor is done (each awaiting caller has received its result, each pool runner is idle). With zero pool runners: C06_zero_pool_L2. The model is ONE queue; several objects by exploration'],
    },
    'C08': {
        'coq': ['theories/SyncFut/PropsC08.vo', 'theories/Inst/C08_now.vo', 'theories/Inst/Jobs_now.vo', 'theories/L2/PropsC08.vo', 'theories/L2/Inst.vo'],
        'profiles': [prof('fsync', (100, 20), (2500, 60)), prof('progs:cancel.progs', (0, 400), (0, 6000)), prof('progs:f6_waiter_takeover.progs', (0, 60), (0, 1500)), prof('progs:fsync_pool0.progs', (0, 40), (0, 1000))],
        'correspondence': [CORR_L2, {'kind': 'syncfut', 'profiles': [prof('fsync', (60, 5), (600, 10)), prof('progs:syncfut_extra.progs', (0, 10), (0, 60)), prof('progs:cancel.progs', (0, 10), (0, 60))]}],
        'monitors': ['C08', 'C01', 'C02', 'C05'], 'liveness': True, 'panics': True,
        'trusted_base': ['SyncFut model (coq/theories/SyncFut/Model.v): hand-written; the queue abstracted as one-at-a-time FIFO execution with the slot job and other operations possibly suspended (justified by C01/C02), the queue runner excluded while the polling task drains (justified by the ownership invariant); tied by translator facts, by the replay of logged executions of the real crate on the extracted model (driver/syncfut/replay_syncfut.ml: every oneshot operation, result-cell section and harness marker must be an enabled model step with the same label and poll result, and the final order of observables must equal the model\'s ghost log) and by the run-time oracles'],
        'assumptions': ['TWO models: SyncFut (abstract one-at-a-time queue, every drop point, zero pool incl.) and since the last round L2 itself (the real queue machinery: OFutSync with the slot job as a queue job, two oneshot cells, SyncFuture::poll step by step): C08_1..C08_5_L2 + refutation for the reversed field order; the full C08_5_releases_the_queue_L2 needs >= 1 pool runner; for any pool size incl. 0: C08_5_terminal_any_pool_L2 and C08_5_dropping_caller_finishes_L2 (the awaiting caller with zero pool: SyncFut only). terminal-state form of "releases the queue" (no termination measure); a hand-written future that still owns captures after returning Ready would release them outside the slot (Desync::future_sync wraps the job in an async block, so this cannot happen through the safe API)'],
    },
    'C09': {
        'correspondence': CORR_L1,
        'coq': ['theories/Props/C09.vo', 'theories/Inst/C09_now.vo', 'theories/Inst/Wrapper_now.vo', 'theories/L1n/PropsL1n.vo', 'theories/L1n/Inst.vo'],
        'profiles': [prof('try', (80, 20), (2000, 80)), prof('sweep:overlap_sweep.progs', (0, 2), (0, 12)), prof('progs:try_extra.progs', (0, 60), (0, 1500)), prof('progs:fsync_pool0.progs', (0, 40), (0, 1000))],
        'monitors': ['C09'], 'liveness': True, 'panics': False,
        'trusted_base': L1_TRUST,
        'assumptions': [],
    },
    'C10': {
        'correspondence': CORR_L1,
        'coq': ['theories/L1g/PropsC10.vo', 'theories/L1g/Inst.vo', 'theories/PoolChg/Inst.vo', 'theories/L1n/PropsL1n.vo', 'theories/L1n/Inst.vo'],
        'profiles': [prof('gate', (80, 20), (2000, 80)), prof('pool', (40, 10), (800, 40)), prof('progs:raise_max.progs', (0, 4), (0, 20), real=True)],
        'monitors': ['C10', 'C03', 'C04'], 'liveness': True, 'panics': True,
        'trusted_base': L1_TRUST + ['a blocked operation is an actor that never moves while at its closure-run frame (frozen set B)'],
        'assumptions': ['frozen actors only at the three closure-run frames; a suspended future-based operation (queue parked, no thread occupied) is covered by the L2/wake profiles, not by this theorem'],
    },
    'C11': {
        'correspondence': {'kind': 'pipein', 'profiles': [prof('pipein', (40, 5), (400, 10)), prof('progs:pipein_extra.progs', (0, 10), (0, 60)), prof('progs:pipein_slow.progs', (0, 10), (0, 100)), prof('progs:pipe_yield.progs', (0, 10), (0, 100)), prof('progs:pipein_profile_slow.progs', (0, 1), (0, 6))]},
        'coq': ['theories/PipeIn/PropsC11.vo', 'theories/PipeIn/PropsC11_examples.vo', 'theories/Inst/C11_now.vo', 'theories/Inst/Fut_now.vo'],
        'profiles': [prof('pipein', (80, 20), (1500, 60), extra=['--max-steps', '30000']), prof('progs:pipe_yield.progs', (0, 60), (0, 1500), extra=['--max-steps', '30000']), prof('progs:pipein_slow.progs', (0, 30), (0, 600), extra=['--max-steps', '30000']), prof('progs:pipein_profile_slow.progs', (0, 3), (0, 40), extra=['--max-steps', '30000']), prof('progs:pipein_chain.progs', (0, 60), (0, 1500), extra=['--max-steps', '30000'])],
        'monitors': ['C11', 'C01', 'C05'], 'liveness': True, 'panics': True,
        'trusted_base': ['PipeIn model (coq/theories/PipeIn/Model.v): hand-written, the object abstracted as one-at-a-time FIFO execution (justified by C01/C02), tied by translator facts, by the replay of logged executions on the extracted model (driver/pipein, driver/pipe) and by the run-time oracles'],
        'assumptions': ['the Desync object is abstracted as ObjExec (exclusive FIFO execution); the processing of an item may suspend once in the middle (JSusp); its self-wake is assumed delivered (that is C06)'],
    },
    'C12': {
        'correspondence': {'kind': 'pipe', 'profiles': [prof('pipe', (40, 5), (400, 10)), prof('progs:pipe_extra.progs', (0, 4), (0, 30)), prof('progs:pipe_yield.progs', (0, 8), (0, 60)), prof('progs:pipe_lastowner.progs', (0, 8), (0, 60))]},
        'coq': ['theories/Pipe/PropsC12.vo', 'theories/Inst/C12_now.vo', 'theories/Inst/Fut_now.vo'],
        'profiles': [prof('pipe', (80, 20), (1500, 60), extra=['--max-steps', '30000']), prof('progs:pipe_yield.progs', (0, 60), (0, 1500), extra=['--max-steps', '30000']), prof('progs:pipe_gated.progs', (0, 60), (0, 1500), extra=['--max-steps', '30000'])],
        'monitors': ['C12', 'C01', 'C05'], 'liveness': True, 'panics': True,
        'trusted_base': ['Pipe model (coq/theories/Pipe/Model.v): hand-written, the object abstracted as one-at-a-time FIFO execution (justified by C01/C02), tied by translator facts, by the replay of logged executions on the extracted model (driver/pipein, driver/pipe) and by the run-time oracles'],
        'assumptions': ['the Desync object is abstracted as ObjExec; the processing of an item may suspend once in the middle (init_slow); depth 0 is excluded (it wedges the pipe by design of the code: nothing is read while pending.len() >= 0)'],
    },
    'C16': {
        'correspondence': {'kind': 'pipe', 'profiles': [prof('pipedrop', (40, 5), (400, 10)), prof('progs:pipe_extra.progs', (0, 4), (0, 30)), prof('progs:pipe_yield.progs', (0, 8), (0, 60)), prof('progs:pipe_lastowner.progs', (0, 8), (0, 60))]},
        'coq': ['theories/Pipe/PropsC16.vo', 'theories/Inst/C16_now.vo', 'theories/Inst/Fut_now.vo'],
        'profiles': [prof('pipedrop', (80, 25), (1500, 80), extra=['--max-steps', '30000']), prof('progs:pipe_lastowner.progs', (0, 100), (0, 2000), extra=['--max-steps', '30000']), prof('progs:pipe_dropinjob.progs', (0, 60), (0, 1500), extra=['--max-steps', '30000'])],
        'monitors': ['C16', 'C12', 'C05'], 'liveness': True, 'panics': True,
        'trusted_base': ['Pipe model (coq/theories/Pipe/Model.v), see C12'],
        'assumptions': ['"released" = poll_fn is None OR nothing references the PipeContext any more (with the drop landing on a throttled producer the input stream and closure are freed by reference counting, never by poll_fn := None; the literal reading is refuted in PropsC16.v)'],
    },
    'C13': {
        'correspondence': CORR_L2,
        'coq': ['theories/L2/PropsC13.vo', 'theories/L2/Inst.vo', 'theories/Inst/Fut_now.vo'],
        'profiles': [prof('susp', (100, 20), (2500, 60)), prof('progs:susp_extra.progs', (0, 60), (0, 1500))],
        'monitors': ['C13', 'C02', 'C04'], 'liveness': True, 'panics': True,
        'trusted_base': L2_TRUST + ['suspend is modelled as what the code does: a future operation that signals the resumer future first and then awaits the resume event'],
        'assumptions': ['state form: while the suspend operation is parked on the resume event, everything pushed before it has finished and nothing pushed after it has started, and this persists until the event fires; continuation in order afterwards is C06 (pool >= 1) + C02; the harness runs suspend through the scheduler-level API on plain queues'],
    },
    'C14': {
        'correspondence': CORR_L1,
        'coq': ['theories/Props/C14.vo', 'theories/Inst/C14_now.vo', 'theories/Inst/Fut_now.vo', 'theories/L2/PropsC01.vo', 'theories/L2/Inst.vo', 'theories/Inst/Jobs_now.vo', 'theories/Inst/Wrapper_now.vo'],
        'profiles': [prof('drop', (60, 15), (1500, 60)), prof('sync', (40, 10), (800, 40)), prof('fsync', (100, 20), (1500, 60)), prof('progs:cancel.progs', (0, 400), (0, 6000)), prof('pipedrop', (30, 10), (400, 40), extra=['--max-steps', '30000']), prof('progs:fut_extra.progs', (0, 60), (0, 1500)), prof('drop', (40, 2), (500, 4), real='asan'), prof('fsync', (30, 2), (400, 4), real='asan'), prof('fut', (30, 2), (400, 4), real='asan'), prof('progs:unwind_drop_sync.progs', (0, 4), (0, 20), real='asan'), prof('progs:unwind_drop.progs', (0, 4), (0, 20), real='asan')],
        'monitors': ['C14', 'C05', 'C01', 'C08', 'C02'], 'liveness': False, 'panics': True,
        'trusted_base': L1_TRUST + ['memory as ghost state: the model speaks about WHEN closures, values and job storage are used, not about Rust-level aliasing or layout'],
        'assumptions': ['PARTIAL BY NATURE: proves the lifetime protocol the unsafe sites rely on (erased sync jobs never outlive their call, closures run at most once, nothing runs after the free operation); absence of undefined behaviour outside the protocol is not provable here; the same programs also run on REAL threads under AddressSanitizer (nightly toolchain; a use of the value, a job or a captured borrow after its release aborts with a report; OS scheduling, so this samples interleavings and is evidence, not proof); canary payloads (dead flag, drop counter, wrong-object check, concurrent-modification canary) are checked in every profile; '],
    },
    'C15': {
        'coq': ['theories/Props/C15.vo', 'theories/Inst/C15_now.vo', 'theories/Inst/Wrapper_now.vo', 'theories/L1p/PropsL1p.vo', 'theories/L1p/PropsL1p2.vo', 'theories/L1p/PropsL1p3.vo', 'theories/L1p/PropsL1p4.vo', 'theories/L1p/PropsL1p5.vo', 'theories/L1p/PropsL1p6.vo', 'theories/L1p/PropsL1p7.vo'],
        'profiles': [prof('panic', (40, 2), (400, 4), real=True)],
        'monitors': ['C15', 'C03', 'C04', 'C07'], 'liveness': True, 'panics': True,
        'trusted_base': ['Panic/Absorb.v: the queue-state word under arbitrary sequences of table-driven events; L1p: the unwinding as ONE model step at a closure frame (queue Panicked, owner cleared, pool thread dead with its busy flag set) plus the reap pass, over the unmodified L1 step - safety theorems and the liveness half in the form "after the next scheduling call" (masking argument over L1\'s invariants); the unwinding is not interleaved with other actors in the model (on the crate it is: real-thread scenarios)'],
        'assumptions': ['panic scenarios run on real threads (the controlled runtime treats an unwinding task as a failed test), so their interleavings are sampled by the OS scheduler under scripted ordering constraints'],
    },
    'C17': {
        'correspondence': CORR_L1,
        'coq': ['theories/Props/C17.vo', 'theories/Inst/C17_now.vo', 'theories/PoolChg/PropsC17chg.vo', 'theories/PoolChg/Inst.vo'],
        'profiles': [prof('pool', (60, 15), (1500, 60)), prof('poolchg', (80, 20), (2000, 60)), prof('poolchg', (60, 2), (600, 4), real=True), prof('progs:poolchg_busy.progs', (0, 60), (0, 1500))],
        'monitors': ['C17'], 'liveness': True, 'panics': False,
        'trusted_base': L1_TRUST + ['live/peak count of pool threads from the shim\'s spawn/exit hooks (every thread ever started is counted, also one the scheduler never listed)'],
        'assumptions': ['L1/Pool.v: fixed maximum inside the full scheduler model. PoolChg layer (coq/theories/PoolChg): the spawn decision (read max; lock-test-push), set-max and the three steps of despawn (read, pop, join) as an own small model with any number of racing spawners: threads <= max when the maximum is never lowered, threads <= max_ever always (nothing created with max_ever 0), threads <= max after a lowering made between phases (all spawners idle) even with calls racing the despawn, the join terminates, alive <= max after the join; C17chg_racy_lowering_refuted: a spawner that read the old maximum pushes after lowering+despawn returned (the race observed on the real crate, outside the property\'s quantification); holds for every interleaving if the maximum were read under the threads lock. Harness: maximum changes (M<n>/m<n> of the poolchg profile: set the maximum, despawn_threads_if_overloaded, bounded wake-up loop when raising) are exercised, not modelled. The counts are checked after changes made between phases (nothing queued, running or busy: what the property quantifies over); a lowering that races with scheduling calls can leave one thread above the new maximum on the unchanged code (the spawn decision reads the maximum before it takes the threads lock) and is only checked for "despawn returns"'],
    },
}
