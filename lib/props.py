"""Per-property configuration of /verif/check."""

def prof(name, quick, thorough, **kw):
    d = {'name': name, 'quick': quick, 'thorough': thorough}
    d.update(kw)
    return d

L1_TRUST = ['L1 model (coq/theories/L1/Model.v): control skeleton hand-written, tied by translator facts and the correspondence replay']

CORR_L1 = {'profiles': [prof('corpus', (0, 6), (0, 40)), prof('core', (40, 5), (600, 10)), prof('sync', (30, 5), (400, 10)), prof('try', (30, 5), (400, 10)), prof('pool', (40, 5), (400, 10))]}

PROPS = {
    'C01': {
        'correspondence': CORR_L1,
        'coq': ['theories/Props/C01.vo', 'theories/Inst/C01_now.vo'],
        'profiles': [prof('core', (60, 15), (1500, 60)), prof('sync', (40, 15), (800, 60))],
        'monitors': ['C01'], 'liveness': False, 'panics': False,
        'trusted_base': L1_TRUST,
        'assumptions': ['future-based operations are covered by the run-time occupancy monitor only, not yet by a theorem'],
    },
    'C03': {
        'correspondence': CORR_L1,
        'coq': ['theories/Props/C03.vo', 'theories/Inst/C03_now.vo'],
        'profiles': [prof('pool', (80, 20), (2000, 80)), prof('core', (40, 10), (1000, 40), extra=['--min-pool', '1'])],
        'monitors': ['C03'], 'liveness': True, 'panics': False,
        'trusted_base': L1_TRUST,
        'assumptions': ['L-quiet excludes stranding and deadlock; livelock is excluded only by the step bound of the controlled runtime'],
    },
    'C09': {
        'correspondence': CORR_L1,
        'coq': ['theories/Props/C09.vo', 'theories/Inst/C09_now.vo'],
        'profiles': [prof('try', (80, 20), (2000, 80))],
        'monitors': ['C09'], 'liveness': True, 'panics': False,
        'trusted_base': L1_TRUST,
        'assumptions': [],
    },
    'C15': {
        'coq': ['theories/Props/C15.vo', 'theories/Inst/C15_now.vo'],
        'profiles': [prof('panic', (40, 2), (400, 4), real=True)],
        'monitors': ['C15', 'C03', 'C04', 'C07'], 'liveness': True, 'panics': True,
        'trusted_base': ['Panic/Absorb.v: the queue-state word under arbitrary sequences of table-driven events; the unwinding itself (guards run, thread dies, reaping) is exercised on real threads, not modelled'],
        'assumptions': ['panic scenarios run on real threads (the controlled runtime treats an unwinding task as a failed test), so their interleavings are sampled by the OS scheduler under scripted ordering constraints'],
    },
    'C17': {
        'correspondence': CORR_L1,
        'coq': ['theories/Props/C17.vo', 'theories/Inst/C17_now.vo'],
        'profiles': [prof('pool', (60, 15), (1500, 60))],
        'monitors': ['C17'], 'liveness': False, 'panics': False,
        'trusted_base': L1_TRUST,
        'assumptions': ['set_max_threads\' wake-up loop and despawn are exercised by the harness teardown, not modelled'],
    },
}
