#!/usr/bin/env python3
"""Regenerates MANIFEST.json from lib/props.py and the texts below (run by hand after adding a property)."""
import json, os, sys, subprocess
V = os.path.dirname(os.path.dirname(os.path.abspath(__file__)))
sys.path.insert(0, os.path.join(V, 'lib'))
from props import PROPS
TEXT = {
 'C01': ('At most one runner per object in every reachable state of the L1 scheduler model (all programs of desync/sync/try_sync, all pool sizes, all schedules), for every table family meeting own_conditions; conditions re-proved for the tables regenerated from the source; occupancy/canary monitors on the real crate under the controlled runtime for all operation kinds incl. futures and pipes', 'machine-checked invariant (Coq) + generated tables + model replay of implementation logs + controlled-runtime monitors'),
 'C02': ('Call order is run order: for every run of the L1 model, if Ret A precedes Call B in the observed history (same object, any kinds, any runner) then Run A precedes Run B and B never runs without A; queue law pushed = ran ++ in-hand ++ queued; instance for the regenerated tables; order oracle over logical-clock stamps on the real crate for all kinds incl. futures', 'machine-checked refinement to a FIFO history (Coq, L1h) + generated tables/facts + controlled-runtime order oracle'),
 'C03': ('L-quiet: every reachable state of the L1 model in which no thread can move is complete (all scripts done, queues idle and empty, no busy thread) for pool maximum >= 1; exactly-once: NoDup ran, every run was pushed, nothing pushed is lost at quiescence; instance for the regenerated tables and facts; run-count and deadlock monitors on the real crate incl. work scheduled from inside jobs', 'machine-checked liveness invariant + exactly-once (Coq) + generated tables/facts + model replay + controlled-runtime exploration'),
 'C04': ('A returned sync ran its own closure exactly once strictly between call and return and got its own result (L1h, all programs/schedules); in every terminal reachable state with pool maximum >= 1 every caller has returned (partial: pool size 0 by exploration only); deadlock/result-token monitors on the real crate with pools 0..3 and nested sync', 'machine-checked history theorem + liveness corollary (Coq) + controlled-runtime monitors'),
 'C05': ('Drop = final sync(free): when the free closure runs every operation whose call had returned before the drop call has run, and nothing on the object runs after it (L1h order theorems; fact drop_is_sync_free re-read from the source); payload drop counter, dead flag and free-tick monitors on the real crate for drops from callers, from jobs of other objects and from pool threads', 'machine-checked order corollary (Coq) + generated fact + controlled-runtime payload monitors'),
 'C09': ('try_sync decision step always enabled; Busy/Panic change nothing but the caller; Immediate only on Idle and empty; a quiescent object is Idle in every reachable state; Busy never runs (L1h)', 'machine-checked step lemmas and invariant (Coq) + generated try_sync table + controlled-runtime monitors'),
 'C11': ('pipe_in model: processed ++ in-hand ++ available ++ future = input items in every reachable state (order, exactly once); every Process event inside a poll job that is the single open operation; no-lost-item invariant; terminal completeness; weak-reference accounting and shutdown at the first stream event after the object is gone; termination measure - all for unbounded item counts, arrival patterns and schedules; structure facts re-read from the source; item/occupancy/release oracles on the real crate', 'machine-checked invariants over an executable model (Coq, PipeIn) + generated facts + controlled-runtime oracles'),
 'C15': ('Panicked is absorbing under every sequence of table-driven events, every entry point answers Panic, no healthy queue ever becomes Panicked through tables (for all table families meeting panic_conditions; instance for the regenerated tables); guard present on every runner and reap-before-scan re-read from the source; scripted panic scenarios in five runner contexts on real threads with loud-failure and capacity checks', 'machine-checked absorbing-state theorem (Coq) + generated tables/facts + real-thread scenarios'),
 'C17': ('length threads <= maximum in every reachable state of every program and schedule, for arbitrary tables; with maximum 0 no pool actor ever exists; spawn/despawn comparisons re-read from the source', 'machine-checked invariant (Coq) + generated facts + thread-count monitor'),
 'C12': ('pipe model: outputs delivered ++ pending ++ in-flight = map f of the inputs taken (order, no loss, no duplicate); consumer-wake and back-pressure-release invariants; terminal completeness for every depth >= 1 and input length; structure facts re-read from the source; output/end-of-stream oracles on the real crate with depths 1..5', 'machine-checked invariants over an executable model (Coq, Pipe) + generated facts + controlled-runtime oracles'),
 'C16': ('pipe model: after the consumer drops the output stream, in every terminal state with a silent input the strong reference is released and poll_fn is None, for every position of the drop; refuted by a concrete trace for the code without the closed re-check (finding F4, fixed); release oracle on the real crate', 'machine-checked terminal-state theorem + refutation witness (Coq, Pipe) + generated fact + controlled-runtime release oracle'),
 'C08': ('SyncFuture/slot-job model: the user future starts only inside a poll and only inside the slot; no other operation starts or finishes inside the slot; Ok(own value) after the slot ended; for every drop point the user future is cancelled before the slot ends (field order fact; refuted when reversed); the queue is released in every terminal state', 'machine-checked invariants over an executable model (Coq, SyncFut) + generated facts + controlled-runtime drop-point sweeps'),
 'C06': ('single-queue futures model with three runner contexts and in-flight wakes: no-lost-wake invariant and terminal theorem', 'machine-checked invariant (Coq, L2) + generated waker tables + controlled-runtime wake-position sweeps'),
 'C07': ('scheduler-future cell: resolves at most once, only after the operation finished, pending poll leaves a waker or a result; detached operations still run', 'machine-checked invariants (Coq, L2) + generated poll table/facts + controlled-runtime monitors'),
 'C13': ('suspend as a future operation: everything before finished at resolution, nothing after starts before resume', 'machine-checked corollary (Coq, L2) + controlled-runtime suspend oracle on the queue-level API'),
 'C10': ('L-quiet with FROZEN actors: for every reachable state in which every actor outside a set B of blocked ones (pool threads inside a job, callers inside a closure) cannot move, and fewer pool threads are blocked than the maximum (or a thread is free / may be spawned): every queue not owned by a blocked actor is Idle and empty, every caller not waiting behind a blocked actor has finished, every other pool thread is dormant; a thread blocked in sync is not a pool thread (Hall-style matching invariant InvM, all programs/schedules); gate profile on the real crate', 'machine-checked liveness invariant with frozen actors (Coq, L1g) + generated tables/facts + controlled-runtime gate profile'),
 'C14': ('PARTIAL BY NATURE - the lifetime protocol the unsafe sites rely on: a queued or in-hand lifetime-erased sync job belongs to a caller still inside that call and has not run; closures run at most once and only after being pushed; nothing on an object runs after its free operation (L1h theorems, all programs/schedules); canary payloads on the real crate in every profile; undefined behaviour outside the protocol is out of reach of the model', 'machine-checked protocol invariants (Coq, L1h) + canary payloads under the controlled runtime'),
}
PENDING = {
 'C06': 'futures/waker layer (coq/theories/L2) still under construction in this session; wake-position exploration exists in the harness but no theorem yet, so the property is not claimed',
 'C07': 'futures layer (coq/theories/L2) still under construction; not claimed until its theorems compile',
 'C13': 'depends on the futures layer (coq/theories/L2); the suspend oracle exists in the harness but no theorem yet; not claimed',
#'C14': 'memory safety of the Rust implementation itself (aliasing, transmute validity, allocator behaviour) cannot be stated over the executable model; the lifetime protocol it relies on is covered by C01/C02/C04/C05 and by canary payloads in every profile; a dedicated protocol theorem is not built yet',
}
def main():
    props = ['C%02d' % i for i in range(1, 18)]
    checks = []
    for p in props:
        if p not in PROPS: continue
        checks.append({
          'property_id': p, 'quick_cmd': './check %s --tier quick' % p, 'thorough_cmd': './check %s --tier thorough' % p,
          'evidence_file': '/verif/evidence/%s.json' % p,
          'replay_cmd_template': './harness/target/release/runner replay --prog "$(jq -r .program {path})" --schedule "$(jq -r .schedule {path})"',
          'engine': 'coq+harness', 'level_claimed': {'category': 'proof', 'text': TEXT[p][0], 'design_ref': 'DESIGN.md sections 3 (%s) and 9' % p},
          'level_note': 'Trusted: Coq 8.16.1 kernel (vm_compute, no native_compute), stdpp, coq-record-update; translator rs2coq.py; the hand-written control skeleton of the models (tied by facts re-read from the source on every run, and for layer L1 by replaying implementation logs on the extracted model); shuttle + src/verif.rs as executor of the real code. ' + ' '.join(PROPS[p].get('assumptions', [])),
          'technique': TEXT[p][1]})
    hooks = subprocess.run(['git', '-C', '/repo', 'log', '--format=%h %s'], stdout=subprocess.PIPE).stdout.decode().strip().split('\n')
    hook_commits = [l.split()[0] for l in hooks if not l.split(' ', 1)[1].startswith('fix:') and l.split(' ', 1)[1] != 'snapshot']
    m = {
     'version': 1, 'setup_cmd': './setup.sh',
     'hooks': {'guard': 'cfg(desync_verif)', 'enable': 'RUSTFLAGS="--cfg desync_verif" via /verif/harness/.cargo/config.toml (plus --cfg desync_verif_real for the real-thread build); the harness manifest harness/desync builds /repo/src/lib.rs with the shuttle dependency added',
               'baseline_off_cmd': 'cd /repo && (cargo nextest run --workspace --no-fail-fast --test-threads 8 --offline || cargo test --workspace --no-fail-fast --offline)',
               'source_commits': hook_commits, 'add_only': True},
     'engines': [{'name': 'coq+harness', 'path': 'coq', 'serves_properties': [c['property_id'] for c in checks], 'kind_free_text': 'Coq 8.16.1 development (executable step-function models parameterised by decision tables generated from the Rust source; invariants by induction over arbitrary traces) + Rust harness interpreting generated programs against the real crate under the shuttle controlled runtime (monitors, logs replayed on the extracted model)'}],
     'checks': checks,
     'notes': 'Known findings and repairs: known_findings.json (five genuine defects, all repaired by fix: commits). Design: DESIGN.md.',
     'not_applicable': [{'property_id': p, 'reason': PENDING[p]} for p in props if p not in PROPS],
    }
    json.dump(m, open(os.path.join(V, 'MANIFEST.json'), 'w'), indent=1)
    print('claimed:', [c['property_id'] for c in checks]); print('not claimed:', [x['property_id'] for x in m['not_applicable']])
if __name__ == '__main__': main()
