"""Correspondence check, implementation -> model, for the L1 layer: run generated programs on the real crate under the
controlled runtime with event logging, replay every log on the model extracted from Coq (driver/replay.ml)."""
import os, re, subprocess, shutil, time, glob

EXPLAINED = ('the code notifies registered sync waiters one after the other inside one critical section, the model notifies them '
             'in one step: with two or more live waiters on one queue a waiter can be seen to react between two notifications')

def run_quiet(cmd, idle=100, timeout=1200):
    """runs the log-producing runner; killed when it stops making progress (an execution blocking the whole process for real)"""
    import tempfile
    t0 = time.time()
    with tempfile.TemporaryFile() as f:
        p = subprocess.Popen(cmd, stdout=f, stderr=subprocess.STDOUT)
        last, size = time.time(), 0
        while p.poll() is None:
            time.sleep(2)
            n = os.fstat(f.fileno()).st_size
            if n != size: size, last = n, time.time()
            if time.time() - last > idle or time.time() - t0 > timeout: p.kill(); break
        p.wait()

def run(cfg, tier, seed, V, RUNNER):
    if cfg.get('kind') == 'pipein': return run_pipein(cfg, tier, seed, V, RUNNER)
    if cfg.get('kind') == 'pipe': return run_pipein(cfg, tier, seed, V, RUNNER, sub='pipe', exe='replay_pipe', name='pipe-replay')
    if cfg.get('kind') == 'syncfut': return run_pipein(cfg, tier, seed, V, RUNNER, sub='syncfut', exe='replay_syncfut', name='syncfut-replay')
    if cfg.get('kind') == 'l2': return run_pipein(cfg, tier, seed, V, RUNNER, sub='l2', exe='replay_l2', name='l2-replay')
    drv = os.path.join(V, 'driver')
    rc = subprocess.run(['sh', os.path.join(drv, 'build.sh')], stdout=subprocess.PIPE, stderr=subprocess.STDOUT, timeout=900)
    out = {'traces': 0, 'steps': 0, 'events': 0, 'skipped': 0, 'explained': 0, 'disagreements': [], 'stutters': 0}
    replay = os.path.join(drv, '_build', 'replay')
    if rc.returncode != 0 or not os.path.exists(replay):
        out['disagreements'].append({'name': 'driver-build', 'detail': 'extraction or driver build failed: ' + rc.stdout.decode('utf-8', 'replace')[-600:]})
        return out
    logroot = os.path.join(V, 'out', 'corrlogs')
    shutil.rmtree(logroot, ignore_errors=True)
    real_runner = os.path.join(V, 'harness', 'target-real', 'release', 'runner')
    if any(pr.get('real') for pr in cfg['profiles']):
        subprocess.run(['sh', os.path.join(V, 'harness', 'real', 'build.sh')], stdout=subprocess.DEVNULL, stderr=subprocess.DEVNULL, timeout=900)
    for pi, pr in enumerate(cfg['profiles']):
        count, scheds = pr[tier]
        d = os.path.join(logroot, '%d_%s' % (pi, pr['name']))
        # real=True: the same programs on REAL threads (the OS schedules; the shim over std logs the same events)
        if pr.get('real') and not os.path.exists(real_runner): continue
        cmd = [real_runner if pr.get('real') else RUNNER, 'run', '--seed', str(seed + 17), '--scheds', str(scheds), '--logdir', d, '--no-touch-yield']
        if pr['name'] == 'corpus': cmd += ['--progs', os.path.join(V, 'corpus', 'l1.progs')]
        else: cmd += ['--profile', pr['name'], '--count', str(count)] + pr.get('extra', [])
        run_quiet(cmd)
        logs = sorted(glob.glob(os.path.join(d, '*.log')))
        for i in range(0, len(logs), 400):
            p = subprocess.run([replay] + logs[i:i + 400], stdout=subprocess.PIPE, stderr=subprocess.STDOUT, timeout=1200)
            for l in p.stdout.decode('utf-8', 'replace').split('\n'):
                f = l.split('\t')
                if f[0] == 'SUMMARY':
                    kv = dict(x.split('=') for x in f[1:])
                    out['traces'] += int(kv['ok']); out['steps'] += int(kv['model_steps']); out['events'] += int(kv['events'])
                    out['skipped'] += int(kv['skipped']); out['stutters'] += int(kv['stutters'])
                elif f[0] == 'DIVERGE' and len(f) >= 5:
                    w = int(f[3].split('=')[1])
                    if w >= 2: out['explained'] += 1
                    else: out['disagreements'].append({'name': 'l1-replay', 'detail': 'program %s: %s (log %s)' % (f[2], f[4], f[1]), 'program': f[2], 'log': f[1]})
                elif l.strip() and f[0] not in ('OK',):
                    out['disagreements'].append({'name': 'l1-replay-crash', 'detail': l[:300]})
    total = out['traces'] + out['explained'] + len(out['disagreements'])
    if total and out['explained'] * 50 > total:
        out['disagreements'].append({'name': 'l1-replay', 'detail': '%d of %d traces diverge in the explained multi-waiter class (more than 2%%): %s' % (out['explained'], total, EXPLAINED)})
    out['explained_reason'] = EXPLAINED
    # keep the logs of disagreements only
    keep = set(d.get('log') for d in out['disagreements'])
    for f in glob.glob(os.path.join(logroot, '*', '*.log')):
        if f not in keep: os.remove(f)
    return out


def run_pipein(cfg, tier, seed, V, RUNNER, sub='pipein', exe='replay_pipein', name='pipein-replay'):
    """pipe_in layer: logs of the real crate replayed on the extracted PipeIn model (driver/pipein/replay_pipein.ml)"""
    drv = os.path.join(V, 'driver', sub)
    rc = subprocess.run(['sh', os.path.join(drv, 'build.sh')], stdout=subprocess.PIPE, stderr=subprocess.STDOUT, timeout=900)
    out = {'traces': 0, 'steps': 0, 'events': 0, 'skipped': 0, 'explained': 0, 'disagreements': [], 'stutters': 0}
    replay = os.path.join(drv, '_build', exe)
    if rc.returncode != 0 or not os.path.exists(replay):
        out['disagreements'].append({'name': name + '-driver-build', 'detail': 'extraction or driver build failed: ' + rc.stdout.decode('utf-8', 'replace')[-600:]})
        return out
    logroot = os.path.join(V, 'out', 'corrlogs_' + sub)
    shutil.rmtree(logroot, ignore_errors=True)
    real_runner = os.path.join(V, 'harness', 'target-real', 'release', 'runner')
    if any(pr.get('real') for pr in cfg['profiles']):
        subprocess.run(['sh', os.path.join(V, 'harness', 'real', 'build.sh')], stdout=subprocess.DEVNULL, stderr=subprocess.DEVNULL, timeout=900)
    for pi, pr in enumerate(cfg['profiles']):
        count, scheds = pr[tier]
        d = os.path.join(logroot, '%d' % pi)
        if pr.get('real') and not os.path.exists(real_runner): continue      # real=True: the same programs on REAL threads
        cmd = [real_runner if pr.get('real') else RUNNER, 'run', '--seed', str(seed + 23), '--scheds', str(scheds), '--logdir', d, '--no-touch-yield', '--max-steps', '30000']
        if pr['name'].startswith('progs:'): cmd += ['--progs', os.path.join(V, 'corpus', pr['name'][6:])]
        else: cmd += ['--profile', pr['name'], '--count', str(count)] + pr.get('extra', [])
        run_quiet(cmd)
        logs = sorted(glob.glob(os.path.join(d, '*.log')))
        for i in range(0, len(logs), 400):
            p = subprocess.run([replay] + logs[i:i + 400], stdout=subprocess.PIPE, stderr=subprocess.STDOUT, timeout=1200)
            for l in p.stdout.decode('utf-8', 'replace').split('\n'):
                f = l.split('\t')
                if f[0] == 'SUMMARY':
                    kv = dict(x.split('=') for x in f[1:] if '=' in x)
                    out['traces'] += int(kv.get('ok', 0)); out['steps'] += int(kv.get('model_steps', 0)); out['events'] += int(kv.get('events', 0)); out['skipped'] += int(kv.get('skipped', 0))
                elif f[0] == 'DIVERGE' and len(f) >= 4:
                    out['disagreements'].append({'name': name, 'detail': 'program %s: %s (log %s)' % (f[2], f[3], f[1]), 'program': f[2], 'log': f[1]})
    keep = set(d.get('log') for d in out['disagreements'])
    for f in glob.glob(os.path.join(logroot, '*', '*.log')):
        if f not in keep: os.remove(f)
    if sub == 'syncfut': out['explained_reason'] = 'skipped logs: no future_sync in the program, body primitives other than t / w<e>, future_sync nested in a body, suspension (U), or a future on the same object awaited with .sync() (its queue job has no marker)'
    elif sub == 'l2': out['explained_reason'] = 'skipped logs: programs outside the single-queue future language of the L2 model'
    else: out['explained_reason'] = 'logs in which the harness stream yields an item pushed after the stream was closed are skipped (the model\'s input, like a real Stream, has no item after its end)'
    return out
