#!/bin/sh
# Commits /verif, leaving out any Coq layer directory that does not compile right now (somebody may be working in it).
cd /verif
python3 translate/rs2coq.py /repo coq/gen >/dev/null 2>&1
( cd coq && coq_makefile -f _CoqProject -o Makefile >/dev/null 2>&1 && timeout 2400 make -k -j16 > /tmp/safe_commit_make.log 2>&1 )
BAD=$(grep -o 'File "\./theories/[A-Za-z0-9]*/' /tmp/safe_commit_make.log | sed 's#File "\./##' | sort -u)
EXCL=""
for d in $BAD; do EXCL="$EXCL :!coq/$d"; echo "not committing coq/$d (does not compile right now)"; done
git add -A -- . $EXCL
git commit -q -m "$1" && echo committed
