#!/usr/bin/env python3
"""Prints the DESIGN.md table of seeded changes from /verif/seeded/*/meta.json."""
import json, glob, os
V = os.path.dirname(os.path.dirname(os.path.abspath(__file__)))
rows = []
for f in sorted(glob.glob(os.path.join(V, 'seeded', '*', 'meta.json'))):
    m = json.load(open(f))
    name = os.path.basename(os.path.dirname(f))
    c = m.get('checks', {}).get(m['property'], {})
    line = next((l for l in (c.get('lines') or []) if l.startswith('VIOLATION')), (c.get('lines') or [''])[0])
    how = 'missed'
    if c.get('exit') == 1:
        rp = c.get('replay') or {}
        if 'no-failing-input-found' in line: how = 'broken obligation `%s` (no failing input found)' % ', '.join((rp.get('broken') or ['?'])[:2])
        else:
            obs = (rp.get('observed') or '')[:70].replace('|', '/')
            br = rp.get('broken') or []
            how = ('broken obligation `%s` + ' % br[0] if br else '') + 'failing run: ' + obs
    summ = (m.get('summary') or '').replace('\n', ' ').replace('|', '/')
    if len(summ) > 150: summ = summ[:147] + '...'
    needs = (m.get('needs') or '').replace('\n', ' ').replace('|', '/')
    if len(needs) > 110: needs = needs[:107] + '...'
    rows.append('| %s | %s | %s | %s | %s |' % (name, 'yes' if m.get('confirmed') else 'no', summ, needs, how))
print('| id | confirmed | change | needs | caught by the property\'s quick check |')
print('|---|---|---|---|---|')
print('\n'.join(rows))
