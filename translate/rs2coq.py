#!/usr/bin/env python3
"""Translator: reads the queue-state decision tables and a set of structural facts out of /repo's Rust sources
and writes them as Coq definitions (coq/gen/Tables.v) plus a JSON dump (for the search tools and the evidence).

Strict by construction: every site must be found exactly as described, every arm must be understood by the
mini-interpreter below; anything else raises TranslateError naming the site, which the check reports as a broken tie.
The output is canonical (one row per abstract state in a fixed order), so re-ordering or merging match arms in the
source yields byte-identical Coq."""
import re, sys, json, os

class TranslateError(Exception):
    def __init__(self, site, msg):
        super().__init__("%s: %s" % (site, msg)); self.site = site

STATES = ["Idle", "Pending", "Running", "WaitingForWake", "WaitingForUnpark", "WaitingForPoll:own", "WaitingForPoll:other", "AwokenWhileRunning", "Panicked"]
BASES = ["Idle", "Pending", "Running", "WaitingForWake", "WaitingForUnpark", "WaitingForPoll", "AwokenWhileRunning", "Panicked"]

def strip_comments(src):
    src = re.sub(r'//[^\n]*', '', src)
    src = re.sub(r'/\*.*?\*/', '', src, flags=re.S)
    # single-line statements that exist only in verification builds are not part of the code under study
    src = re.sub(r'[ \t]*#\[cfg\(desync_verif\)\][ \t]*\n[ \t]*crate::verif::log\([^\n]*\);[ \t]*\n', '', src)
    return src

def match_brace(s, i):
    op, cl = s[i], {'{': '}', '(': ')', '[': ']'}[s[i]]
    d = 0
    for j in range(i, len(s)):
        if s[j] == op: d += 1
        elif s[j] == cl:
            d -= 1
            if d == 0: return j
    raise TranslateError('brace', 'unbalanced')

def find_fn(src, name, site, impl=None):
    """body of `fn name`; with impl, the occurrence inside the first `impl ... <impl> ... {` block"""
    if impl is not None:
        m = re.search(r'\bimpl\b[^{;]*\b%s\b[^{;]*\{' % impl, src)
        if not m: raise TranslateError(site, "impl %s not found" % impl)
        i = m.end() - 1
        src = src[i:match_brace(src, i) + 1]
    ms = list(re.finditer(r'\bfn\s+%s\b' % re.escape(name), src))
    if len(ms) != 1: raise TranslateError(site, "fn %s found %d times" % (name, len(ms)))
    i = src.index('{', ms[0].end())
    return src[i:match_brace(src, i) + 1]

def find_matches(body, scrut_re):
    out = []
    for m in re.finditer(r'\bmatch\s+(%s)\s*\{' % scrut_re, body):
        i = m.end() - 1
        out.append(body[i + 1:match_brace(body, i)])
    return out

def split_arms(block, site):
    arms, i, n = [], 0, len(block)
    while True:
        while i < n and block[i] in ' \t\r\n,': i += 1
        if i >= n: break
        try: j = block.index('=>', i)
        except ValueError: raise TranslateError(site, "arm without =>")
        pat = block[i:j].strip()
        k = j + 2
        while block[k] in ' \t\r\n': k += 1
        if block[k] == '{':
            e = match_brace(block, k); body = block[k + 1:e]; i = e + 1
        else:
            d = 0; e = k
            while e < n and not (block[e] == ',' and d == 0):
                if block[e] in '({[': d += 1
                elif block[e] in ')}]': d -= 1
                e += 1
            body = block[k:e]; i = e + 1
        arms.append((pat, body.strip()))
    return arms

GUARDS = {
    # the queue is (still) in the scheduler's schedule: it was woken / rescheduled and nobody has claimed it yet
    'schedule.iter().any(|scheduled_queue| Arc::ptr_eq(scheduled_queue, queue))': 'scheduled',
}
def split_guard(pat, site):
    m = re.search(r'\sif\s', pat)
    if not m: return pat, None
    g = re.sub(r'\s+', ' ', pat[m.end():]).strip()
    if g not in GUARDS: raise TranslateError(site, "match guard not understood: %r" % g)
    return pat[:m.start()].strip(), GUARDS[g]

def pat_matches(pat, st, site, enum='QueueState'):
    base = st.split(':')[0]
    for alt in pat.split('|'):
        alt = alt.strip()
        alt = re.sub(r'^(self::)?%s::' % enum, '', alt)
        if alt == '_' or re.fullmatch(r'_?[a-z][a-z_0-9]*', alt): return True
        m = re.fullmatch(r'(\w+)(\((\w+)\))?', alt)
        if not m: raise TranslateError(site, "pattern not understood: %r" % alt)
        if m.group(1) == base: return True
    return False

class Env:
    def __init__(self, st, empty, is_running):
        self.st = st; self.empty = empty; self.is_running = is_running
        self.flags = {}; self.result = None; self.returned = False
    @property
    def base(self): return self.st.split(':')[0]

def eval_cond(cond, env, site):
    cond = cond.strip()
    if re.fullmatch(r'[\w.]+\.queue\.len\(\)\s*==\s*0', cond): return env.empty
    if re.fullmatch(r'[\w.]+\.queue\.len\(\)\s*>\s*0', cond): return not env.empty
    if re.fullmatch(r'owner_id\s*==\s*self\.id', cond): return env.st.endswith(':own')
    if re.fullmatch(r'[\w.]+\.state\.is_running\(\)', cond): return env.is_running[env.st]
    m = re.fullmatch(r'[\w.]+\.state\s*==\s*QueueState::(\w+)', cond)
    if m: return env.base == m.group(1)
    raise TranslateError(site, "condition not understood: %r" % cond)

def eval_block(body, env, site):
    """tiny interpreter over: `x.state = QueueState::V;`, `if c {..} else if c {..} else {..}`, `done = true;`, `return [e];`,
    `panic!(..)`, `debug_assert!(..)`, `schedule.retain(..)`, and a trailing value expression"""
    s = body.strip()
    while s and not env.returned:
        s = s.lstrip(' \t\r\n;')
        if not s: break
        m = re.match(r'if\s+', s)
        if m:
            i = s.index('{'); cond = s[m.end():i]; e = match_brace(s, i)
            then = s[i + 1:e]; rest = s[e + 1:].lstrip()
            taken = eval_cond(cond, env, site)
            branches_done = False
            if taken: eval_block(then, env, site); branches_done = True
            while rest.startswith('else'):
                rest2 = rest[4:].lstrip()
                if rest2.startswith('if'):
                    j = rest2.index('{'); c2 = rest2[2:j]; e2 = match_brace(rest2, j)
                    if not branches_done and eval_cond(c2, env, site): eval_block(rest2[j + 1:e2], env, site); branches_done = True
                    rest = rest2[e2 + 1:].lstrip()
                else:
                    j = rest2.index('{'); e2 = match_brace(rest2, j)
                    if not branches_done: eval_block(rest2[j + 1:e2], env, site); branches_done = True
                    rest = rest2[e2 + 1:].lstrip()
            s = rest
            continue
        # simple statement up to ';' at depth 0 (or end)
        d = 0; e = 0
        while e < len(s) and not (s[e] == ';' and d == 0):
            if s[e] in '({[': d += 1
            elif s[e] in ')}]': d -= 1
            e += 1
        stmt = s[:e].strip(); terminated = e < len(s); s = s[e + 1:]
        m = re.fullmatch(r'[\w.]+\.state\s*=\s*QueueState::(\w+)', stmt)
        if m: env.st = m.group(1); continue
        m = re.fullmatch(r'[\w.]+\.state\s*=\s*(_?[a-z]\w*)', stmt)
        if m: continue                      # `= other_state`: unchanged
        if re.fullmatch(r'schedule\.retain\(.*\)', stmt, flags=re.S): env.flags['retain'] = True; continue
        m = re.fullmatch(r'(\w+)\s*=\s*(true|false)', stmt)
        if m: env.flags[m.group(1)] = (m.group(2) == 'true'); continue
        m = re.fullmatch(r'return\b\s*(.*)', stmt, flags=re.S)
        if m: env.result = 'return ' + re.sub(r'\s+', ' ', m.group(1).strip()); env.returned = True; continue
        if re.fullmatch(r'panic!\(.*\)', stmt, flags=re.S): env.result = 'panic'; env.returned = True; continue
        if re.fullmatch(r'debug_assert!\(.*\)', stmt, flags=re.S): continue
        if stmt == '': continue
        if terminated and not re.fullmatch(r'\(\)', stmt):
            raise TranslateError(site, "statement not understood: %r" % stmt)
        env.result = re.sub(r'\s+', ' ', stmt)       # the arm's value
    return env

def table(src, fn, site, is_running, scrut=r'[\w.]+\.state|current_state|self', which=0, nblocks=None, assign=False, impl=None):
    body = find_fn(src, fn, site, impl)
    blocks = find_matches(body, scrut)
    if not blocks: raise TranslateError(site, "no match block in fn %s" % fn)
    if nblocks is not None and len(blocks) != nblocks: raise TranslateError(site, "expected %d match blocks in fn %s, found %d" % (nblocks, fn, len(blocks)))
    arms = split_arms(blocks[which], site)
    out = {}
    for st in STATES:
        for empty in (True, False):
            for pat, arm in arms:
                pat, guard = split_guard(pat, site)
                if pat_matches(pat, st, site):
                    # a guarded arm is evaluated for the case in which its guard holds (when it does not hold the match falls through
                    # to the later arms); the guard is reported next to the row so that the model side can say when the row applies
                    env = eval_block(arm, Env(st, empty, is_running), site)
                    if guard: env.flags['guard'] = guard
                    new, res = env.st, env.result
                    if assign and res is not None and res.startswith('QueueState::'):
                        new, res = res.split('::')[1], None
                    elif assign and res is not None and res != 'panic' and not res.startswith('return') and re.fullmatch(r'_?[a-z]\w*', res):
                        res = None
                    out[(st, empty)] = (new.split(':')[0], res, dict(env.flags))
                    break
            else:
                raise TranslateError(site, "no arm for state %s" % st)
    return out

def is_running_table(src, site):
    body = find_fn(src, 'is_running', site)
    blocks = find_matches(body, r'self')
    if len(blocks) != 1: raise TranslateError(site, "match self not found")
    arms = split_arms(blocks[0], site)
    out = {}
    for st in STATES:
        for pat, arm in arms:
            if pat_matches(pat, st, site):
                if arm not in ('true', 'false'): raise TranslateError(site, "arm value %r" % arm)
                out[st] = (arm == 'true'); break
        else: raise TranslateError(site, "no arm for %s" % st)
    return out

def block_table(src, fn, site, is_running, start_re, impl=None):
    """evaluates the `{ ... }` block that follows the first match of start_re inside fn, for every state x empty"""
    body = find_fn(src, fn, site, impl)
    ms = list(re.finditer(start_re, body))
    if len(ms) != 1: raise TranslateError(site, "anchor %r found %d times in fn %s" % (start_re, len(ms), fn))
    i = ms[0].start()
    if body[i] != '{': raise TranslateError(site, 'anchor must start at the block brace')
    blk = body[i + 1:match_brace(body, i)]
    # drop leading `let mut core = ...;` and debug asserts
    blk = re.sub(r'^\s*let\s+mut\s+\w+\s*=\s*[^;]*;', '', blk)
    out = {}
    for st in STATES:
        for empty in (True, False):
            env = eval_block(blk, Env(st, empty, is_running), site)
            out[(st, empty)] = (env.st.split(':')[0], env.result, dict(env.flags))
    return out

# ---------------------------------------------------------------- facts

def count(pattern, text): return len(re.findall(pattern, text, flags=re.S))

def fact_exact(site, text, pattern, n=1):
    c = count(pattern, text)
    return c == n

def facts_of(R):
    S = R + '/src/scheduler/'
    F = {}
    core = strip_comments(open(S + 'core.rs').read())
    ds = strip_comments(open(S + 'desync_scheduler.rs').read())
    jq = strip_comments(open(S + 'job_queue.rs').read())
    sf = strip_comments(open(S + 'scheduler_future.rs').read())
    syf = strip_comments(open(S + 'sync_future.rs').read())
    uj = strip_comments(open(S + 'unsafe_job.rs').read())
    aq = strip_comments(open(S + 'active_queue.rs').read())
    dsy = strip_comments(open(R + '/src/desync.rs').read())
    pipe = strip_comments(open(R + '/src/pipe.rs').read())

    sd = find_fn(core, 'schedule_dormant', 'fact:dormant')
    n_try, n_lock = count(r'busy_rc\.try_lock\(\)', sd), count(r'busy_rc\.lock\(\)', sd)
    if n_try + n_lock != 1: raise TranslateError('fact:dormant_blocks', "busy_rc lock sites: try_lock=%d lock=%d" % (n_try, n_lock))
    F['dormant_blocks'] = (n_lock == 1)
    # the pool loop clears busy only under the busy lock and only when next_job returned None
    F['busy_cleared_only_on_none'] = bool(re.search(r'let\s+mut\s+busy\s*=\s*also_busy\.lock\(\)[^;]*;\s*let\s+job_data\s*=\s*next_job\(\)\s*;\s*if\s+job_data\.is_none\(\)\s*\{\s*\*busy\s*=\s*false\s*;\s*\}\s*job_data', sd)) and count(r'\*busy\s*=\s*false', sd) == 1
    F['dormant_sets_busy_before_run'] = bool(re.search(r'if\s*!\*busy\s*\{.*?\*busy\s*=\s*true\s*;\s*thread\.run\(', sd, flags=re.S))
    # a finished (panicked) pool thread is reaped whatever its busy flag says - it died with the flag set
    rf = find_fn(core, 'remove_finished_threads', 'fact:reap')
    F['reap_tests_only_is_finished'] = bool(re.search(r'let\s+\(_,\s*thread\)\s*=\s*&threads\[thread_num\]\s*;\s*if\s+thread\.is_finished\(\)\s*\{\s*let\s+\(is_busy,\s*dead_thread\)\s*=\s*threads\.remove\(thread_num\)', rf)) and count(r'is_finished\(\)', rf) == 1
    F['dormant_reaps_first'] = bool(re.match(r'\{\s*self\.remove_finished_threads\(\)\s*;', sd))

    sp = find_fn(core, 'spawn_thread_if_less_than_maximum', 'fact:spawn')
    m = re.search(r'if\s+threads\.len\(\)\s*(<=|<|>=|>|==|!=)\s*max_threads\s*\{', sp)
    if not m: raise TranslateError('fact:spawn_cmp', "spawn comparison not found")
    F['spawn_cmp'] = m.group(1)
    F['spawn_test_and_push_one_section'] = bool(re.search(r'let\s+mut\s+threads\s*=\s*self\.threads\.lock\(\)[^;]*;\s*if\s+threads\.len\(\)[^{]*\{[^}]*threads\.push\(', sp, flags=re.S))
    dp = find_fn(ds, 'despawn_threads_if_overloaded', 'fact:despawn')
    m = re.search(r'while\s+threads\.len\(\)\s*(<=|<|>=|>|==|!=)\s*max_threads\s*\{', dp)
    if not m: raise TranslateError('fact:despawn_cmp', "despawn loop condition not found")
    F['despawn_cmp'] = m.group(1)
    F['despawn_joins'] = bool(re.search(r'to_despawn\.into_iter\(\)\.for_each\(\|join_handle\|\s*\{\s*join_handle\.join\(\)', dp))

    st = find_fn(core, 'schedule_thread', 'fact:schedule_thread')
    F['schedule_thread_retries_after_spawn'] = bool(re.search(r'if\s+self\.spawn_thread_if_less_than_maximum\(\)\s*\{\s*self\.schedule_thread\(core\)', st))

    # push_back / push_front
    sjd = find_fn(ds, 'schedule_job_desync', 'fact:desync_push')
    F['desync_push_back'] = count(r'core\.queue\.push_back\(job\)', sjd) == 1 and count(r'push_front', sjd) == 0
    F['desync_push_before_state'] = bool(re.search(r'core\.queue\.push_back\(job\)\s*;\s*match\s+core\.state', sjd))
    F['desync_idle_pushes_schedule_back'] = bool(re.search(r'ScheduleState::Idle\s*=>\s*\{\s*self\.core\.schedule\.lock\(\)[^;]*\.push_back\(queue\.clone\(\)\)\s*;\s*self\.schedule_thread\(\)\s*;', sjd))
    rq = find_fn(jq, 'requeue', 'fact:requeue')
    F['requeue_at_front'] = count(r'core\.queue\.push_front\(job\)', rq) == 1 and count(r'push_back', rq) == 0
    dq = find_fn(jq, 'dequeue', 'fact:dequeue')
    # a job that returned Pending goes back through requeue() and nowhere else: the runners never push onto the queue themselves
    drn = find_fn(jq, 'drain', 'fact:drain')
    roj = find_fn(jq, 'run_one_job_now', 'fact:run_one_job_now')
    F['drain_requeues_via_requeue'] = count(r'self\.requeue\(job\)', drn) == 1 and count(r'push_front|push_back', drn) == 0
    F['run_one_job_now_keeps_job_in_hand'] = count(r'requeue\(', roj) == 0 and count(r'push_front|push_back', roj) == 0
    F['dequeue_pops_front'] = count(r'core\.queue\.pop_front\(\)', dq) == 1 and count(r'pop_back', dq) == 0
    sdr = find_fn(ds, 'sync_drain', 'fact:sync_drain')
    F['sync_drain_push_back'] = count(r'\.queue\.push_back\(Box::new\(unsafe_result_job\)\)', sdr) == 1 and count(r'push_front', sdr) == 0
    sbg = find_fn(ds, 'sync_background', 'fact:sync_background')
    F['sync_bg_push_back'] = count(r'core\.queue\.push_back\(unsafe_job\)', sbg) == 1 and count(r'push_front', sbg) == 0
    F['sync_bg_registers_before_push'] = bool(re.search(r'wake_blocked\.push\(.*?core\.queue\.push_back\(unsafe_job\)', sbg, flags=re.S))
    F['sync_bg_resched_if_idle'] = bool(re.search(r'core\.state\s*==\s*QueueState::Idle\s*\}\s*;\s*if\s+need_reschedule\s*\{\s*self\.reschedule_queue\(queue\)\s*;\s*\}', sbg))
    # set_max_threads = store the maximum, then the wake-up loop (no spawning of its own, no clamping)
    try: smt = re.sub(r'\s+', ' ', [m for m in re.finditer(r'#\[cfg\(not\(target_arch\s*=\s*"wasm32"\)\)\]\s*pub\s+fn\s+set_max_threads\(&self,\s*max_threads:\s*usize\)\s*', ds)][0].group(0))
    except IndexError: smt = None
    if smt is not None:
        i = ds.index('{', re.search(r'#\[cfg\(not\(target_arch\s*=\s*"wasm32"\)\)\]\s*pub\s+fn\s+set_max_threads', ds).end())
        body = re.sub(r'\s+', ' ', ds[i:match_brace(ds, i) + 1]).strip()
    else: body = ''
    F['set_max_threads_stores_then_schedules'] = body == '{ { *self.core.max_threads.lock().expect("Max threads lock") = max_threads }; while self.schedule_thread() {} }'
    # the decision of sync / try_sync / sync_no_panic is dispatched to the routine the model's action names mean
    def dispatch(fn, pairs):
        b = find_fn(ds, fn, 'fact:dispatch_' + fn, impl='Scheduler')
        return all(bool(re.search(r'RunAction::%s\s*=>\s*%s' % (a, c), b)) for a, c in pairs) and count(r'RunAction::\w+\s*=>\s*[^,\n]*self\.sync_\w+\(', b) == sum(1 for a, c in pairs if 'self' in c)
    F['dispatch_sync'] = dispatch('sync', [('Immediate', r'self\.sync_immediate\(queue,\s*job\)'), ('DrainOnThisThread', r'self\.sync_drain\(queue,\s*job\)'), ('WaitForBackground', r'self\.sync_background\(queue,\s*job\)'), ('Panic', r'panic!')])
    F['dispatch_try_sync'] = dispatch('try_sync', [('Immediate', r'Ok\(self\.sync_immediate\(queue,\s*job\)\)'), ('Busy', r'Err\(TrySyncError::Busy\)'), ('Panic', r'panic!')])
    F['dispatch_sync_no_panic'] = dispatch('sync_no_panic', [('Immediate', r'\{\s*self\.sync_immediate\(queue,\s*job\)\s*;\s*false\s*\}'), ('DrainOnThisThread', r'\{\s*self\.sync_drain\(queue,\s*job\)\s*;\s*false\s*\}'), ('WaitForBackground', r'\{\s*self\.sync_background\(queue,\s*job\)\s*;\s*false\s*\}'), ('Panic', r'true')])
    # sticky notification (repair of F2): a 'kicked' flag consulted before waiting
    rqf0 = find_fn(core, 'reschedule_queue', 'fact:resched')
    F['sticky_notify'] = (bool(re.search(r'if\s*!rescheduled\.swap\(false,[^)]*\)\s*\{\s*ready\s*=\s*wakeup\.wait\(ready\)[^;]*;\s*continue\s*;\s*\}', sbg))
        and bool(re.search(r'AtomicBool::new\(true\)', sbg))
        and bool(re.search(r'rescheduled\.store\(true,[^)]*\)\s*;\s*if\s+let\s+Some\(ready\)\s*=\s*ready\.upgrade\(\)\s*\{\s*mem::drop\(ready\.lock\(\)\)\s*;\s*\}\s*cond_var\.notify_one\(\)', rqf0)))
    F['steal_guarded'] = bool(re.search(r'if\s+self\.core\.claim_pending_queue\(queue\)\s*\{\s*let\s+_active\s*=\s*ActiveQueue\s*\{\s*queue:\s*&\*queue\s*\}\s*;', sbg))
    # reschedule after every `state = Idle` of a foreground runner
    idle_then_resched = r'\.state\s*=\s*QueueState::Idle\s*;\s*self\.(scheduler\.core\.)?reschedule_queue\('
    F['resched_after_idle_sync_immediate'] = count(idle_then_resched, find_fn(ds, 'sync_immediate', 'fact:sync_immediate')) == 1
    F['resched_after_idle_sync_drain'] = count(idle_then_resched, sdr) == 1
    F['resched_after_idle_steal'] = count(idle_then_resched, sbg) == 1
    dqf = find_fn(sf, 'drain_queue', 'fact:drain_queue')
    F['resched_after_idle_drain_queue'] = count(idle_then_resched, dqf) == 2 and count(r'\.state\s*=\s*QueueState::Idle', dqf) == 2
    F['guard_sync_immediate'] = count(r'let\s+_active\s*=\s*ActiveQueue', find_fn(ds, 'sync_immediate', 'fact:sync_immediate')) == 1
    F['guard_sync_drain'] = count(r'let\s+_active\s*=\s*ActiveQueue', sdr) == 1
    F['guard_drain'] = count(r'let\s+_active\s*=\s*ActiveQueue', find_fn(jq, 'drain', 'fact:drain')) == 1
    F['guard_drain_queue'] = count(r'let\s+_active\s*=\s*ActiveQueue', dqf) == 1
    F['active_queue_sets_panicked'] = bool(re.search(r'if\s+thread::panicking\(\)\s*\{\s*self\.queue\.core\.lock\(\)\s*\.map\(\|mut\s+core\|\s*core\.state\s*=\s*QueueState::Panicked\)', aq))
    # reschedule_queue: notify all registered condvars before the state decision, push_back on the schedule, then schedule_thread
    rqf = find_fn(core, 'reschedule_queue', 'fact:resched')
    F['resched_notifies_waiters'] = bool(re.search(r'wake_blocked\.iter_mut\(\).*?notify_one\(\).*?match\s+core\.state', rqf, flags=re.S))
    F['resched_pushes_back_then_schedules'] = bool(re.search(r'if\s+reschedule\s*\{\s*self\.schedule\.lock\(\)[^;]*\.push_back\(queue\.clone\(\)\)\s*;\s*self\.schedule_thread\(core\)\s*;', rqf))
    # the spawn decision reads the maximum (its own lock, released at once) BEFORE it takes the threads lock: a maximum lowered in between is not seen
    sp = find_fn(core, 'spawn_thread_if_less_than_maximum', 'fact:spawn')
    F['spawn_reads_max_before_threads_lock'] = bool(re.search(r'let\s+max_threads\s*=\s*\{\s*\*self\.max_threads\.lock\(\)[^;]*\}\s*;\s*let\s+mut\s+threads\s*=\s*self\.threads\.lock\(\)', sp))
    nt = find_fn(core, 'next_to_run', 'fact:next')
    F['next_pops_front'] = count(r'schedule\.pop_front\(\)', nt) == 1
    cl = find_fn(core, 'claim_pending_queue', 'fact:claim')
    F['claim_locks_schedule_then_core'] = bool(re.search(r'self\.schedule\.lock\(\).*?queue\.core\.lock\(\)', cl, flags=re.S))
    # the job objects: a closure job runs its action once (take), a future job creates its future once, keeps it while Pending and
    # drops it when Ready; the lifetime-erased job forwards to the borrowed job
    jb = strip_comments(open(S + 'job.rs').read())
    fj = strip_comments(open(S + 'future_job.rs').read())
    F['job_runs_action_once'] = bool(re.search(r'let\s+action\s*=\s*self\.action\.take\(\)\s*;\s*if\s+let\s+Some\(action\)\s*=\s*action\s*\{\s*action\(\)\s*;\s*Poll::Ready\(\(\)\)\s*\}\s*else\s*\{\s*panic!', jb))
    F['futurejob_take_moves_out'] = bool(re.search(r'let\s+mut\s+value\s*=\s*JobState::Completed\s*;\s*mem::swap\(self,\s*&mut\s+value\)\s*;\s*match\s+value\s*\{\s*JobState::FutureNotCreated\(create_fn\)\s*=>\s*Some\(FutureObj::new\(Box::new\(create_fn\(\)\)\)\)\s*,\s*JobState::WaitingForFuture\(future\)\s*=>\s*Some\(future\)\s*,\s*JobState::Completed\s*=>\s*None\s*\}', fj))
    F['futurejob_keeps_future_when_pending'] = bool(re.search(r'let\s+action\s*=\s*self\.action\.take\(\)\s*;\s*if\s+let\s+Some\(mut\s+action\)\s*=\s*action\s*\{\s*match\s+action\.poll_unpin\(context\)\s*\{\s*Poll::Ready\(\(\)\)\s*=>\s*Poll::Ready\(\(\)\)\s*,\s*Poll::Pending\s*=>\s*\{\s*self\.action\s*=\s*JobState::WaitingForFuture\(action\)\s*;\s*Poll::Pending\s*\}\s*\}\s*\}\s*else\s*\{\s*panic!', fj))
    F['unsafe_job_forwards_run'] = bool(re.search(r'fn\s+run\(&mut\s+self,\s*context:\s*&mut\s+Context\)\s*->\s*Poll<\(\)>\s*\{\s*unsafe\s*\{\s*\(\*self\.action\)\.run\(context\)\s*\}\s*\}', uj))
    # unsafe job: flag set, then notify_all, on drop
    F['unsafe_job_signals_on_drop'] = bool(re.search(r'impl\s+Drop\s+for\s+UnsafeJob.*?\(\*is_finished\.lock\(\)\.unwrap\(\)\)\s*=\s*true\s*;\s*on_finish\.notify_all\(\)', uj, flags=re.S))
    # scheduler future: signal sets the result then takes the waker inside one critical section; wake outside
    sg = find_fn(sf, 'signal', 'fact:signal')
    F['signal_sets_then_takes_waker'] = bool(re.search(r'future_result\.result\s*=\s*FutureResultState::Some\(Ok\(result\)\)\s*;\s*future_result\.waker\.take\(\)\s*\}\s*;\s*waker\.map\(\|waker\|\s*waker\.wake\(\)\)', sg))
    sigdrop = re.search(r'impl<T>\s+Drop\s+for\s+SchedulerFutureSignaller<T>\s*\{(.*?)\n\}', sf, flags=re.S)
    F['signaller_drop_cancels'] = bool(sigdrop and re.search(r'if\s+future_result\.result\.is_none\(\)\s*\{\s*future_result\.result\s*=\s*FutureResultState::Some\(Err\(oneshot::Canceled\)\)\s*;\s*let\s+waker\s*=\s*future_result\.waker\.take\(\)', sigdrop.group(1)))
    pl = find_fn(sf, 'poll', 'fact:poll', impl='Future')
    F['poll_takes_result_first'] = bool(re.search(r'if\s+let\s+Some\(result\)\s*=\s*future_result\.result\.take\(\)\s*\{\s*SchedulerAction::ReturnValue\(result\)', pl))
    F['poll_stores_waker_when_waiting'] = bool(re.search(r'SchedulerAction::WaitForCompletion\s*\|\s*SchedulerAction::ReturnValue\(_\)\s*\|\s*SchedulerAction::Panic\s*=>\s*\{\s*future_result\.waker\s*=\s*Some\(context\.waker\(\)\.clone\(\)\)', pl))
    F['poll_core_lock_inside_result_lock'] = bool(re.search(r'let\s+mut\s+future_result\s*=\s*self\.result\.lock\(\).*?self\.queue\.core\.lock\(\)', pl, flags=re.S))
    F['drain_queue_waiting_for_poll_self'] = count(r'\.state\s*=\s*QueueState::WaitingForPoll\(self\.id\)', dqf) == 1
    F['drain_queue_stores_waker_before_park'] = bool(re.search(r'\.waker\s*=\s*Some\(context\.waker\(\)\.clone\(\)\)\s*;\s*self\.queue\.core\.lock\(\)[^;]*\.state\s*=\s*QueueState::WaitingForPoll\(self\.id\)', dqf))
    F['drain_queue_requeues_pending'] = count(r'self\.queue\.requeue\(job\)', dqf) == 1
    # ... as the FIRST statement of the Pending arm (before the parked state is written and the deferred wake-up released)
    F['drain_queue_requeue_first'] = bool(re.search(r'task::Poll::Pending\s*=>\s*\{\s*self\.queue\.requeue\(job\)\s*;', dqf))
    # SyncFuture field order: the state (user future) is declared - hence dropped - before task_finished
    m = re.search(r'pub\s+struct\s+SyncFuture<[^{]*\{(.*?)\n\}', syf, flags=re.S)
    if not m: raise TranslateError('fact:syncfuture_fields', "struct SyncFuture not found")
    fields = re.findall(r'^\s*(\w+)\s*:', m.group(1), flags=re.M)
    F['syncfuture_field_order'] = fields == ['state', 'scheduler_future', 'task_finished']
    # ... and SyncFuture has no Drop impl of its own (a Drop::drop would run BEFORE the fields are dropped, i.e. before the user future is destroyed)
    F['syncfuture_no_drop_impl'] = count(r'\bDrop\s+for\s+SyncFuture\b', syf) == 0
    fs = find_fn(ds, 'future_sync', 'fact:future_sync', impl='Scheduler')
    F['future_sync_slot_job'] = bool(re.search(r'queue_ready_send\.send\(\(\)\)\.ok\(\)\s*;\s*done_recv\.await\.ok\(\)\s*;\s*send\.signal\(\(\)\)\s*;', fs)) and bool(re.search(r'self\.schedule_job_desync\(queue,\s*Box::new\(signal_job\)\)\s*;\s*SyncFuture::new', fs))
    # dropping a SchedulerFuture does nothing to the queue (the model has no step for it): the Drop impl has an empty body
    sfd = re.search(r'impl<T:\s*Send>\s+Drop\s+for\s+SchedulerFuture<T>\s*\{\s*fn\s+drop\(&mut\s+self\)\s*\{(.*?)\}\s*\}', sf, flags=re.S)
    F['schedfuture_drop_inert'] = bool(sfd and sfd.group(1).strip() == '') and count(r'Drop\s+for\s+SchedulerFuture<', sf) == 1
    # drain_queue, job returned Pending: the queue state is written (WaitingForWake / WaitingForPoll) BEFORE the deferred wake-up is
    # released with wake_with - a wake-up that arrived during the poll then finds the parked state, not Running
    F['drain_queue_parks_before_wake_with'] = bool(re.search(r'\.state\s*=\s*QueueState::WaitingForWake\s*;(?:(?!\.state\s*=).)*?waker\.wake_with\(queue_waker\)\s*;(?:(?!wake_with).)*?\.state\s*=\s*QueueState::WaitingForPoll\(self\.id\)\s*;(?:(?!\.state\s*=).)*?waker\.wake_with\(wake_both\)\s*;', dqf, flags=re.S)) and count(r'wake_with\(', dqf) == 2
    # the wakers keep their queue alive (a strong Arc): a suspended operation whose future and queue handle were dropped still runs when woken
    wqs = strip_comments(open(S + 'wake_queue.rs').read()); wts = strip_comments(open(S + 'wake_thread.rs').read())
    F['wakers_hold_queue_strongly'] = bool(re.search(r'struct\s+WakeQueue\s*\(\s*pub\s*\(super\)\s*Arc<JobQueue>\s*,', wqs)) and bool(re.search(r'struct\s+WakeThread\s*\(\s*pub\s*\(super\)\s*Arc<JobQueue>\s*,', wts))
    # WakeThread: the thread is unparked whatever state the queue was found in (a stale waker of another thread must not swallow the wake-up)
    wtf = find_fn(strip_comments(open(S + 'wake_thread.rs').read()), 'wake_by_ref', 'fact:wake_thread')
    F['wake_thread_unparks_always'] = bool(re.search(r'match\s+queue_core\.state\s*\{[^{}]*\}\s*\}\s*thread\.unpark\(\)\s*;\s*\}\s*$', wtf)) and count(r'unpark\(\)', wtf) == 1 and count(r'\breturn\b', wtf) == 0
    # Desync::drop = sync(free)
    dd = re.search(r'impl<T:\s*Send>\s+Drop\s+for\s+Desync<T>\s*\{(.*?)\n\}', dsy, flags=re.S)
    # ... and nothing else: the whole body, normalised, is the two-branch final synchronous job (no early return, no other free)
    ddn = re.sub(r'\s+', ' ', re.sub(r'#\[cfg\([^\]]*\)\]\s*use\s+[^;]*;', '', dd.group(1) if dd else '')).strip()
    F['drop_only_syncs'] = ddn == ('fn drop(&mut self) { let data = DataRef::<T>(self.data); if thread::panicking() { scheduler().sync_no_panic(&self.queue, move || { '
        'let data = data.0; mem::drop(unsafe { Box::from_raw(data) }); }); } else { sync(&self.queue, move || { let data = data.0; mem::drop(unsafe { Box::from_raw(data) }); }); } }') and count(r'Box::from_raw', dsy) == 2
    F['drop_is_sync_free'] = bool(dd and re.search(r'else\s*\{\s*sync\(&self\.queue,\s*move\s*\|\|\s*\{\s*let\s+data\s*=\s*data\.0\s*;\s*mem::drop\(unsafe\s*\{\s*Box::from_raw\(data\)\s*\}\)\s*;', dd.group(1)))
    # the Desync<T> wrapper: every operation goes to the scheduler function of the same name on self.queue, and the protected value is
    # reached only INSIDE the queued closure through the pointer taken at the call (never outside the queue's exclusive access)
    def body_of(src, name):
        m = re.search(r"\bimpl<T:\s*'static\s*\+\s*Send>\s*Desync<T>\s*\{", src)
        if not m: return ''
        i = m.end() - 1
        inh = src[i:match_brace(src, i) + 1]
        try: return re.sub(r'\s+', ' ', find_fn(inh, name, 'fact:wrapper_' + name)).strip()
        except TranslateError: return ''
    W = {
      'desync': '{ let data = DataRef::<T>(self.data); desync(&self.queue, move || { let data = data.0; job(unsafe { &mut *data }); }) }',
      'sync': '{ let result = { let data = DataRef::<T>(self.data); sync(&self.queue, move || { let data = data.0; job(unsafe { &mut *data }) }) }; result }',
      'try_sync': '{ let result = { let data = DataRef::<T>(self.data); try_sync(&self.queue, move || { let data = data.0; job(unsafe { &mut *data }) }) }; result }',
      'future_desync': '{ let data = DataRef::<T>(self.data); scheduler().future_desync(&self.queue, move || { let data = data.0; let job = job(unsafe { &mut *data }); async { job.await } }) }',
      'future_sync': '{ let data = DataRef::<T>(self.data); scheduler().future_sync(&self.queue, move || { let data = data.0; let job = job(unsafe { &mut *data }); async { job.await } }) }',
      'after': '{ self.future_desync(move |data| { async move { let future_result = after.await; job(data, future_result) }.boxed() }) }',
      'new': '{ let queue = queue(); Desync { queue: queue, data: Box::into_raw(Box::new(data)), _marker: PhantomData } }',
    }
    for name, want in W.items():
        F['wrapper_' + name] = body_of(dsy, name) == want
    # pipes
    m = re.search(r'const\s+PIPE_BACKPRESSURE_COUNT\s*:\s*usize\s*=\s*(\d+)\s*;', pipe)
    if not m: raise TranslateError('fact:backpressure_count', "constant not found")
    F['pipe_backpressure_count'] = int(m.group(1))
    pf = find_fn(pipe, 'pipe', 'fact:pipe')
    F['backpressure_check_and_register_atomic'] = bool(re.search(r'let\s+mut\s+stream_core\s*=\s*stream_core\.lock\(\)\.unwrap\(\)\s*;\s*if\s+stream_core\.pending\.len\(\)\s*>=\s*stream_core\.max_pipe_depth\s*\{\s*stream_core\.backpressure_release_notify\s*=\s*Some\(desync_waker\.clone\(\)\)\s*;\s*return\s+true\s*;\s*\}\s*stream_core\.closed', pf))
    F['push_and_take_notify_atomic'] = bool(re.search(r'let\s+mut\s+stream_core\s*=\s*stream_core\.lock\(\)\.unwrap\(\)\s*;\s*stream_core\.pending\.push_back\(next_item\)\s*;\s*stream_core\.notify\.take\(\)\s*\}\s*;\s*notify\.map\(', pf))
    F['close_sets_closed_then_wakes'] = bool(re.search(r'stream_core\.closed\s*=\s*true\s*;\s*stream_core\.notify\.take\(\)\s*\}\s*;\s*notify\.map\(', pf))
    F['pending_arm_rechecks_closed'] = bool(re.search(r'Poll::Pending\s*=>\s*\{\s*let\s+mut\s+stream_core\s*=\s*stream_core\.lock\(\)\.unwrap\(\)\s*;\s*if\s+stream_core\.closed\s*\{\s*return\s+false\s*;?\s*\}\s*stream_core\.notify_stream_closed\s*=\s*Some\(desync_waker\.clone\(\)\)', pf))
    F['pending_arm_sets_notify_closed'] = count(r'notify_stream_closed\s*=\s*Some\(desync_waker\.clone\(\)\)', pf) == 1
    pn = find_fn(pipe, 'poll_next', 'fact:poll_next')
    F['poll_next_pops_front'] = count(r'core\.pending\.pop_front\(\)', pn) == 1
    F['poll_next_takes_backpressure'] = count(r'core\.backpressure_release_notify\.take\(\)', pn) == 2
    F['poll_next_stores_waker'] = bool(re.search(r'else\s*\{\s*let\s+notify_backpressure\s*=\s*core\.backpressure_release_notify\.take\(\)\s*;\s*core\.notify\s*=\s*Some\(context\.waker\(\)\.clone\(\)\)', pn))
    pd = re.search(r'impl<Item>\s+Drop\s+for\s+PipeStream<Item>\s*\{(.*?)\n\}', pipe, flags=re.S)
    # PipeStream::drop wakes the producer (notify_stream_closed) BEFORE it queues the disposal of the pipe's strong reference, both inside
    # the stream-core section (no early unlock): with the other order the reference can die while the closing poll still needs the lock
    F['stream_drop_wakes_before_dispose'] = bool(pd and re.search(r'core\.notify_stream_closed\.take\(\)\.map\([^;]*\)\s*;\s*self\.on_drop\.take\(\)\.map\(', pd.group(1)) and not re.search(r'drop\(core\)', pd.group(1)))
    F['stream_drop_closes_and_wakes'] = bool(pd and re.search(r'core\.pending\s*=\s*VecDeque::new\(\)\s*;\s*core\.closed\s*=\s*true\s*;\s*core\.notify_stream_closed\.take\(\)\.map\(', pd.group(1)))
    pc = find_fn(pipe, 'poll', 'fact:pipe_context_poll', impl='PipeContext')
    F['pipe_context_weak_upgrade'] = bool(re.search(r'if\s+let\s+Some\(target\)\s*=\s*arc_self\.target\.upgrade\(\)', pc))
    F['pipe_context_disposes_on_chute'] = bool(re.search(r'let\s+old_poll_fn\s*=\s*arc_self\.poll_fn\.lock\(\)\.unwrap\(\)\.take\(\)\s*;\s*REFERENCE_CHUTE\.desync\(', pc))
    F['pipe_waker_one_shot'] = bool(re.search(r'let\s+context\s*=\s*arc_self\.context\.lock\(\)\.unwrap\(\)\.take\(\)\s*;\s*if\s+let\s+Some\(context\)\s*=\s*context\s*\{\s*PipeContext::poll\(context\)', pipe))
    pin = find_fn(pipe, 'pipe_in', 'fact:pipe_in')
    F['pipe_in_stops_on_none'] = bool(re.search(r'Poll::Ready\(None\)\s*=>\s*return\s+false', pin))
    F['pipe_in_pending_returns_true'] = bool(re.search(r'Poll::Pending\s*=>\s*return\s+true', pin))
    F['pipe_in_unbounded_loop'] = count(r'\bloop\s*\{', pin) == 1 and count(r'\bfor\s+\w+\s+in\b|\bwhile\b', pin) == 0
    F['pipe_core_weak'] = bool(re.search(r'let\s+stream_core\s*=\s*Arc::downgrade\(&stream_core\)\s*;', pf)) and bool(re.search(r'let\s+stream_core\s*=\s*stream_core\.upgrade\(\)\s*;', pf)) and count(r'Arc::clone\(&output_stream\.core\)', pf) == 1
    F['pipe_unbounded_loop'] = count(r'\bloop\s*\{', pf) == 1 and count(r'\bfor\s+\w+\s+in\b|\bwhile\b', pf) == 0
    F['pipe_in_weak_only'] = count(r'Arc::clone\(&desync\)', pin) == 0
    return F

# ---------------------------------------------------------------- drain waker tables (enum DrainWakerState)

DW = ['NotWoken', 'Woken', 'WillWakeWithWaker']
def dw_table(src, fn, site, impl):
    body = find_fn(src, fn, site, impl)
    blocks = find_matches(body, r'state')
    if len(blocks) != 1: raise TranslateError(site, "match state blocks: %d" % len(blocks))
    arms = split_arms(blocks[0], site)
    out = {}
    for st in DW:
        for pat, arm in arms:
            base = re.sub(r'\(.*\)', '', pat.strip())
            if base == st:
                m = re.fullmatch(r'\*new_state\s*=\s*(\w+)(\(\w+\))?\s*;\s*(None|Some\(\w+\))', arm.strip())
                if not m: raise TranslateError(site, "arm not understood: %r" % arm)
                out[st] = (m.group(1), m.group(3) != 'None'); break
        else: raise TranslateError(site, "no arm for %s" % st)
    return out

# ---------------------------------------------------------------- Coq emission

def coq_state(name, var='f'):
    return 'WaitingForPoll %s' % var if name == 'WaitingForPoll' else name

def emit_rows(tab, render, two_bool=None, own_split=False):
    """match st with ... end ; render(new, res, flags) -> Coq term; two_bool: name of the empty-flag variable"""
    lines = ['  match st with']
    for b in BASES:
        def cell(st):
            a, c = tab[(st, True)], tab[(st, False)]
            ra, rc = render(*a), render(*c)
            if ra == rc or two_bool is None:
                if ra != rc: raise TranslateError('emit', 'table depends on emptiness unexpectedly')
                return ra
            return '(if %s then %s else %s)' % (two_bool, ra, rc)
        if b == 'WaitingForPoll':
            own, oth = cell('WaitingForPoll:own'), cell('WaitingForPoll:other')
            if own == oth: lines.append('  | WaitingForPoll f => %s' % own)
            else:
                if not own_split: raise TranslateError('emit', 'table distinguishes own/other future unexpectedly')
                lines.append('  | WaitingForPoll f => if Nat.eqb f me then %s else %s' % (own, oth))
        else:
            lines.append('  | %s => %s' % (b, cell(b)))
    lines.append('  end.')
    return '\n'.join(lines)

def translate(R):
    S = R + '/src/scheduler/'
    rd = lambda p: strip_comments(open(p).read())
    ds, core, jq, sf = rd(S + 'desync_scheduler.rs'), rd(S + 'core.rs'), rd(S + 'job_queue.rs'), rd(S + 'scheduler_future.rs')
    qs, wq, wt = rd(S + 'queue_state.rs'), rd(S + 'wake_queue.rs'), rd(S + 'wake_thread.rs')
    isr = is_running_table(qs, 'table:is_running')
    T = {}
    T['sync'] = table(ds, 'sync', 'table:sync', isr, impl='Scheduler')
    T['sync_no_panic'] = table(ds, 'sync_no_panic', 'table:sync_no_panic', isr)
    T['try_sync'] = table(ds, 'try_sync', 'table:try_sync', isr, impl='Scheduler')
    T['desync'] = table(ds, 'schedule_job_desync', 'table:desync', isr, which=0)
    T['poll'] = table(sf, 'poll', 'table:poll', isr, impl='Future')
    T['resched'] = table(core, 'reschedule_queue', 'table:resched', isr)
    T['next'] = table(core, 'next_to_run', 'table:next', isr)
    T['claim'] = table(core, 'claim_pending_queue', 'table:claim', isr)
    T['dequeue'] = table(jq, 'dequeue', 'table:dequeue', isr)
    T['drain_pend'] = table(jq, 'drain', 'table:drain_pend', isr, assign=True, nblocks=1, which=0)
    T['drain_fin'] = block_table(jq, 'drain', 'table:drain_fin', isr, r'\{\s*let\s+mut\s+core\s*=\s*self\.core\.lock\(\)\.expect\("JobQueue core lock"\)\s*;\s*debug_assert!\(core\.state\.is_running\(\)\)\s*;\s*if\s+core\.queue\.len')
    T['roj_pend'] = table(jq, 'run_one_job_now', 'table:roj_pend', isr, which=0, assign=True, nblocks=2)
    T['roj_park'] = table(jq, 'run_one_job_now', 'table:roj_park', isr, which=1, nblocks=2)
    T['wake_queue'] = table(wq, 'wake_by_ref', 'table:wake_queue', isr, assign=True)
    T['wake_thread'] = table(wt, 'wake_by_ref', 'table:wake_thread', isr, assign=True)
    D = {'wake_with': dw_table(sf, 'wake_with', 'table:dw_wake_with', 'DrainWaker'),
         'wake': dw_table(sf, 'wake_by_ref', 'table:dw_wake', r'task::ArcWake\s+for\s+DrainWaker')}
    F = facts_of(R)
    return isr, T, D, F

def variant(res, site, mapping):
    if res is None: raise TranslateError(site, "arm has no value")
    key = res.split('::')[-1]
    key = re.sub(r'\(.*\)', '', key).strip()
    if key not in mapping: raise TranslateError(site, "unknown action %r" % res)
    return mapping[key]

def emit_coq(isr, T, D, F):
    o = []
    o.append("(* GENERATED by /verif/translate/rs2coq.py from /repo/src - do not edit. *)")
    o.append("From stdpp Require Import list numbers option.")
    o.append("From L0 Require Import Types.\n")
    o.append("Definition g_is_running (st : qstate) : bool :=\n  match st with")
    for b in BASES:
        key = b if b != 'WaitingForPoll' else 'WaitingForPoll:own'
        if b == 'WaitingForPoll' and isr['WaitingForPoll:own'] != isr['WaitingForPoll:other']: raise TranslateError('emit', 'is_running own/other')
        o.append("  | %s => %s" % ('WaitingForPoll _' if b == 'WaitingForPoll' else b, 'true' if isr[key] else 'false'))
    o.append("  end.\n")
    SA = {'Immediate': 'SAImmediate', 'DrainOnThisThread': 'SADrain', 'WaitForBackground': 'SABackground', 'Panic': 'SAPanic'}
    TA = {'Immediate': 'TAImmediate', 'Busy': 'TABusy', 'Panic': 'TAPanic'}
    DA = {'Idle': 'DASchedule', 'Running': 'DANone', 'Panicked': 'DAPanic'}
    PA = {'WaitForCompletion': 'PAWait', 'DrainQueue': 'PADrain', 'Panic': 'PAPanic'}
    o.append("Definition g_sync (st : qstate) (empty : bool) : qstate * syncact :=")
    o.append(emit_rows(T['sync'], lambda n, r, f: "(%s, %s)" % (coq_state(n), variant(r, 'table:sync', SA)), 'empty'))
    o.append("\nDefinition g_sync_no_panic (st : qstate) (empty : bool) : qstate * syncact :=")
    o.append(emit_rows(T['sync_no_panic'], lambda n, r, f: "(%s, %s)" % (coq_state(n), variant(r, 'table:sync_no_panic', SA)), 'empty'))
    o.append("\nDefinition g_trysync (st : qstate) (empty : bool) : qstate * tryact :=")
    o.append(emit_rows(T['try_sync'], lambda n, r, f: "(%s, %s)" % (coq_state(n), variant(r, 'table:try_sync', TA)), 'empty'))
    o.append("\nDefinition g_desync (st : qstate) : qstate * desyncact :=")
    o.append(emit_rows(T['desync'], lambda n, r, f: "(%s, %s)" % (coq_state(n), variant(r, 'table:desync', DA))))
    o.append("\nDefinition g_poll (me : nat) (st : qstate) : qstate * pollact :=")
    o.append(emit_rows(T['poll'], lambda n, r, f: "(%s, %s)" % (coq_state(n), variant(r, 'table:poll', PA)), own_split=True))
    def rs(n, r, f):
        if r not in ('true', 'false'): raise TranslateError('table:resched', 'value %r' % r)
        return "(%s, %s)" % (coq_state(n), r)
    o.append("\nDefinition g_resched (st : qstate) (nonempty : bool) : qstate * bool :=")
    o.append(emit_rows({(s, e): T['resched'][(s, not e)] for (s, e) in T['resched']}, rs, 'nonempty'))
    def nx(n, r, f):
        if r is None: return 'None'
        if r.startswith('return Some('): return 'Some %s' % coq_state(n)
        raise TranslateError('table:next', 'value %r' % r)
    o.append("\nDefinition g_next (st : qstate) : option qstate :=")
    o.append(emit_rows(T['next'], nx))
    def clm(n, r, f):
        if r == 'true':
            if not f.get('retain'): raise TranslateError('table:claim', 'claiming arm does not remove the queue from the schedule')
            return 'Some %s' % coq_state(n)
        if r == 'false': return 'None'
        raise TranslateError('table:claim', 'value %r' % r)
    o.append("\nDefinition g_claim (st : qstate) : option qstate :=")
    o.append(emit_rows(T['claim'], clm))
    # rows of g_claim that apply only while the queue is in the schedule (match guard in the source)
    o.append("\nDefinition g_claim_needs_scheduled (st : qstate) : bool :=")
    o.append(emit_rows(T['claim'], lambda n, r, f: 'true' if f.get('guard') == 'scheduled' else 'false'))
    def dqr(n, r, f):
        if r == 'None': return 'true'
        if r is not None and 'pop_front' in r: return 'false'
        raise TranslateError('table:dequeue', 'value %r' % r)
    o.append("\nDefinition g_dequeue_refuses (st : qstate) : bool :=")
    o.append(emit_rows(T['dequeue'], dqr))
    o.append("\n(* drain, Poll::Pending arm: new state; the caller returns iff the new state is WaitingForWake *)")
    o.append("Definition g_drain_pend (st : qstate) : qstate :=")
    o.append(emit_rows(T['drain_pend'], lambda n, r, f: coq_state(n)))
    o.append("\n(* drain, final block: (new state, done) *)")
    o.append("Definition g_drain_fin (st : qstate) (empty : bool) : qstate * bool :=")
    o.append(emit_rows(T['drain_fin'], lambda n, r, f: "(%s, %s)" % (coq_state(n), 'true' if f.get('done') else 'false'), 'empty'))
    o.append("\n(* run_one_job_now, Poll::Pending arm: None = panic *)")
    o.append("Definition g_roj_pend (st : qstate) : option qstate :=")
    o.append(emit_rows(T['roj_pend'], lambda n, r, f: 'None' if r == 'panic' else 'Some %s' % coq_state(n)))
    def pk(n, r, f):
        if r == 'panic': return 'PKPanic'
        if r == 'break': return 'PKBreak'
        if r == '()': return 'PKPark'
        raise TranslateError('table:roj_park', 'value %r' % r)
    o.append("\nDefinition g_roj_park (st : qstate) : parkact :=")
    o.append(emit_rows(T['roj_park'], pk))
    o.append("\n(* WakeQueue: (new state, goes on to reschedule_queue) *)")
    o.append("Definition g_wake_queue (st : qstate) : qstate * bool :=")
    o.append(emit_rows(T['wake_queue'], lambda n, r, f: "(%s, %s)" % (coq_state(n), 'false' if (r or '').startswith('return') else 'true')))
    o.append("\nDefinition g_wake_thread (st : qstate) : qstate :=")
    o.append(emit_rows(T['wake_thread'], lambda n, r, f: coq_state(n)))
    dwn = {'NotWoken': 'DWNotWoken', 'Woken': 'DWWoken', 'WillWakeWithWaker': 'DWWillWake'}
    for nm, key in (('g_dw_wake_with', 'wake_with'), ('g_dw_wake', 'wake')):
        o.append("\n(* DrainWaker::%s: (new state, a waker is called now) *)" % key)
        o.append("Definition %s (st : dwstate) : dwstate * bool :=\n  match st with" % nm)
        for st in DW: o.append("  | %s => (%s, %s)" % (dwn[st], dwn[D[key][st][0]], 'true' if D[key][st][1] else 'false'))
        o.append("  end.")
    o.append("\n(* ---------- structural facts ---------- *)")
    CMP = {'<': 'CLt', '<=': 'CLe', '>': 'CGt', '>=': 'CGe', '==': 'CEq', '!=': 'CNe'}
    for k in sorted(F):
        v = F[k]
        if isinstance(v, bool): o.append("Definition fact_%s : bool := %s." % (k, 'true' if v else 'false'))
        elif isinstance(v, int): o.append("Definition fact_%s : nat := %d." % (k, v))
        else: o.append("Definition fact_%s : cmpop := %s." % (k, CMP[v]))
    o.append("")
    o.append("Definition gen_tables : tables := {|\n  t_desync := g_desync; t_sync := g_sync; t_trysync := g_trysync; t_resched := g_resched;\n  t_next := g_next; t_claim := g_claim; t_dequeue_refuses := g_dequeue_refuses; t_drain_fin := g_drain_fin |}.")
    o.append("Definition gen_facts : facts := {| f_dormant_blocks := fact_dormant_blocks; f_sticky_notify := fact_sticky_notify |}.")
    return '\n'.join(o) + '\n'

def main():
    R = sys.argv[1] if len(sys.argv) > 1 else '/repo'
    out = sys.argv[2] if len(sys.argv) > 2 else None
    try:
        isr, T, D, F = translate(R)
        coq = emit_coq(isr, T, D, F)
    except TranslateError as e:
        print("TRANSLATE-ERROR %s" % e)
        sys.exit(3)
    dump = {'is_running': isr, 'tables': {k: {"%s/%s" % (s, 'empty' if e else 'nonempty'): [v[0], v[1], v[2]] for (s, e), v in t.items()} for k, t in T.items()},
            'drain_waker': {k: {s: list(v) for s, v in t.items()} for k, t in D.items()}, 'facts': F}
    if out:
        os.makedirs(out, exist_ok=True)
        p = os.path.join(out, 'Tables.v')
        old = open(p).read() if os.path.exists(p) else None
        if old != coq: open(p, 'w').write(coq)
        open(os.path.join(out, 'tables.json'), 'w').write(json.dumps(dump, indent=1, sort_keys=True))
        print("translated: %d tables, %d facts -> %s%s" % (len(T) + len(D) + 1, len(F), p, '' if old != coq else ' (unchanged)'))
    else:
        sys.stdout.write(coq)

if __name__ == '__main__':
    main()
