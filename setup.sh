#!/bin/sh
# Builds the framework from files on disk only (offline): translator output, Coq development, harness (controlled runtime and
# real threads), extraction + replay drivers. Every check rebuilds what depends on /repo again; this only warms the caches.
cd "$(dirname "$0")"
export CARGO_NET_OFFLINE=true
python3 translate/rs2coq.py /repo coq/gen || true
( cd coq && coq_makefile -f _CoqProject -o Makefile >/dev/null 2>&1 && timeout 3000 make -k -j16 >/dev/null 2>&1 || true )
( cd harness && cargo build --release --offline >/dev/null 2>&1 || true )
( cd harness && sh real/build.sh >/dev/null 2>&1 || true )
( cd harness && sh real/build_asan.sh >/dev/null 2>&1 || true )
for d in driver driver/pipein driver/pipe driver/syncfut driver/l2; do [ -f $d/build.sh ] && ( sh $d/build.sh >/dev/null 2>&1 || true ); done
echo setup done
