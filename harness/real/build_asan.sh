#!/bin/sh
# The real-thread harness with AddressSanitizer (nightly toolchain, offline): a use of the protected value, of a job or of a captured
# borrow after it was freed aborts the process with an ASan report instead of going unnoticed (C14).
cd "$(dirname "$0")/.."
RUSTFLAGS="-Zsanitizer=address --cfg desync_verif --cfg desync_verif_real --cfg desync_verif_asan -Awarnings" CARGO_TARGET_DIR=target-asan cargo +nightly build --release --offline --target x86_64-unknown-linux-gnu
