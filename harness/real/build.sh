#!/bin/sh
# Builds the same harness on REAL threads: the shim over std instead of the controlled runtime (panic scenarios, smoke runs).
cd "$(dirname "$0")/.."
RUSTFLAGS="--cfg desync_verif --cfg desync_verif_real -Awarnings" CARGO_TARGET_DIR=target-real cargo build --release --offline
