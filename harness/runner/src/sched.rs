//! Schedulers for the controlled runtime: seeded random, sticky random, guided replay; all record their choices.
use shuttle::scheduler::{Schedule, Scheduler, Task, TaskId};
use std::sync::{Arc, Mutex};

pub type Trace = Arc<Mutex<Vec<usize>>>;

pub enum Kind { Rnd, Sticky(u64), Guided(Vec<usize>), Withhold(usize), Inject { base: Vec<usize>, k: usize, task: usize }, Freeze { base: Vec<usize>, k: usize, dur: usize } }

pub struct Sched { pub kind: Kind, pub seed: u64, rng: u64, started: bool, pub trace: Trace, pos: usize, injected_done: bool, pub diverged: Arc<Mutex<Option<usize>>>, spurious: bool }

impl Sched {
    pub fn new(kind: Kind, seed: u64) -> Sched {
        Sched { kind, seed, rng: 0, started: false, trace: Arc::new(Mutex::new(vec![])), pos: 0, injected_done: false, diverged: Arc::new(Mutex::new(None)), spurious: false }
    }
    fn next(&mut self) -> u64 { let mut x = self.rng; if x == 0 { x = 0x9E3779B97F4A7C15; } x ^= x << 13; x ^= x >> 7; x ^= x << 17; self.rng = x; x }
}

impl Scheduler for Sched {
    fn new_execution(&mut self) -> Option<Schedule> {
        if self.started { return None; }
        self.started = true;
        self.rng = (self.seed.wrapping_add(1)).wrapping_mul(0x9E3779B97F4A7C15) ^ 0xA5A5_5A5A_1234_5678;
        self.next(); self.next();
        // a parked thread may return from park() without an unpark, but nothing guarantees that it ever does: spurious returns are
        // explored in one execution out of four (and there rarely); in the others a thread that misses its unpark stays parked
        self.spurious = (self.next() >> 20) % 4 == 0;
        Some(Schedule::new(self.seed))
    }
    fn next_task(&mut self, runnable: &[&Task], cur: Option<TaskId>, yielding: bool) -> Option<TaskId> {
        // the runtime also offers blocked tasks that may wake spuriously (parked threads): `all_ids` has them, `ids` only on a spurious turn
        let all_ids: Vec<usize> = runnable.iter().map(|t| usize::from(t.id())).collect();
        let real: Vec<usize> = runnable.iter().filter(|t| t.runnable()).map(|t| usize::from(t.id())).collect();
        let spur_turn = real.len() < all_ids.len() && self.spurious && (self.next() >> 20) % 16 == 0;
        let ids: Vec<usize> = if spur_turn || real.is_empty() { all_ids.clone() } else { real };
        let choice = match &self.kind {
            Kind::Rnd => ids[(self.next() >> 11) as usize % ids.len()],
            Kind::Sticky(pct) => {
                let pct = *pct;
                let c = cur.map(usize::from);
                let r = (self.next() >> 11) % 100;
                match c { Some(c) if ids.contains(&c) && !yielding && r < pct => c, _ => ids[(self.next() >> 11) as usize % ids.len()] }
            }
            Kind::Withhold(t) => {
                // never run task t unless nothing else can run
                let t = *t;
                // (a task that yields - spinning on a flag, or parked and woken spuriously - does not count as able to run)
                let c = cur.map(usize::from);
                let others: Vec<usize> = ids.iter().copied().filter(|x| *x != t && !(yielding && Some(*x) == c)).collect();
                if others.is_empty() { if ids.contains(&t) { t } else { ids[0] } } else { others[(self.next() >> 11) as usize % others.len()] }
            }
            Kind::Inject { base, k, task } => {
                // follow the base schedule for k decisions, then run `task` for as long as it can run, then go on with the base order
                let (k, task) = (*k, *task);
                let c = cur.map(usize::from);
                let fair: Vec<usize> = { let v: Vec<usize> = ids.iter().copied().filter(|x| !(yielding && Some(*x) == c)).collect(); if v.is_empty() { ids.clone() } else { v } };
                if self.pos < k { let w = base.get(self.pos).copied(); self.pos += 1; match w { Some(w) if all_ids.contains(&w) => w, _ => usize::MAX } }
                else if ids.contains(&task) && !self.injected_done && !(yielding && c == Some(task)) { task }      // until it blocks, parks or spins
                else {
                    self.injected_done = true;
                    let w = base.get(self.pos).copied(); self.pos += 1;
                    match w { Some(w) if fair.contains(&w) => w, _ => fair[(self.next() >> 11) as usize % fair.len()] }
                }
            }
            Kind::Freeze { base, k, dur } => {
                // follow the base schedule for k decisions; the task the base schedule would run at decision k is then held back
                // for `dur` decisions (unless nothing else can run) while the others run fairly; afterwards random
                let (k, dur) = (*k, *dur);
                let c = cur.map(usize::from);
                let fair: Vec<usize> = { let v: Vec<usize> = ids.iter().copied().filter(|x| !(yielding && Some(*x) == c)).collect(); if v.is_empty() { ids.clone() } else { v } };
                if self.pos < k { let w = base.get(self.pos).copied(); self.pos += 1; match w { Some(w) if all_ids.contains(&w) => w, _ => usize::MAX } }
                else if self.pos < k + dur {
                    let frozen = base.get(k).copied().unwrap_or(usize::MAX);
                    self.pos += 1;
                    let others: Vec<usize> = fair.iter().copied().filter(|x| *x != frozen).collect();
                    if others.is_empty() { self.pos = k + dur; fair[(self.next() >> 11) as usize % fair.len()] } else { others[(self.next() >> 11) as usize % others.len()] }
                }
                else { self.pos += 1; fair[(self.next() >> 11) as usize % fair.len()] }
            }
            Kind::Guided(list) => {
                let want = list.get(self.pos).copied();
                self.pos += 1;
                match want {
                    Some(w) if all_ids.contains(&w) => w,
                    _ => usize::MAX
                }
            }
        };
        let choice = if choice == usize::MAX {
            { let mut d = self.diverged.lock().unwrap(); if d.is_none() { *d = Some(self.pos - 1); } }
            ids[(self.next() >> 11) as usize % ids.len()]
        } else { choice };
        self.trace.lock().unwrap().push(choice);
        Some(TaskId::from(choice))
    }
    fn next_u64(&mut self) -> u64 { self.next() }
}
