//! Interprets a `Program` against the real desync API, with run-time monitors for the properties.

use crate::prog::*;
use desync::verif::rt;
use desync::{Desync};
use futures::future::{BoxFuture, FutureExt};
use futures::task::{ArcWake, Context, Poll, waker};
use std::future::Future;
use std::pin::Pin;
use std::sync::atomic::{AtomicBool, AtomicI64, AtomicU64, AtomicUsize, Ordering::SeqCst};
use std::sync::{Arc, Mutex as StdMutex};

/// What an operation record remembers (all stamps are ticks of one logical clock; 0 = never)
#[derive(Clone, Debug, Default)]
pub struct OpRec {
    pub obj: usize, pub kind: char, pub caller: usize, pub text: String,
    pub inv: u64, pub ret: u64, pub start: u64, pub end: u64,
    pub runs: usize, pub accepted: bool, pub cancelled: bool, pub busy: bool, pub result_ok: Option<bool>, pub nested: bool,
}

pub struct ObjMon { pub id: usize, pub occ: AtomicI64, pub dead: AtomicBool, pub drops: AtomicUsize, pub free_tick: AtomicU64, pub panicked: AtomicBool }

pub struct Payload { mon: Arc<ObjMon>, clock: Arc<AtomicU64>, canary: u64 }
impl Drop for Payload {
    fn drop(&mut self) {
        self.mon.drops.fetch_add(1, SeqCst);
        self.mon.dead.store(true, SeqCst);
        self.mon.free_tick.store(self.clock.fetch_add(1, SeqCst) + 1, SeqCst);
        self.canary = 0xDEAD;
    }
}

struct EventCell { st: StdMutex<(bool, Vec<std::task::Waker>)> }
struct EventFut { ctx: Arc<Ctx>, e: usize, sig: Option<usize> }
impl Future for EventFut {
    type Output = ();
    fn poll(self: Pin<&mut Self>, cx: &mut Context) -> Poll<()> {
        rt::thread::yield_now();
        let mut st = self.ctx.events[self.e].st.lock().unwrap();
        desync::verif::log("sf", "EVPOLL", self.e, if st.0 { "ready".to_string() } else { "pending".to_string() });
        if st.0 { desync::verif::log("api", "AWAITREADY", self.e, String::new()); Poll::Ready(()) } else {
            st.1.push(cx.waker().clone());
            desync::verif::log("api", "AWAITREG", self.e, String::new());
            drop(st);
            // tell whoever scripted it that this operation is now suspended with its waker registered
            if let Some(e2) = self.sig { let ws = { let mut s2 = self.ctx.events[e2].st.lock().unwrap(); desync::verif::log("api", "FIRE", e2, String::new()); s2.0 = true; std::mem::take(&mut s2.1) }; for w in ws { w.wake(); } }
            Poll::Pending
        }
    }
}

/// yield_now-style future: wakes its own waker during the first poll and returns Pending once
struct CoopYield(bool);
impl Future for CoopYield {
    type Output = ();
    fn poll(mut self: Pin<&mut Self>, cx: &mut Context) -> Poll<()> {
        if self.0 { Poll::Ready(()) } else { self.0 = true; desync::verif::log("api", "COOPYIELD", 0, String::new()); cx.waker().wake_by_ref(); Poll::Pending }
    }
}
/// the processing of a gated pipe item: waits until the consumer has received every earlier item of the stream
struct ConsumerSaw { ctx: Arc<Ctx>, k: usize, item: u64 }
impl Future for ConsumerSaw {
    type Output = ();
    fn poll(self: Pin<&mut Self>, cx: &mut Context) -> Poll<()> {
        let sc = &self.ctx.streams[self.k];
        let mut ws = sc.gate_wakers.lock().unwrap();
        if sc.received.lock().unwrap().len() as u64 >= self.item { return Poll::Ready(()); }
        desync::verif::log("api", "ITEMWAIT", self.item as usize, String::new());
        ws.push(cx.waker().clone());
        Poll::Pending
    }
}
/// wakes its own waker and panics in the same poll: the queue is found 'awoken while running' by the guard that handles the panic
struct WakeThenPanic(usize);
impl Future for WakeThenPanic {
    type Output = ();
    fn poll(self: Pin<&mut Self>, cx: &mut Context) -> Poll<()> { cx.waker().wake_by_ref(); panic!("INTENDED panic in operation {}", self.0); }
}
/// select-style future: ready when either event has fired; while pending its waker is registered with BOTH events, so the
/// event that fires second calls a stale waker (possibly long after the operation has finished)
struct EitherFut { ctx: Arc<Ctx>, e: usize, e2: usize }
impl Future for EitherFut {
    type Output = ();
    fn poll(self: Pin<&mut Self>, cx: &mut Context) -> Poll<()> {
        rt::thread::yield_now();
        for e in [self.e, self.e2] { if self.ctx.events[e].st.lock().unwrap().0 { desync::verif::log("api", "EITHERREADY", e, String::new()); return Poll::Ready(()); } }
        for e in [self.e, self.e2] {
            let mut st = self.ctx.events[e].st.lock().unwrap();
            if st.0 { drop(st); cx.waker().wake_by_ref(); } else { st.1.push(cx.waker().clone()); }
        }
        desync::verif::log("api", "EITHERREG", self.e, format!("{}", self.e2));
        Poll::Pending
    }
}

struct Gate { open: rt::sync::Mutex<bool>, cv: rt::sync::Condvar }

/// Harness-made input stream (built on std primitives only: nothing here may block across a controlled context switch)
/// Identity of the running thread: the controlled runtime's task id, or a hash of the OS thread id on real threads
#[cfg(not(desync_verif_real))]
fn my_task() -> usize { desync::verif::me() }
#[cfg(desync_verif_real)]
fn my_task() -> usize { desync::verif::me() }        // caller threads are started through the shim, which numbers them (main = 0)

/// consumer probes (polls with a throw-away waker before the real read) on or off
pub static PROBE: AtomicBool = AtomicBool::new(true);

pub struct StreamCore {
    st: StdMutex<(std::collections::VecDeque<u64>, bool, Option<std::task::Waker>)>,
    pub pushed: AtomicU64, pub released: AtomicBool, pub processed: StdMutex<Vec<u64>>, pub received: StdMutex<Vec<u64>>, pub ended_seen: AtomicBool,
    pub polls_after_gone: AtomicUsize, pub slow: StdMutex<std::collections::HashSet<u64>>,
    pub gated: StdMutex<std::collections::HashSet<u64>>, pub gate_wakers: StdMutex<Vec<std::task::Waker>>,
}
pub struct HStream { core: Arc<StreamCore> }
impl futures::Stream for HStream {
    type Item = u64;
    fn poll_next(self: Pin<&mut Self>, cx: &mut Context) -> Poll<Option<u64>> {
        rt::thread::yield_now();
        let mut st = self.core.st.lock().unwrap();
        if let Some(x) = st.0.pop_front() { Poll::Ready(Some(x)) } else if st.1 { Poll::Ready(None) } else { st.2 = Some(cx.waker().clone()); Poll::Pending }
    }
}
impl Drop for HStream { fn drop(&mut self) { self.core.released.store(true, SeqCst); } }

/// Queue-level object: a scheduler JobQueue plus a payload reached through a raw pointer, exactly as `Desync<T>` does it
/// (needed because `suspend` exists only in the scheduler-level API)
pub struct QObj { queue: Arc<desync::scheduler::JobQueue>, data: *mut Payload }
unsafe impl Send for QObj {}
unsafe impl Sync for QObj {}
#[derive(Clone, Copy)] struct PPtr(*mut Payload);
unsafe impl Send for PPtr {}
unsafe impl Sync for PPtr {}
impl Drop for QObj { fn drop(&mut self) { let d = PPtr(self.data); desync::scheduler::sync(&self.queue, move || { let d = d; drop(unsafe { Box::from_raw(d.0) }); }); } }

pub struct Ctx {
    pub prog: Program,
    qobjs: Vec<StdMutex<Option<Arc<QObj>>>>,
    objs: Vec<StdMutex<Option<Arc<Desync<Payload>>>>>,
    pub mons: Vec<Arc<ObjMon>>,
    events: Vec<EventCell>,
    gates: Vec<Gate>,
    pub streams: Vec<Arc<StreamCore>>,
    pub clock: Arc<AtomicU64>,
    pub ops: StdMutex<Vec<OpRec>>,
    pub errors: StdMutex<Vec<String>>,
    pending: AtomicUsize,
    /// current pool maximum (changed by M<n>), the largest maximum in force so far, and whether the maximum is being lowered right now
    cur_max: AtomicUsize, max_ever: AtomicUsize, racy_max_change: AtomicBool,
    /// resumers handed over to another caller (R<q>): object -> (resumer, suspend operation)
    shared_resumers: StdMutex<std::collections::HashMap<usize, (desync::scheduler::QueueResumer, usize)>>,
    latch: rt::sync::Mutex<()>,
    latch_cv: rt::sync::Condvar,
    pub fail_fast: bool,
    pub touch_yield: bool,
    pub threads: StdMutex<Vec<Option<rt::thread::Thread>>>,
    pub in_try: StdMutex<std::collections::HashMap<usize, usize>>,
    pub panics_started: AtomicUsize,
    pub panics_caught: AtomicUsize,
    pub panic_base: usize,
}

impl Ctx {
    fn tick(&self) -> u64 { self.clock.fetch_add(1, SeqCst) + 1 }
    pub fn error(&self, prop: &str, msg: String) {
        let m = format!("MONITOR {}: {}", prop, msg);
        self.errors.lock().unwrap().push(m.clone());
        if self.fail_fast && !std::thread::panicking() { panic!("{}", m); }
    }
    fn new_op(&self, o: &Op, caller: usize, nested: bool) -> usize {
        let kind = fmt_op(o).chars().next().unwrap();
        let mut ops = self.ops.lock().unwrap();
        ops.push(OpRec { obj: o.obj().unwrap_or(0), kind, caller, text: fmt_op(o), nested, ..Default::default() });
        ops.len() - 1
    }
    fn with_op<R>(&self, oid: usize, f: impl FnOnce(&mut OpRec) -> R) -> R { f(&mut self.ops.lock().unwrap()[oid]) }
    fn obj(&self, q: usize) -> Option<Arc<Desync<Payload>>> { self.objs[q].lock().unwrap().clone() }

    fn add_pending(&self) { self.pending.fetch_add(1, SeqCst); }
    fn done_pending(&self) {
        if self.pending.fetch_sub(1, SeqCst) == 1 {
            let _g = self.latch.lock().unwrap();
            self.latch_cv.notify_all();
        }
    }
    fn wait_all(&self) {
        let mut g = self.latch.lock().unwrap();
        while self.pending.load(SeqCst) > 0 { g = self.latch_cv.wait(g).unwrap(); }
    }

    /// An operation's closure/future starts running with access to the payload
    fn op_start(&self, oid: usize, p: &mut Payload) {
        let t = self.tick();
        // a thread inside try_sync runs its own closure or nothing: running somebody else's operation means it is draining the queue
        let tr = { let g = self.in_try.lock().unwrap(); g.get(&my_task()).copied() };
        if let Some(t0) = tr { if t0 != oid && self.with_op(oid, |r| r.obj) == self.with_op(t0, |r| r.obj) { self.error("C09", format!("try_sync {} ran operation {} on its caller's thread (it took over the queue instead of returning Busy)", t0, oid)); } }
        let (runs, obj) = self.with_op(oid, |r| { r.runs += 1; r.start = t; (r.runs, r.obj) });
        desync::verif::log("sf", "OSTART", oid, format!("{}", obj));
        if runs != 1 { self.error("C03", format!("operation {} ran {} times", oid, runs)); }
        if p.mon.id != obj { self.error("C14", format!("operation {} got the payload of object {}", oid, p.mon.id)); }
        self.touch(oid, p);
        let occ = p.mon.occ.fetch_add(1, SeqCst) + 1;
        if occ != 1 {
            self.error("C01", format!("operation {} started on object {} while {} other operation(s) in progress", oid, obj, occ - 1));
            // a try_sync closure is one of the overlapping operations: it did not get the exclusive access it is promised (C09)
            let t = { let ops = self.ops.lock().unwrap(); ops.iter().enumerate().find(|(i, r)| r.obj == obj && r.kind == 'T' && r.start != 0 && r.end == 0 && (*i == oid || ops[oid].kind != 'T' || *i != oid)).map(|(i, _)| i) };
            if let Some(t) = t { self.error("C09", format!("the closure of try_sync {} ran on object {} while another operation was in progress (operation {} started with {} in progress)", t, obj, oid, occ - 1)); }
        }
    }
    fn touch(&self, oid: usize, p: &mut Payload) {
        if p.mon.dead.load(SeqCst) || p.canary != 0xC0FFEE { self.error("C05", format!("operation {} touched object {} after it was freed", oid, p.mon.id)); }
        if self.touch_yield {
            p.canary = 0xC0FFEE + 1 + oid as u64;
            rt::thread::yield_now();
            if p.canary != 0xC0FFEE + 1 + oid as u64 { self.error("C01", format!("operation {} saw object {} modified concurrently", oid, p.mon.id)); }
            p.canary = 0xC0FFEE;
        }
    }
    fn op_end(&self, oid: usize, mon: &ObjMon, cancelled: bool) {
        desync::verif::log("sf", "OEND", oid, if cancelled { "cancelled".to_string() } else { "finished".to_string() });
        mon.occ.fetch_sub(1, SeqCst);
        let t = self.tick();
        self.with_op(oid, |r| { r.end = t; r.cancelled = cancelled; });
    }
}

/// Marks the end (or cancellation) of a future-based operation when its future completes or is dropped
struct SpanGuard { ctx: Arc<Ctx>, oid: usize, mon: Option<Arc<ObjMon>>, finished: bool, counted: bool }
impl Drop for SpanGuard {
    fn drop(&mut self) {
        if let Some(mon) = self.mon.take() { self.ctx.op_end(self.oid, &mon, !self.finished); }
        if self.counted { self.ctx.done_pending(); }
    }
}

/// Runs a (non-async) body inside an operation of object `q`
fn run_body(ctx: &Arc<Ctx>, oid: usize, body: &Vec<Prim>, p: &mut Payload, caller: usize) {
    ctx.op_start(oid, p);
    let mon = p.mon.clone();
    struct End<'a>(&'a Ctx, usize, Arc<ObjMon>);
    impl<'a> Drop for End<'a> { fn drop(&mut self) { self.0.op_end(self.1, &self.2, std::thread::panicking()); } }
    let _end = End(&**ctx, oid, mon);
    for prim in body {
        match prim {
            Prim::Touch => ctx.touch(oid, p),
            Prim::AwaitEv(_) | Prim::AwaitEvSig(_, _) | Prim::CoopYield | Prim::AwaitEither(_, _) | Prim::WakePanic => { /* only meaningful in future bodies */ }
            Prim::Gate(g) => { let gt = &ctx.gates[*g]; let mut o = gt.open.lock().unwrap(); while !*o { o = gt.cv.wait(o).unwrap(); } }
            Prim::Panic => { p.mon.panicked.store(true, SeqCst); ctx.panics_started.fetch_add(1, SeqCst); panic!("INTENDED panic in operation {}", oid); }
            Prim::Signal(e) => { exec_op(ctx, &Op::Fire(*e), caller, true, &mut Local::default()); }
            Prim::Nested(op) => { exec_op(ctx, op, caller, true, &mut Local::default()); }
        }
    }
}

/// Runs an async body inside a future-based operation of object `q`
fn run_body_async<'a>(ctx: Arc<Ctx>, oid: usize, body: Vec<Prim>, p: &'a mut Payload, caller: usize, counted: bool) -> BoxFuture<'a, usize> {
    ctx.op_start(oid, p);
    let mut guard = SpanGuard { ctx: ctx.clone(), oid, mon: Some(p.mon.clone()), finished: false, counted };
    async move {
        for prim in body.iter() {
            match prim {
                Prim::Touch => ctx.touch(oid, p),
                Prim::AwaitEv(e) => { EventFut { ctx: ctx.clone(), e: *e, sig: None }.await; }
                Prim::AwaitEvSig(e, e2) => { EventFut { ctx: ctx.clone(), e: *e, sig: Some(*e2) }.await; }
                Prim::CoopYield => { CoopYield(false).await; }
                Prim::WakePanic => { p.mon.panicked.store(true, SeqCst); ctx.panics_started.fetch_add(1, SeqCst); WakeThenPanic(oid).await; }
                Prim::AwaitEither(e, e2) => { EitherFut { ctx: ctx.clone(), e: *e, e2: *e2 }.await; }
                Prim::Gate(g) => { let gt = &ctx.gates[*g]; let mut o = gt.open.lock().unwrap(); while !*o { o = gt.cv.wait(o).unwrap(); } }
                Prim::Panic => { p.mon.panicked.store(true, SeqCst); ctx.panics_started.fetch_add(1, SeqCst); panic!("INTENDED panic in operation {}", oid); }
                Prim::Signal(e) => { exec_op(&ctx, &Op::Fire(*e), caller, true, &mut Local::default()); }
                Prim::Nested(op) => { exec_op(&ctx, op, caller, true, &mut Local::default()); }
            }
        }
        guard.finished = true;
        drop(guard);
        oid
    }.boxed()
}

struct ThreadWaker { flag: AtomicBool, th: rt::thread::Thread, task: usize }
impl ArcWake for ThreadWaker { fn wake_by_ref(a: &Arc<Self>) { desync::verif::log("api", "TWAKE", a.task, String::new()); a.flag.store(true, SeqCst); a.th.unpark(); } }

/// Minimal park-based executor; with `max_polls = Some(n)` the future is dropped after n polls that returned Pending
pub fn block_on<F: Future + Unpin>(f: F, max_polls: Option<usize>) -> Option<F::Output> { block_on_late(f, max_polls, 0) }
/// as `block_on`; when the poll bound is reached the future is kept alive for `late` more yields before it is dropped
pub fn block_on_late<F: Future + Unpin>(mut f: F, max_polls: Option<usize>, late: usize) -> Option<F::Output> {
    let tw = Arc::new(ThreadWaker { flag: AtomicBool::new(false), th: rt::thread::current(), task: my_task() });
    let w = waker(tw.clone());
    let mut cx = Context::from_waker(&w);
    let mut polls = 0;
    loop {
        if let Some(m) = max_polls { if polls >= m { for _ in 0..late { rt::thread::yield_now(); } desync::verif::log("sf", "DROPFUT", polls, String::new()); return None; } }
        desync::verif::log("sf", "POLL", polls, String::new());
        match Pin::new(&mut f).poll(&mut cx) {
            Poll::Ready(v) => return Some(v),
            Poll::Pending => {
                polls += 1;
                if let Some(m) = max_polls { if polls >= m { for _ in 0..late { rt::thread::yield_now(); } desync::verif::log("sf", "DROPFUT", polls, String::new()); return None; } }
                desync::verif::log("api", "PARK", 0, String::new());
                while !tw.flag.swap(false, SeqCst) { rt::thread::park(); }
                desync::verif::log("api", "UNPARKED", 0, String::new());
            }
        }
    }
}

/// Run-on-wake executor (the shape of `async_task::spawn(fut, |r| r.run())`): whoever calls the waker polls the future inline
/// on its own thread; a wake-up that arrives while a poll is in progress makes that poll loop once more.  The caller only
/// waits for the output.  A library that calls a waker while it holds one of its own locks deadlocks under such an executor.
struct InlineTask<F: Future> { fut: StdMutex<Option<F>>, state: AtomicUsize /* 0 idle, 1 polling, 2 polling + woken, 3 done */, out: StdMutex<Option<F::Output>>, th: rt::thread::Thread, done: AtomicBool }
impl<F: Future + Unpin + Send + 'static> InlineTask<F> where F::Output: Send {
    fn run(a: &Arc<Self>) {
        loop {
            match a.state.compare_exchange(0, 1, SeqCst, SeqCst) {
                Ok(_) => break,
                Err(1) => { if a.state.compare_exchange(1, 2, SeqCst, SeqCst).is_ok() { return; } }
                Err(_) => return,                // already marked woken, or done
            }
        }
        loop {
            let w = waker(a.clone());
            let mut cx = Context::from_waker(&w);
            let mut f = a.fut.lock().unwrap().take();
            let r = match f.as_mut() { Some(f) => Pin::new(f).poll(&mut cx), None => return };
            match r {
                Poll::Ready(v) => { drop(f); *a.out.lock().unwrap() = Some(v); a.state.store(3, SeqCst); a.done.store(true, SeqCst); a.th.unpark(); return; }
                Poll::Pending => {
                    *a.fut.lock().unwrap() = f;
                    if a.state.compare_exchange(1, 0, SeqCst, SeqCst).is_ok() { return; }
                    a.state.store(1, SeqCst);    // woken during the poll: poll again
                }
            }
        }
    }
}
impl<F: Future + Unpin + Send + 'static> ArcWake for InlineTask<F> where F::Output: Send { fn wake_by_ref(a: &Arc<Self>) { desync::verif::log("api", "INLINEWAKE", 0, String::new()); InlineTask::run(a); } }
pub fn block_on_inline<F: Future + Unpin + Send + 'static>(f: F) -> F::Output where F::Output: Send {
    let t = Arc::new(InlineTask { fut: StdMutex::new(Some(f)), state: AtomicUsize::new(0), out: StdMutex::new(None), th: rt::thread::current(), done: AtomicBool::new(false) });
    InlineTask::run(&t);
    while !t.done.load(SeqCst) { rt::thread::park(); }
    let v = t.out.lock().unwrap().take().unwrap();
    v
}

#[derive(Default)]
pub struct Local { resumer: Option<desync::scheduler::QueueResumer>, susp_op: Option<usize>, susp_fut: Option<(usize, BoxFuture<'static, Result<desync::scheduler::QueueResumer, futures::channel::oneshot::Canceled>>)>, out: Option<(usize, desync::PipeStream<u64>)> }

fn check_ok_token(ctx: &Ctx, oid: usize, what: &str, got: Option<usize>) {
    let obj = ctx.with_op(oid, |r| r.obj);
    if got.is_none() && ctx.mons[obj].panicked.load(SeqCst) { return; }       // the operation panicked: its future is cancelled
    let ok = got == Some(oid);
    ctx.with_op(oid, |r| r.result_ok = Some(ok));
    if !ok { ctx.error(what, format!("operation {} returned {:?} instead of its own result", oid, got)); }
}

pub fn exec_op(ctx: &Arc<Ctx>, op: &Op, caller: usize, nested: bool, local: &mut Local) {
    match op {
        Op::Fire(e) => {
            desync::verif::log("sf", "FIRE", *e, String::new());
            let ws = { let mut st = ctx.events[*e].st.lock().unwrap(); desync::verif::log("api", "FIRE", *e, String::new()); st.0 = true; std::mem::take(&mut st.1) };
            for w in ws { w.wake(); }
            return;
        }
        Op::ChainClose(_, _) => { return; }
        Op::WaitPending(n) => { while ctx.pending.load(SeqCst) > *n { rt::thread::yield_now(); } return; }
        Op::PanicDrop(q) => {
            // Desync::drop on a panicking thread takes the sync_no_panic path: it must still wait for whatever runs on the queue
            desync::verif::log("api", "DROPOBJ", *q, String::new());
            let _owned = ctx.objs[*q].lock().unwrap().take();
            if _owned.is_some() { ctx.panics_started.fetch_add(1, SeqCst); panic!("INTENDED panic of caller {} while it owns object {}", caller, q); }
            return;
        }
        Op::Open(g) => { let gt = &ctx.gates[*g]; *gt.open.lock().unwrap() = true; gt.cv.notify_all(); return; }
        Op::DropObj(q) => {
            desync::verif::log("api", "DROPOBJ", *q, String::new()); let o = ctx.objs[*q].lock().unwrap().take(); drop(o);
            // queue mode: let go of the queue handle WITHOUT synchronising with the queue (the scheduler-level API allows that); the payload
            // is leaked on purpose, so that an operation that is still asleep on the queue can use it when it is woken
            let qo = ctx.qobjs[*q].lock().unwrap().take();
            if let Some(qo) = qo { match Arc::try_unwrap(qo) { Ok(qv) => { let qv = std::mem::ManuallyDrop::new(qv); let qq = unsafe { std::ptr::read(&qv.queue) }; drop(qq); } Err(a) => { std::mem::forget(a) } } }
            return;
        }
        Op::Resume | Op::DropResumer if local.susp_fut.is_some() && local.resumer.is_none() => {
            // the suspend request was made earlier without awaiting it: get the resumer now, then go on as R / r
            let (oid, fut) = local.susp_fut.take().unwrap();
            match block_on(fut, None).unwrap() {
                Ok(res) => { let t = ctx.tick(); ctx.with_op(oid, |r| { r.start = t; r.runs = 1; }); local.resumer = Some(res); local.susp_op = Some(oid); }
                Err(_) => ctx.error("C13", format!("suspend {} was cancelled", oid)),
            }
            return exec_op(ctx, op, caller, nested, local);
        }
        Op::ResumeShared(q) => {
            loop {
                let got = ctx.shared_resumers.lock().unwrap().remove(q);
                if let Some((r, o)) = got { let t = ctx.tick(); ctx.with_op(o, |x| x.end = t); desync::verif::log("api", "RESUME", 0, String::new()); r.resume(); break; }
                rt::thread::yield_now();
            }
            return;
        }
        Op::Resume => { if let Some(r) = local.resumer.take() { let t = ctx.tick(); if let Some(o) = local.susp_op.take() { ctx.with_op(o, |x| x.end = t); } desync::verif::log("api", "RESUME", 0, String::new()); r.resume(); } return; }
        Op::DropResumer => { if let Some(r) = local.resumer.take() { let t = ctx.tick(); if let Some(o) = local.susp_op.take() { ctx.with_op(o, |x| x.end = t); } desync::verif::log("api", "RESUME", 1, String::new()); drop(r); } return; }
        Op::WaitEv(e) => { block_on(EventFut { ctx: ctx.clone(), e: *e, sig: None }, None); return; }
        Op::Yield(n) => { for _ in 0..*n { rt::thread::yield_now(); } return; }
        Op::SetMax(_) | Op::SetMaxQuiet(_) => {
            let (n, quiet) = match op { Op::SetMax(n) => (*n, false), Op::SetMaxQuiet(n) => (*n, true), _ => unreachable!() };
            let s = desync::scheduler::scheduler();
            let old = ctx.cur_max.load(SeqCst);
            // 'between phases': nothing queued or running, no pool thread busy (a busy thread still makes scheduling calls when its job
            // ends) and no other caller thread; with a pool of 0 the queued work has to be carried by this caller first
            let single = ctx.prog.callers.len() == 1;
            if quiet && single {
                if old == 0 { for q in 0..ctx.prog.nq { if let Some(o) = ctx.obj(q) { o.sync(|_| {}); } } }
                ctx.wait_all();
                while s.verif_busy_count() > 0 { rt::thread::yield_now(); }
            }
            // 'at once' with every other caller inert (it only opens gates or yields) and nothing but plain desync/sync issued by this caller
            // before, none of them with a nested operation in its body (a job that schedules work makes a spawn decision on ITS pool thread,
            // which can have read the old maximum: the stale-maximum race of DESIGN 9.6 - a false alarm of the first version of this rule):
            // every scheduling call that could have read the old maximum has returned and pool threads running plain closures make none -
            // despawn_threads_if_overloaded must still not return before the surplus threads are gone
            let inert_others = !quiet && ctx.prog.callers.iter().enumerate().all(|(c, ops)| if c == caller { ops.iter().all(|o| match o { Op::Desync(_, b) | Op::Sync(_, b) => !b.iter().any(|p| matches!(p, Prim::Nested(_))), Op::SetMax(_) | Op::Yield(_) | Op::Open(_) => true, _ => false }) } else { ops.iter().all(|o| matches!(o, Op::Open(_) | Op::Yield(_))) });
            let clean = (quiet && single) || inert_others;
            if n > ctx.max_ever.load(SeqCst) { ctx.max_ever.store(n, SeqCst); }
            desync::verif::log("api", "SETMAX", n, String::new());
            // on real threads the real entry point (its wake-up loop does not terminate under an unfair controlled scheduler, which is why
            // the controlled runtime uses the raw setter plus a bounded loop)
            #[cfg(desync_verif_real)]
            s.set_max_threads(n);
            #[cfg(not(desync_verif_real))]
            s.verif_set_max(n);
            if n < old {
                if !clean { ctx.racy_max_change.store(true, SeqCst); }
                s.despawn_threads_if_overloaded();
                let (owned, live) = (s.verif_thread_count(), desync::verif::thread::live_named_threads().0);
                if clean && (owned > n || live > n) { ctx.error("C17", format!("maximum lowered from {} to {} with no scheduling call in flight and despawn_threads_if_overloaded returned: {} pool threads owned, {} alive", old, n, owned, live)); }
            }
            // raising the maximum: set_max_threads starts threads for whatever is waiting in the schedule (its loop, bounded here)
            #[cfg(not(desync_verif_real))]
            if n > old { s.verif_kick(n + 1); }
            ctx.cur_max.store(n, SeqCst);
            return;
        }
        Op::PlainDrop(n) => {
            // a value without drop glue: nothing observes its destruction, but the last owner's drop must still wait for everything queued
            let d = Desync::new(0u64);
            let ran = Arc::new(AtomicUsize::new(0));
            for j in 0..*n {
                let r = ran.clone();
                // (under AddressSanitizer the jobs also write the value: a drop that did not wait is then a reported heap-use-after-free;
                //  without it they leave the value alone so that a wrong crate does not corrupt the harness itself)
                if j % 2 == 0 { d.desync(move |_v| { rt::thread::yield_now(); rt::thread::yield_now(); #[cfg(desync_verif_asan)] { *_v += 1; } r.fetch_add(1, SeqCst); }); }
                else { drop(d.future_desync(move |_v| async move { CoopYield(false).await; #[cfg(desync_verif_asan)] { *_v += 1; } r.fetch_add(1, SeqCst); }.boxed())); }
            }
            drop(d);
            let k = ran.load(SeqCst);
            if k != *n { ctx.error("C05", format!("a Desync<u64> was dropped with {} operations queued: the drop returned when only {} of them had run (its storage is freed under them)", n, k)); }
            return;
        }
        Op::Noise(c) => { let t = { let g = ctx.threads.lock().unwrap(); g.get(*c).cloned().flatten() }; if let Some(t) = t { t.unpark(); } return; }
        Op::AwaitUnwind => {
            // every started panic has been caught either by a caller's top level or at the top of a pool thread
            loop {
                let started = ctx.panics_started.load(SeqCst);       // read ONCE, and before the completions
                let done = ctx.panics_caught.load(SeqCst) + (desync::verif::thread::PANICKED_THREADS.load(SeqCst) - ctx.panic_base);
                if started > 0 && done >= started { break; }
                rt::thread::yield_now();
            }
            return;
        }
        Op::ExpectPanic(q) => { expect_panic(ctx, *q, caller); return; }
        Op::Produce(k, n) | Op::ProduceSlow(k, n) | Op::ProduceGated(k, n) => {
            let slow = matches!(op, Op::ProduceSlow(_, _));
            let gated = matches!(op, Op::ProduceGated(_, _));
            for _ in 0..*n {
                let sc = &ctx.streams[*k];
                let w = { let mut st = sc.st.lock().unwrap(); desync::verif::log("api", "PRODUCE", *k, String::new()); let x = sc.pushed.fetch_add(1, SeqCst); if slow { sc.slow.lock().unwrap().insert(x); } if gated { sc.slow.lock().unwrap().insert(x); sc.gated.lock().unwrap().insert(x); } st.0.push_back(x); st.2.take() };
                rt::thread::yield_now();
                if let Some(w) = w { w.wake(); }
            }
            return;
        }
        Op::CloseStream(k) => { let w = { let mut st = ctx.streams[*k].st.lock().unwrap(); desync::verif::log("api", "CLOSE", *k, String::new()); st.1 = true; st.2.take() }; if let Some(w) = w { w.wake(); } return; }
        Op::Consume(n) => {
            use futures::StreamExt; use futures::Stream;
            if let Some((k, s)) = local.out.as_mut() {
                let mut got = 0;
                loop {
                    if *n > 0 && got >= *n { break; }
                    // every other read is preceded by a probe with a throw-away waker (select!/now_or_never style): the stream must
                    // then wake the waker of the LATEST poll
                    let probe = if got % 2 == 0 && PROBE.load(SeqCst) { desync::verif::log("api", "PROBE", *k, String::new()); let w = futures::task::noop_waker(); let mut cx = Context::from_waker(&w); match Pin::new(&mut *s).poll_next(&mut cx) { Poll::Ready(v) => Some(v), Poll::Pending => None } } else { None };
                    match (match probe { Some(v) => v, None => { desync::verif::log("api", "CONSUME", *k, String::new()); block_on(s.next(), None).unwrap() } }) {
                        Some(v) => { desync::verif::log("api", "CONSUMED", v as usize, String::new()); { let sc = &ctx.streams[*k]; let ws = { let mut g = sc.gate_wakers.lock().unwrap(); sc.received.lock().unwrap().push(v); std::mem::take(&mut *g) }; for w in ws { w.wake(); } } got += 1; }
                        None => { desync::verif::log("api", "CONSUMEDEND", *k, String::new()); ctx.streams[*k].ended_seen.store(true, SeqCst); break; }
                    }
                }
            }
            return;
        }
        Op::DropStream => { desync::verif::log("api", "DROPSTREAM", 0, String::new()); local.out.take(); return; }
        Op::DropStreamInJob(q) => {
            // the stream is dropped by a job running on the object's own queue (PipeStream::drop must not release the pipe's strong
            // reference on that thread: Desync::drop would sync on the queue it is running on)
            if let Some((_, s)) = local.out.take() { if let Some(obj) = ctx.obj(*q) {
                ctx.add_pending(); let c2 = ctx.clone();
                obj.desync(move |_| { desync::verif::log("api", "DROPSTREAM", 1, String::new()); drop(s); c2.done_pending(); });
            } }
            return;
        }
        Op::AwaitRelease(k) => {
            // the pipe must let go of its input stream and closure: wait for it (a pipe that never does is reported as a hang)
            while !ctx.streams[*k].released.load(SeqCst) { rt::thread::yield_now(); }
            return;
        }
        Op::PipeIn(q, k) => {
            let obj = match ctx.obj(*q) { Some(o) => o, None => return };
            let (c2, k2, q2) = (ctx.clone(), *k, *q);
            // chained pipes: this closure may own the producer side of another stream, which ends when the closure is released
            struct Closer(Arc<Ctx>, usize);
            impl Drop for Closer { fn drop(&mut self) { let w = { let mut st = self.0.streams[self.1].st.lock().unwrap(); desync::verif::log("api", "CLOSE", self.1, String::new()); st.1 = true; st.2.take() }; if let Some(w) = w { w.wake(); } } }
            let closer = ctx.prog.callers.iter().flatten().find_map(|o| match o { Op::ChainClose(a, b) if *a == *k => Some(Closer(ctx.clone(), *b)), _ => None });
            desync::pipe_in(obj, HStream { core: ctx.streams[*k].clone() }, move |p: &mut Payload, item: u64| {
                let _owned = &closer;
                pipe_process_fut(c2.clone(), k2, q2, p, item, ())
            });
            return;
        }
        Op::Pipe(q, k, d) => {
            let obj = match ctx.obj(*q) { Some(o) => o, None => return };
            let (c2, k2, q2) = (ctx.clone(), *k, *q);
            let mut out = desync::pipe(obj, HStream { core: ctx.streams[*k].clone() }, move |p: &mut Payload, item: u64| {
                pipe_process_fut(c2.clone(), k2, q2, p, item, item * 10 + 7)
            });
            if *d > 0 { desync::verif::log("api", "SETDEPTH", *d, String::new()); out.set_backpressure_depth(*d); }
            local.out = Some((*k, out));
            return;
        }
        _ => {}
    }
    let q = op.obj().unwrap();
    let qo = { let g = ctx.qobjs[q].lock().unwrap(); g.clone() };     // never hold a std lock across a scheduling point
    if let Some(qo) = qo { exec_op_q(ctx, op, caller, nested, local, qo); return; }
    let obj = match ctx.obj(q) { Some(o) => o, None => return };
    let oid = ctx.new_op(op, caller, nested);
    let c2 = ctx.clone();
    let inv = ctx.tick();
    ctx.with_op(oid, |r| r.inv = inv);
    match op {
        Op::Desync(_, body) => {
            let body = body.clone();
            ctx.with_op(oid, |r| r.accepted = true);
            ctx.add_pending();
            struct Done(Arc<Ctx>);
            impl Drop for Done { fn drop(&mut self) { self.0.done_pending(); } }
            let done = Done(ctx.clone());
            obj.desync(move |p| { let _d = done; run_body(&c2, oid, &body, p, caller); });
        }
        Op::SyncOwned(_, body) => {
            // the program's handle is given up: `obj` (this caller's clone) is the last one while sync runs
            { let t = ctx.objs[q].lock().unwrap().take(); drop(t); }
            desync::verif::log("api", "DROPOBJ", q, String::new());
            ctx.with_op(oid, |r| r.accepted = true);
            let got = obj.sync(|p| { run_body(&c2, oid, body, p, caller); oid });
            check_ok_token(ctx, oid, "C04", Some(got));
        }
        Op::Sync(_, body) => {
            ctx.with_op(oid, |r| r.accepted = true);
            let got = obj.sync(|p| { run_body(&c2, oid, body, p, caller); oid });
            check_ok_token(ctx, oid, "C04", Some(got));
        }
        Op::TrySync(_, body) => {
            let me = my_task();
            ctx.in_try.lock().unwrap().insert(me, oid);
            let got = obj.try_sync(|p| { run_body(&c2, oid, body, p, caller); oid });
            ctx.in_try.lock().unwrap().remove(&me);
            match got {
                Ok(v) => { ctx.with_op(oid, |r| r.accepted = true); check_ok_token(ctx, oid, "C09", Some(v)); }
                Err(_) => { ctx.with_op(oid, |r| r.busy = true); }
            }
        }
        Op::FutDesync(_, body, mode) => {
            let body = body.clone();
            ctx.with_op(oid, |r| r.accepted = true);
            ctx.add_pending();
            // the job is owned by the queue: if it is dropped without ever starting, the guard in the closure releases the latch
            struct NotStarted(Option<Arc<Ctx>>);
            impl Drop for NotStarted { fn drop(&mut self) { if let Some(c) = self.0.take() { c.done_pending(); } } }
            let mut ns = NotStarted(Some(ctx.clone()));
            let fut = obj.future_desync(move |p| { ns.0.take(); run_body_async(c2, oid, body, p, caller, true) });
            finish_future(ctx, oid, fut, mode, "C07");
        }
        Op::After(_, e, mode) => {
            ctx.with_op(oid, |r| r.accepted = true);
            ctx.add_pending();
            struct Done(Arc<Ctx>);
            impl Drop for Done { fn drop(&mut self) { self.0.done_pending(); } }
            let done = Done(ctx.clone());
            let ev = EventFut { ctx: ctx.clone(), e: *e, sig: None };
            let fut = obj.after(ev, move |p, _| { let _d = done; run_body(&c2, oid, &vec![Prim::Touch], p, caller); oid });
            finish_future(ctx, oid, fut.boxed(), mode, "C07");
        }
        Op::FutSync(_, body, mode) => {
            let body = body.clone();
            ctx.with_op(oid, |r| r.accepted = true);
            let fut = obj.future_sync(move |p| run_body_async(c2, oid, body, p, caller, false));
            desync::verif::log("sf", "YNEW", oid, String::new());
            let fut = fut.boxed();
            let ret = ctx.tick();
            ctx.with_op(oid, |r| r.ret = ret);
            match mode {
                Mode::PollDrop(_) | Mode::PollDropLate(_, _) => { let (n, late) = match mode { Mode::PollDrop(n) => (n, 0), Mode::PollDropLate(n, l) => (n, *l), _ => unreachable!() }; let r = block_on_late(fut, Some(*n), late); desync::verif::log("sf", "YDONE", oid, match &r { Some(Ok(v)) => format!("ok {}", v), Some(Err(_)) => "err".to_string(), None => "dropped".to_string() }); if let Some(r) = r { check_ok_token(ctx, oid, "C08", r.ok()); } else { ctx.with_op(oid, |r| if r.end == 0 { r.cancelled = true }); } }
                _ => { let r = block_on(fut, None).unwrap(); desync::verif::log("sf", "YDONE", oid, match &r { Ok(v) => format!("ok {}", v), Err(_) => "err".to_string() }); check_ok_token(ctx, oid, "C08", r.ok()); }
            }
            drop(obj);
            return;
        }
        Op::Suspend(_) => {
            ctx.with_op(oid, |r| { r.accepted = true; });
            let fut = desync_suspend(&obj);
            let ret = ctx.tick();
            ctx.with_op(oid, |r| r.ret = ret);
            match block_on(fut, None).unwrap() {
                Ok(res) => { let t = ctx.tick(); ctx.with_op(oid, |r| { r.start = t; r.runs = 1; }); local.resumer = Some(res); }
                Err(_) => ctx.error("C13", format!("suspend {} was cancelled", oid)),
            }
            drop(obj);
            return;
        }
        _ => unreachable!()
    }
    let ret = ctx.tick();
    ctx.with_op(oid, |r| if r.ret == 0 { r.ret = ret });
    drop(obj);
}

/// The same operations through the scheduler-level API on a plain queue (programs that use `suspend`)
fn exec_op_q(ctx: &Arc<Ctx>, op: &Op, caller: usize, nested: bool, local: &mut Local, qo: Arc<QObj>) {
    use desync::scheduler as sch;
    let oid = ctx.new_op(op, caller, nested);
    let c2 = ctx.clone();
    let inv = ctx.tick();
    ctx.with_op(oid, |r| r.inv = inv);
    let d = PPtr(qo.data);
    match op {
        Op::Desync(_, body) => {
            let body = body.clone();
            ctx.with_op(oid, |r| r.accepted = true);
            ctx.add_pending();
            struct Done(Arc<Ctx>);
            impl Drop for Done { fn drop(&mut self) { self.0.done_pending(); } }
            let done = Done(ctx.clone());
            sch::desync(&qo.queue, move || { let _d = done; let d = d; run_body(&c2, oid, &body, unsafe { &mut *d.0 }, caller); });
        }
        Op::Sync(_, body) => {
            ctx.with_op(oid, |r| r.accepted = true);
            let got = sch::sync(&qo.queue, || { let d = d; run_body(&c2, oid, body, unsafe { &mut *d.0 }, caller); oid });
            check_ok_token(ctx, oid, "C04", Some(got));
        }
        Op::TrySync(_, body) => {
            let me = my_task();
            ctx.in_try.lock().unwrap().insert(me, oid);
            let r = sch::try_sync(&qo.queue, || { let d = d; run_body(&c2, oid, body, unsafe { &mut *d.0 }, caller); oid });
            ctx.in_try.lock().unwrap().remove(&me);
            match r {
                Ok(v) => { ctx.with_op(oid, |r| r.accepted = true); check_ok_token(ctx, oid, "C09", Some(v)); }
                Err(_) => { ctx.with_op(oid, |r| r.busy = true); }
            }
        }
        Op::FutDesync(_, body, mode) => {
            let body = body.clone();
            ctx.with_op(oid, |r| r.accepted = true);
            ctx.add_pending();
            struct NotStarted(Option<Arc<Ctx>>);
            impl Drop for NotStarted { fn drop(&mut self) { if let Some(c) = self.0.take() { c.done_pending(); } } }
            let mut ns = NotStarted(Some(ctx.clone()));
            let fut = sch::future_desync(&qo.queue, move || { ns.0.take(); let d = d; run_body_async(c2, oid, body, unsafe { &mut *d.0 }, caller, true) });
            finish_future(ctx, oid, fut, mode, "C07");
        }
        Op::Suspend(_) | Op::SuspendHand(_) => {
            ctx.with_op(oid, |r| { r.accepted = true; });
            let fut = sch::scheduler().suspend(&qo.queue).boxed();
            let ret = ctx.tick();
            ctx.with_op(oid, |r| r.ret = ret);
            match block_on(fut, None).unwrap() {
                Ok(res) => {
                    let t = ctx.tick(); ctx.with_op(oid, |r| { r.start = t; r.runs = 1; });
                    let q = op.obj().unwrap();
                    let shared = matches!(op, Op::SuspendHand(_));
                    if shared { ctx.shared_resumers.lock().unwrap().insert(q, (res, oid)); } else { local.resumer = Some(res); local.susp_op = Some(oid); }
                }
                Err(_) => ctx.error("C13", format!("suspend {} was cancelled", oid)),
            }
            return;
        }
        Op::SuspendLazy(_) => {
            ctx.with_op(oid, |r| { r.accepted = true; });
            let fut = sch::scheduler().suspend(&qo.queue).boxed();
            let ret = ctx.tick();
            ctx.with_op(oid, |r| r.ret = ret);
            local.susp_fut = Some((oid, fut));
            return;
        }
        _ => { ctx.error("C13", format!("operation {} is not available in queue mode", fmt_op(op))); }
    }
    let ret = ctx.tick();
    ctx.with_op(oid, |r| if r.ret == 0 { r.ret = ret });
}

/// `suspend` is only available on the scheduler level API; Desync does not expose its queue, so the harness uses a scheduler queue
/// for suspend programs (objects of suspend programs are plain queues wrapped by `QObj`).
fn desync_suspend(_obj: &Arc<Desync<Payload>>) -> BoxFuture<'static, Result<desync::scheduler::QueueResumer, futures::channel::oneshot::Canceled>> {
    unimplemented!("suspend programs run through the queue-level interpreter")
}

fn finish_future<F>(ctx: &Arc<Ctx>, oid: usize, fut: F, mode: &Mode, prop: &str)
where F: Future<Output = Result<usize, futures::channel::oneshot::Canceled>> + Unpin + MaybeSync + Send + 'static {
    let ret = ctx.tick();
    ctx.with_op(oid, |r| r.ret = ret);
    match mode {
        Mode::Detach => { drop(fut); }
        Mode::Await => {
            let r = block_on(fut, None).unwrap();
            let fin = ctx.with_op(oid, |r| r.end != 0);
            if !fin { ctx.error(prop, format!("future of operation {} resolved before the operation finished", oid)); }
            check_ok_token(ctx, oid, prop, r.ok());
        }
        Mode::SyncWait => {
            let r = fut.sync_wait();
            let fin = ctx.with_op(oid, |r| r.end != 0);
            if !fin { ctx.error(prop, format!("future of operation {} resolved before the operation finished", oid)); }
            check_ok_token(ctx, oid, prop, r.ok());
        }
        Mode::PollDrop(n) => {
            if let Some(r) = block_on(fut, Some(*n)) { check_ok_token(ctx, oid, prop, r.ok()); }
        }
        Mode::PollDropLate(n, late) => {
            if let Some(r) = block_on_late(fut, Some(*n), *late) { check_ok_token(ctx, oid, prop, r.ok()); }
        }
        Mode::Inline => {
            let r = block_on_inline(fut);
            let fin = ctx.with_op(oid, |r| r.end != 0);
            if !fin { ctx.error(prop, format!("future of operation {} resolved before the operation finished", oid)); }
            check_ok_token(ctx, oid, prop, r.ok());
        }
    }
}

/// `.sync()` exists on SchedulerFuture only; boxed futures (after) fall back to awaiting
pub trait MaybeSync: Sized { fn sync_wait(self) -> Result<usize, futures::channel::oneshot::Canceled>; }
impl MaybeSync for desync::scheduler::SchedulerFuture<usize> { fn sync_wait(self) -> Result<usize, futures::channel::oneshot::Canceled> { self.sync() } }
impl<'a> MaybeSync for BoxFuture<'a, Result<usize, futures::channel::oneshot::Canceled>> { fn sync_wait(self) -> Result<usize, futures::channel::oneshot::Canceled> { block_on(self, None).unwrap() } }

/// Processing of one item as a future: ordinary items are processed at once; a SLOW item yields co-operatively in the middle, holding
/// the object's exclusive access across the yield (occupancy stays 1; a cancelled item releases it through the guard)
fn pipe_process_fut<'a, R: Send + 'a>(ctx: Arc<Ctx>, k: usize, q: usize, p: &'a mut Payload, item: u64, r: R) -> BoxFuture<'a, R> {
    if !ctx.streams[k].slow.lock().unwrap().contains(&item) { pipe_process(&ctx, k, q, p, item); return futures::future::ready(r).boxed(); }
    struct Occ(Arc<ObjMon>);
    impl Drop for Occ { fn drop(&mut self) { self.0.occ.fetch_sub(1, SeqCst); } }
    async move {
        if p.mon.dead.load(SeqCst) || p.canary != 0xC0FFEE { ctx.error("C05", format!("pipe {} processed item {} on object {} after it was freed", k, item, q)); }
        let occ = p.mon.occ.fetch_add(1, SeqCst) + 1;
        let _g = Occ(p.mon.clone());
        if occ != 1 { ctx.error("C01", format!("pipe {} processed item {} on object {} while {} other operation(s) in progress", k, item, q, occ - 1)); }
        p.canary = 0xABCD00 + item;
        if ctx.streams[k].gated.lock().unwrap().contains(&item) { ConsumerSaw { ctx: ctx.clone(), k, item }.await; } else { CoopYield(false).await; }
        if p.canary != 0xABCD00 + item { ctx.error("C01", format!("pipe {} saw object {} modified while item {} was suspended", k, q, item)); }
        p.canary = 0xC0FFEE;
        ctx.streams[k].processed.lock().unwrap().push(item);
        r
    }.boxed()
}

/// The processing function of a pipe: runs inside the object's exclusive access (occupancy checked like any operation)
fn pipe_process(ctx: &Arc<Ctx>, k: usize, q: usize, p: &mut Payload, item: u64) {
    if p.mon.dead.load(SeqCst) || p.canary != 0xC0FFEE { ctx.error("C05", format!("pipe {} processed item {} on object {} after it was freed", k, item, q)); }
    let occ = p.mon.occ.fetch_add(1, SeqCst) + 1;
    if occ != 1 { ctx.error("C01", format!("pipe {} processed item {} on object {} while {} other operation(s) in progress", k, item, q, occ - 1)); }
    if ctx.touch_yield { p.canary = 0xABCD00 + item; rt::thread::yield_now(); if p.canary != 0xABCD00 + item { ctx.error("C01", format!("pipe {} saw object {} modified concurrently", k, q)); } p.canary = 0xC0FFEE; }
    ctx.streams[k].processed.lock().unwrap().push(item);
    p.mon.occ.fetch_sub(1, SeqCst);
}

/// End-of-run oracles for pipes: every item the input yielded was processed once, in order; outputs are one per input, in order
pub fn pipe_oracles(ctx: &Arc<Ctx>) {
    let mut kind: std::collections::HashMap<usize, (char, usize)> = Default::default();
    let mut dropped_obj: std::collections::HashSet<usize> = Default::default();
    let mut consumed_all: std::collections::HashSet<usize> = Default::default();
    let mut stream_dropped = false;
    for c in ctx.prog.callers.iter() { for o in c { match o {
        Op::PipeIn(q, k) => { kind.insert(*k, ('I', *q)); }
        Op::Pipe(q, k, _) => { kind.insert(*k, ('J', *q)); }
        Op::DropObj(q) | Op::PanicDrop(q) | Op::SyncOwned(q, _) => { dropped_obj.insert(*q); }
        Op::DropStream | Op::DropStreamInJob(_) => { stream_dropped = true; }
        Op::Consume(0) => { for (k, _) in kind.iter() { consumed_all.insert(*k); } }
        _ => {}
    } } }
    for (k, (kd, q)) in kind.iter() {
        let sc = &ctx.streams[*k];
        let pushed = sc.pushed.load(SeqCst);
        let processed = sc.processed.lock().unwrap().clone();
        let prop = if *kd == 'I' { "C11" } else { "C12" };
        for (i, x) in processed.iter().enumerate() { if *x != i as u64 { ctx.error(prop, format!("pipe {}: items processed out of order or twice: {:?}", k, processed)); break; } }
        let ended = sc.st.lock().unwrap().1;
        if ended && !dropped_obj.contains(q) && !stream_dropped && processed.len() as u64 != pushed { ctx.error(prop, format!("pipe {}: {} items were yielded by the input but {} processed: {:?}", k, pushed, processed.len(), processed)); }
        if *kd == 'J' {
            let received = sc.received.lock().unwrap().clone();
            for (i, v) in received.iter().enumerate() { if *v != (i as u64) * 10 + 7 { ctx.error("C12", format!("pipe {}: outputs lost, duplicated or reordered: {:?}", k, received)); break; } }
            if consumed_all.contains(k) && !stream_dropped {
                if !sc.ended_seen.load(SeqCst) { ctx.error("C12", format!("pipe {}: the output stream did not end", k)); }
                if received.len() as u64 != pushed { ctx.error("C12", format!("pipe {}: {} inputs but {} outputs: {:?}", k, pushed, received.len(), received)); }
            }
        }
        if !sc.released.load(SeqCst) && ctx.prog.callers.iter().flatten().any(|o| *o == Op::AwaitRelease(*k)) { ctx.error(if stream_dropped { "C16" } else { prop }, format!("pipe {} never released its input stream", k)); }
    }
}

/// After the unwinding has finished every scheduling attempt on a panicked object must panic (not run, not block)
fn expect_panic(ctx: &Arc<Ctx>, q: usize, _caller: usize) {
    use std::panic::{catch_unwind, AssertUnwindSafe};
    let obj = match ctx.obj(q) { Some(o) => o, None => return };
    if !ctx.mons[q].panicked.load(SeqCst) { ctx.error("C15", format!("object {} was expected to have panicked", q)); return; }
    let ran = Arc::new(AtomicBool::new(false));
    let attempts: Vec<(&str, Box<dyn FnOnce() + '_>)> = vec![
        ("desync", Box::new(|| { let r = ran.clone(); obj.desync(move |_| { r.store(true, SeqCst); }); })),
        ("sync", Box::new(|| { let r = ran.clone(); obj.sync(move |_| { r.store(true, SeqCst); }); })),
        ("try_sync", Box::new(|| { let r = ran.clone(); let _ = obj.try_sync(move |_| { r.store(true, SeqCst); }); })),
        ("future_desync", Box::new(|| { let r = ran.clone(); let f = obj.future_desync(move |_| { r.store(true, SeqCst); async {}.boxed() }); let _ = block_on(f, None); })),
    ];
    for (name, f) in attempts {
        let res = catch_unwind(AssertUnwindSafe(f));
        if res.is_ok() { ctx.error("C15", format!("{} on the panicked object {} returned normally instead of panicking [started {} caught {} threads {}]", name, q, ctx.panics_started.load(SeqCst), ctx.panics_caught.load(SeqCst), desync::verif::thread::PANICKED_THREADS.load(SeqCst) - ctx.panic_base)); }
        if ran.load(SeqCst) { ctx.error("C15", format!("{} on the panicked object {} ran its closure", name, q)); }
    }
}

pub struct Outcome { pub ctx: Arc<Ctx> }

/// Builds the context (call inside the controlled execution)
pub fn make_ctx(prog: &Program, fail_fast: bool, touch_yield: bool) -> Arc<Ctx> {
    let clock = Arc::new(AtomicU64::new(0));
    let mons: Vec<Arc<ObjMon>> = (0..prog.nq).map(|id| Arc::new(ObjMon { id, occ: AtomicI64::new(0), dead: AtomicBool::new(false), drops: AtomicUsize::new(0), free_tick: AtomicU64::new(0), panicked: AtomicBool::new(false) })).collect();
    let qmode = prog.callers.iter().flatten().any(|o| matches!(o, Op::Suspend(_) | Op::SuspendLazy(_) | Op::SuspendHand(_) | Op::ResumeShared(_)));
    let objs = mons.iter().map(|m| StdMutex::new(if qmode { None } else { Some(Arc::new(Desync::new(Payload { mon: m.clone(), clock: clock.clone(), canary: 0xC0FFEE }))) })).collect();
    let qobjs = mons.iter().map(|m| StdMutex::new(if qmode { Some(Arc::new(QObj { queue: desync::scheduler::queue(), data: Box::into_raw(Box::new(Payload { mon: m.clone(), clock: clock.clone(), canary: 0xC0FFEE })) })) } else { None })).collect();
    Arc::new(Ctx {
        prog: prog.clone(), objs, qobjs, mons,
        events: (0..prog.nev).map(|_| EventCell { st: StdMutex::new((false, vec![])) }).collect(),
        gates: (0..prog.ngates).map(|_| Gate { open: rt::sync::Mutex::new(false), cv: rt::sync::Condvar::new() }).collect(),
        streams: (0..prog.nstreams()).map(|_| Arc::new(StreamCore { st: StdMutex::new((Default::default(), false, None)), pushed: AtomicU64::new(0), released: AtomicBool::new(false), processed: StdMutex::new(vec![]), received: StdMutex::new(vec![]), ended_seen: AtomicBool::new(false), polls_after_gone: AtomicUsize::new(0), slow: StdMutex::new(Default::default()), gated: StdMutex::new(Default::default()), gate_wakers: StdMutex::new(vec![]) })).collect(),
        clock, ops: StdMutex::new(vec![]), errors: StdMutex::new(vec![]),
        pending: AtomicUsize::new(0), cur_max: AtomicUsize::new(prog.pool), max_ever: AtomicUsize::new(prog.pool), racy_max_change: AtomicBool::new(false), shared_resumers: StdMutex::new(Default::default()), latch: rt::sync::Mutex::new(()), latch_cv: rt::sync::Condvar::new(), fail_fast, touch_yield,
        threads: StdMutex::new(vec![None; prog.callers.len()]), in_try: StdMutex::new(Default::default()),
        panics_started: AtomicUsize::new(0), panics_caught: AtomicUsize::new(0), panic_base: desync::verif::thread::PANICKED_THREADS.load(SeqCst),
    })
}

/// A top-level operation of a caller: an intended panic that unwinds into the caller (sync contexts, polling task) ends here;
/// any other panic on a healthy object is a failure of the run
pub fn exec_top(ctx: &Arc<Ctx>, op: &Op, caller: usize, local: &mut Local) {
    use std::panic::{catch_unwind, AssertUnwindSafe};
    { let mut t = ctx.threads.lock().unwrap(); if t[caller].is_none() { t[caller] = Some(rt::thread::current()); } }
    let cur_stream = local.out.as_ref().map(|(k, _)| *k);      // the output stream this caller holds before the operation
    let r = catch_unwind(AssertUnwindSafe(|| exec_op(ctx, op, caller, false, local)));
    if let Err(e) = r {
        let msg = if let Some(s) = e.downcast_ref::<String>() { s.clone() } else if let Some(s) = e.downcast_ref::<&str>() { s.to_string() } else { String::new() };
        if msg.starts_with("INTENDED") { ctx.panics_caught.fetch_add(1, SeqCst); }
        else if msg.starts_with("MONITOR") { std::panic::resume_unwind(e); }
        else {
            // (dropping or reading the output stream of a pipe is an attempt on the pipe's object)
            let pipe_obj = || ctx.prog.callers.iter().flatten().find_map(|o| match o { Op::Pipe(q, k, _) if Some(*k) == cur_stream => Some(*q), _ => None });
            let obj = match op { Op::DropStream | Op::Consume(_) => pipe_obj(), _ => op.obj() };
            let on_panicked = obj.map(|q| ctx.mons[q].panicked.load(SeqCst)).unwrap_or(false);
            if !on_panicked { ctx.error("C15", format!("operation {} of caller {} panicked although its object never panicked: {}", fmt_op(op), caller, msg)); }
        }
    }
}

/// Runs the whole program: callers are threads; then waits for quiescence, drops the objects and checks the end-of-run oracles
pub fn run_program(ctx: &Arc<Ctx>) {
    let prog = ctx.prog.clone();
    desync::scheduler::scheduler().verif_set_max(prog.pool);
    let mut hs = vec![];
    for (c, ops) in prog.callers.iter().enumerate().skip(1) {
        let (ctx2, ops2) = (ctx.clone(), ops.clone());
        hs.push(desync::verif::thread::spawn(move || { desync::verif::log("api", "CALLER", c, String::new()); let mut l = Local::default(); for o in &ops2 { exec_top(&ctx2, o, c, &mut l); } if l.out.is_some() { exec_top(&ctx2, &Op::DropStream, c, &mut l); } }));
    }
    desync::verif::log("api", "CALLER", 0, String::new());
    if let Some(ops) = prog.callers.get(0) { let mut l = Local::default(); for o in ops { exec_top(ctx, o, 0, &mut l); } if l.out.is_some() { exec_top(ctx, &Op::DropStream, 0, &mut l); } }
    for h in hs { h.join().unwrap(); }
    desync::verif::log("api", "END", 0, String::new());
    // Quiescence: with a pool, wait without touching the queues; without one, callers must carry the work
    if ctx.cur_max.load(SeqCst) >= 1 { ctx.wait_all(); } else {
        for q in 0..prog.nq { if ctx.mons[q].panicked.load(SeqCst) { continue; } if let Some(o) = ctx.obj(q) { o.sync(|_| {}); } let qo = { let g = ctx.qobjs[q].lock().unwrap(); g.clone() }; if let Some(o) = qo { desync::scheduler::sync(&o.queue, || {}); } }
        ctx.wait_all();
    }
    desync::verif::log("api", "QUIET", 0, String::new());
    let n_at_quiet = ctx.tick();
    // Drop the objects (Desync::drop = sync(free))
    for q in 0..prog.nq { let o = ctx.qobjs[q].lock().unwrap().take(); drop(o); }
    for q in 0..prog.nq {
        let o = ctx.objs[q].lock().unwrap().take();
        if ctx.mons[q].panicked.load(SeqCst) {
            // dropping a panicked object is itself a scheduling attempt: it must fail loudly, and the value is never freed
            let r = std::panic::catch_unwind(std::panic::AssertUnwindSafe(move || drop(o)));
            if r.is_ok() && ctx.mons[q].drops.load(SeqCst) > 0 { ctx.error("C15", format!("dropping the panicked object {} ran its free operation", q)); }
        } else { drop(o); }
    }
    // a pipe releases its strong reference asynchronously (on the disposal object): wait for the value to be freed; never = a hang
    for c in prog.callers.iter() { for o in c { if let Op::Pipe(q, _, _) = o { while ctx.mons[*q].drops.load(SeqCst) == 0 && !ctx.mons[*q].panicked.load(SeqCst) { rt::thread::yield_now(); } } } }      // (the value of a panicked object is leaked on purpose)
    end_oracles(ctx, n_at_quiet);
    pipe_oracles(ctx);
    // Teardown of the pool
    let s = desync::scheduler::scheduler();
    let n = s.verif_thread_count();
    // (a spawn decision that read the old maximum may add a thread after a concurrent lowering: the property quantifies over maximum
    // changes between phases only, so the counts are checked unless the program lowered the maximum while work was in flight)
    let racy = ctx.racy_max_change.load(SeqCst);
    if !racy && n > ctx.cur_max.load(SeqCst) { ctx.error("C17", format!("{} pool threads with a maximum of {}", n, ctx.cur_max.load(SeqCst))); }
    // every pool thread ever started is counted by the runtime's spawn/exit hooks: more alive at once than the largest maximum in force
    // means a thread was created beyond the maximum (even if the scheduler never listed it)
    let (_, peak) = desync::verif::thread::live_named_threads();
    if !racy && peak > ctx.max_ever.load(SeqCst) { ctx.error("C17", format!("{} pool threads were alive at the same time although the maximum never exceeded {}", peak, ctx.max_ever.load(SeqCst))); }
    s.verif_set_max(0);
    // a scheduling call that read the old maximum just before may still add a thread after the first sweep (the pipes' disposal
    // object schedules late): sweep until the pool stays empty
    let mut quiet = 0;
    while quiet < 2 {
        s.despawn_threads_if_overloaded();
        if s.verif_thread_count() == 0 { quiet += 1; } else { quiet = 0; }
        rt::thread::yield_now();
    }
}

pub fn end_oracles(ctx: &Arc<Ctx>, _quiet: u64) {
    let ops = ctx.ops.lock().unwrap().clone();
    for (i, r) in ops.iter().enumerate() {
        if r.kind == 'U' || ctx.mons[r.obj].panicked.load(SeqCst) { continue; }
        if r.accepted && !r.cancelled && r.runs != 1 && !(r.kind == 'Y') { ctx.error("C03", format!("operation {} ({}) ran {} times", i, r.text, r.runs)); }
        if (r.kind == 'F' || r.kind == 'A') && r.cancelled && r.runs > 0 { ctx.error("C07", format!("operation {} ({}) was abandoned after it had started: its job was dropped instead of being completed", i, r.text)); }
        if r.busy && r.runs != 0 { ctx.error("C09", format!("try_sync {} returned Busy but ran its closure", i)); }
        if r.kind == 'S' && !(r.inv < r.start && r.start < r.end && r.end < r.ret) { ctx.error("C04", format!("sync {} did not run strictly inside its call: {:?}", i, r)); }
        if r.kind == 'T' && r.accepted && !(r.inv < r.start && r.end < r.ret) { ctx.error("C09", format!("try_sync {} did not run strictly inside its call", i)); }
    }
    // C02: real-time order of calls is execution order (same object)
    for (i, a) in ops.iter().enumerate() {
        if !a.accepted || a.ret == 0 || a.runs == 0 || ctx.mons[a.obj].panicked.load(SeqCst) { continue; }
        for (j, b) in ops.iter().enumerate() {
            if i == j || a.obj != b.obj || !b.accepted || b.runs == 0 { continue; }
            if a.ret < b.inv && !(a.end != 0 && a.end < b.start) {
                ctx.error("C02", format!("operation {} ({}) returned before operation {} ({}) was called, but did not finish before it started: {:?} {:?}", i, a.text, j, b.text, a, b));
            }
        }
    }
    // C13: while a queue is suspended nothing scheduled after the suspend request starts; everything scheduled before has finished
    for (i, u) in ops.iter().enumerate() {
        if u.kind != 'U' || u.start == 0 { continue; }
        for (j, b) in ops.iter().enumerate() {
            if i == j || b.obj != u.obj || b.runs == 0 || b.kind == 'U' { continue; }
            if b.ret != 0 && b.ret < u.inv && !(b.end != 0 && b.end < u.start) { ctx.error("C13", format!("suspend {} resolved at {} before the earlier operation {} finished: {:?}", i, u.start, j, b)); }
            if b.inv > u.ret && u.end != 0 && b.start < u.end { ctx.error("C13", format!("operation {} scheduled after suspend {} started at {} before the resume at {}: {:?}", j, i, b.start, u.end, b)); }
            if b.inv > u.ret && u.end == 0 { ctx.error("C13", format!("operation {} scheduled after suspend {} ran although the queue was never resumed", j, i)); }
        }
    }
    // C05: every object freed exactly once, after every operation on it
    let qmode_now = ctx.prog.callers.iter().flatten().any(|o| matches!(o, Op::Suspend(_) | Op::SuspendLazy(_) | Op::SuspendHand(_) | Op::ResumeShared(_)));
    let let_go: std::collections::HashSet<usize> = if qmode_now { ctx.prog.callers.iter().flatten().filter_map(|o| if let Op::DropObj(q) = o { Some(*q) } else { None }).collect() } else { Default::default() };
    for m in ctx.mons.iter() {
        if m.panicked.load(SeqCst) { continue; }
        if let_go.contains(&m.id) { continue; }     // queue mode X<q>: the queue handle was let go without a sync and the payload leaked on purpose
        let d = m.drops.load(SeqCst);
        if d != 1 { ctx.error("C05", format!("object {} was freed {} times", m.id, d)); }
        let ft = m.free_tick.load(SeqCst);
        for (i, r) in ops.iter().enumerate() { if r.obj == m.id && r.runs > 0 && (r.end == 0 || r.end > ft) && !(r.kind == 'U') { ctx.error("C05", format!("object {} freed at {} before operation {} finished: {:?}", m.id, ft, i, r)); } }
    }
}
