mod prog;
mod interp;
#[cfg(not(desync_verif_real))]
mod sched;

use prog::*;
#[cfg(not(desync_verif_real))]
use sched::*;
#[cfg(desync_verif_real)]
pub enum Kind { Rnd, Sticky(u64), Guided(Vec<usize>), Withhold(usize), Inject { base: Vec<usize>, k: usize, task: usize }, Freeze { base: Vec<usize>, k: usize, dur: usize } }
use std::io::Write;
use std::sync::{Arc, Mutex};

#[derive(Debug, Clone)]
pub struct ExecResult { pub status: String, pub detail: String, pub schedule: Vec<usize>, pub steps: usize, pub nevents: usize, pub ops: usize, pub errors: Vec<String> }

/// One controlled execution of one program under one schedule
#[cfg(not(desync_verif_real))]
pub fn execute(prog: &Program, kind: Kind, seed: u64, fail_fast: bool, touch_yield: bool, logfile: Option<&str>, max_steps: usize) -> ExecResult {
    let s = Sched::new(kind, seed);
    let trace = s.trace.clone();
    let mut cfg = shuttle::Config::default();
    cfg.max_steps = shuttle::MaxSteps::FailAfter(max_steps);
    cfg.failure_persistence = shuttle::FailurePersistence::None;
    let prog2 = prog.clone();
    let slot: Arc<Mutex<Option<Arc<interp::Ctx>>>> = Arc::new(Mutex::new(None));
    let slot2 = slot.clone();
    desync::verif::set_logging(logfile.is_some());
    let r = std::panic::catch_unwind(std::panic::AssertUnwindSafe(|| {
        shuttle::Runner::new(s, cfg).run(move || {
            desync::verif::new_execution();
            let ctx = interp::make_ctx(&prog2, fail_fast, touch_yield);
            *slot2.lock().unwrap() = Some(ctx.clone());
            interp::run_program(&ctx);
        });
    }));
    let ctx = slot.lock().unwrap().take();
    let errors: Vec<String> = ctx.as_ref().map(|c| c.errors.lock().map(|e| e.clone()).unwrap_or_default()).unwrap_or_default();
    let nops = ctx.as_ref().map(|c| c.ops.lock().map(|o| o.len()).unwrap_or(0)).unwrap_or(0);
    let (status, detail) = match r {
        Ok(()) => if errors.is_empty() { ("ok".to_string(), String::new()) } else { ("monitor".to_string(), errors.join(" || ")) },
        Err(e) => {
            let msg = if let Some(s) = e.downcast_ref::<String>() { s.clone() } else if let Some(s) = e.downcast_ref::<&str>() { s.to_string() } else { "panic".to_string() };
            let first = msg.lines().next().unwrap_or("").to_string();
            if !errors.is_empty() { ("monitor".to_string(), errors.join(" || ")) }
            else if msg.contains("deadlock") { ("deadlock".to_string(), first) }
            else if msg.contains("exceeded max_steps") || msg.contains("max_steps") { ("steplimit".to_string(), first) }
            else { ("panic".to_string(), first) }
        }
    };
    let events = desync::verif::take_log();
    let schedule = trace.lock().unwrap().clone();
    if let Some(path) = logfile {
        let mut f = std::io::BufWriter::new(std::fs::File::create(path).unwrap());
        writeln!(f, "# prog {}", prog.text()).unwrap();
        writeln!(f, "# status {} {}", status, detail).unwrap();
        writeln!(f, "# schedule {}", schedule.iter().map(|x| x.to_string()).collect::<Vec<_>>().join(",")).unwrap();
        for e in events.iter() { writeln!(f, "{}\t{}\t{}\t{}\t{}", e.task, e.kind, e.class, e.id, e.snap).unwrap(); }
    }
    ExecResult { status, detail, steps: schedule.len(), schedule, nevents: events.len(), ops: nops, errors }
}


/// One execution of one program on REAL threads (no schedule control; used for the panic scenarios, which the controlled
/// runtime cannot host because it treats an unwinding task as a failed test). A watchdog turns a hang into a report and
/// ends the process, so the caller runs one execution per process.
#[cfg(desync_verif_real)]
pub fn execute(prog: &Program, _kind: Kind, seed: u64, _fail_fast: bool, touch_yield: bool, logfile: Option<&str>, _max_steps: usize) -> ExecResult {
    desync::verif::set_logging(logfile.is_some());
    desync::verif::new_execution();
    let ctx = interp::make_ctx(prog, false, touch_yield);
    let text = prog.text();
    let ctx2 = ctx.clone();
    let lf2 = logfile.map(|s| s.to_string());
    std::thread::spawn(move || {
        std::thread::sleep(std::time::Duration::from_millis(8000));
        if let Some(path) = lf2 {
            if let Ok(f) = std::fs::File::create(&path) { let mut f = std::io::BufWriter::new(f); let _ = writeln!(f, "# watchdog");
                for e in desync::verif::take_log().iter() { let _ = writeln!(f, "{}\t{}\t{}\t{}\t{}", e.task, e.kind, e.class, e.id, e.snap); } }
        }
        let errs = ctx2.errors.lock().map(|e| e.clone()).unwrap_or_default();
        let detail = if errs.is_empty() { "no thread made progress for 8 s (blocked silently)".to_string() } else { errs[0].clone() };
        println!("RES\t0\t0\t{}\t{}\t0\t0\t{}\t{}", seed, if errs.is_empty() { "deadlock" } else { "monitor" }, text, detail);
        println!("DONE\t1\t1");
        std::process::exit(3);
    });
    let r = std::panic::catch_unwind(std::panic::AssertUnwindSafe(|| interp::run_program(&ctx)));
    let errors: Vec<String> = ctx.errors.lock().map(|e| e.clone()).unwrap_or_default();
    let nops = ctx.ops.lock().map(|o| o.len()).unwrap_or(0);
    let (status, detail) = match r {
        Ok(()) => if errors.is_empty() { ("ok".to_string(), String::new()) } else { ("monitor".to_string(), errors.join(" || ")) },
        Err(e) => {
            let msg = if let Some(s) = e.downcast_ref::<String>() { s.clone() } else if let Some(s) = e.downcast_ref::<&str>() { s.to_string() } else { "panic".to_string() };
            if !errors.is_empty() { ("monitor".to_string(), errors.join(" || ")) } else { ("panic".to_string(), msg.lines().next().unwrap_or("").to_string()) }
        }
    };
    let events = desync::verif::take_log();
    if let Some(path) = logfile {
        let mut f = std::io::BufWriter::new(std::fs::File::create(path).unwrap());
        writeln!(f, "# prog {}", prog.text()).unwrap();
        writeln!(f, "# status {} {}", status, detail).unwrap();
        for e in events.iter() { writeln!(f, "{}\t{}\t{}\t{}\t{}", e.task, e.kind, e.class, e.id, e.snap).unwrap(); }
    }
    ExecResult { status, detail, steps: 0, schedule: vec![], nevents: events.len(), ops: nops, errors }
}

fn arg<'a>(args: &'a [String], name: &str) -> Option<&'a str> {
    args.iter().position(|a| a == name).and_then(|i| args.get(i + 1)).map(|s| s.as_str())
}
fn flag(args: &[String], name: &str) -> bool { args.iter().any(|a| a == name) }

fn kind_of(name: &str, i: u64) -> Kind {
    match name { "rnd" => Kind::Rnd, "sticky" => Kind::Sticky(70), "mix" => if i % 2 == 0 { Kind::Rnd } else { Kind::Sticky(50 + (i % 5) * 10) }, _ => Kind::Rnd }
}

fn main() {
    let args: Vec<String> = std::env::args().collect();
    let cmd = args.get(1).map(|s| s.as_str()).unwrap_or("");
    // panics are part of the scenarios: silent by default; VERIF_PANIC_TRACE=1 prints message and location (to find a double panic)
    if std::env::var("VERIF_PANIC_TRACE").is_ok() { std::panic::set_hook(Box::new(|i| { eprintln!("PANIC[{:?}] {}", std::thread::current().name(), i); })); } else { std::panic::set_hook(Box::new(|_| {})); }
    let seed: u64 = arg(&args, "--seed").and_then(|s| s.parse().ok()).unwrap_or(0);
    let count: usize = arg(&args, "--count").and_then(|s| s.parse().ok()).unwrap_or(10);
    let scheds: u64 = arg(&args, "--scheds").and_then(|s| s.parse().ok()).unwrap_or(10);
    let max_steps: usize = arg(&args, "--max-steps").and_then(|s| s.parse().ok()).unwrap_or(200_000);
    let skind = arg(&args, "--sched").unwrap_or("mix").to_string();
    let logdir = arg(&args, "--logdir").map(|s| s.to_string());
    let fail_fast = !flag(&args, "--no-failfast");
    let touch_yield = !flag(&args, "--no-touch-yield");
    let stop_first = flag(&args, "--stop-first");
    if flag(&args, "--no-probe") { interp::PROBE.store(false, std::sync::atomic::Ordering::SeqCst); }
    match cmd {
        "gen" => {
            let pname = arg(&args, "--profile").unwrap_or("core");
            let mut r = Rng::new(seed);
            if pname == "panic" { for _ in 0..count { println!("{}", generate_panic(&mut r).text()); } }
            else if pname == "pipein" { for _ in 0..count { println!("{}", generate_pipein(&mut r).text()); } }
            else if pname == "pipe" { for _ in 0..count { println!("{}", generate_pipe(&mut r, false).text()); } }
            else if pname == "pipedrop" { for _ in 0..count { println!("{}", generate_pipe(&mut r, true).text()); } }
            else if pname == "poolchg" { for _ in 0..count { println!("{}", generate_poolchg(&mut r).text()); } }
            else { let p = profile(pname).expect("profile"); for _ in 0..count { println!("{}", generate(&p, &mut r).text()); } }
        }
        // run: programs from a profile (or from --progs file, one per line) x schedules
        "run" => {
            let progs: Vec<Program> = if let Some(f) = arg(&args, "--progs") {
                std::fs::read_to_string(f).unwrap().lines().filter(|l| !l.trim().is_empty() && !l.starts_with('#')).map(|l| Program::parse(l).expect("parse")).collect()
            } else if let Some(t) = arg(&args, "--prog") { vec![Program::parse(t).expect("parse")] } else {
                let pname = arg(&args, "--profile").unwrap_or("core");
                let mut r = Rng::new(seed);
                if pname == "panic" { (0..count).map(|_| generate_panic(&mut r)).collect::<Vec<_>>() }
                else if pname == "pipein" { (0..count).map(|_| generate_pipein(&mut r)).collect::<Vec<_>>() }
                else if pname == "pipe" { (0..count).map(|_| generate_pipe(&mut r, false)).collect::<Vec<_>>() }
                else if pname == "pipedrop" { (0..count).map(|_| generate_pipe(&mut r, true)).collect::<Vec<_>>() }
                else if pname == "poolchg" { (0..count).map(|_| generate_poolchg(&mut r)).collect::<Vec<_>>() } else {
                let p = profile(pname).expect("profile");
                let min_pool: usize = arg(&args, "--min-pool").and_then(|s| s.parse().ok()).unwrap_or(0);
                let max_pool: usize = arg(&args, "--max-pool").and_then(|s| s.parse().ok()).unwrap_or(usize::MAX);
                (0..count).map(|_| { let mut g = generate(&p, &mut r); g.pool = g.pool.max(min_pool).min(max_pool); g }).collect() }
            };
            if let Some(d) = &logdir { std::fs::create_dir_all(d).unwrap(); }
            let out = std::io::stdout();
            let mut nfail = 0;
            // --resume pi:si : skip everything before that execution (the check continues after an execution that killed the process)
            let resume: (usize, u64) = arg(&args, "--resume").and_then(|s| { let mut it = s.split(':'); Some((it.next()?.parse().ok()?, it.next()?.parse().ok()?)) }).unwrap_or((0, 0));
            'outer: for (pi, p) in progs.iter().enumerate() {
                for si in 0..scheds {
                    if (pi, si) < resume { continue; }
                    let sseed = seed.wrapping_mul(1_000_003).wrapping_add((pi as u64) * 1009 + si);
                    { let mut o = out.lock(); writeln!(o, "BEGIN\t{}\t{}\t{}\t{}", pi, si, sseed, p.text()).unwrap(); o.flush().unwrap(); }
                    let lf = logdir.as_ref().map(|d| format!("{}/p{}_s{}.log", d, pi, si));
                    let r = execute(p, kind_of(&skind, si), sseed, fail_fast, touch_yield, lf.as_deref(), max_steps);
                    let mut o = out.lock();
                    writeln!(o, "RES\t{}\t{}\t{}\t{}\t{}\t{}\t{}\t{}", pi, si, sseed, r.status, r.steps, r.ops, p.text(), r.detail).unwrap();
                    if r.status != "ok" {
                        nfail += 1;
                        writeln!(o, "SCHED\t{}\t{}\t{}", pi, si, r.schedule.iter().map(|x| x.to_string()).collect::<Vec<_>>().join(",")).unwrap();
                        if stop_first { break 'outer; }
                    }
                }
            }
            println!("DONE\t{}\t{}", progs.len(), nfail);
        }
        // sweep: the caller `--firer c` (usually the one that fires the external event) is withheld in a base run, then injected
        // at EVERY scheduling point of that run in turn: an exhaustive sweep of the position of its action
        "sweep" => {
            let progs: Vec<Program> = if let Some(f) = arg(&args, "--progs") {
                std::fs::read_to_string(f).unwrap().lines().filter(|l| !l.trim().is_empty() && !l.starts_with('#')).map(|l| Program::parse(l).expect("parse")).collect()
            } else { vec![Program::parse(arg(&args, "--prog").expect("--prog")).expect("parse")] };
            let mut nfail = 0; let mut total = 0;
            for (pi, p) in progs.iter().enumerate() {
                let firer = arg(&args, "--firer").and_then(|s| s.parse().ok()).unwrap_or(p.callers.len() - 1);
                for b in 0..scheds {
                    let base = execute(p, Kind::Withhold(firer), seed + b, fail_fast, touch_yield, None, max_steps);
                    println!("RES\t{}\t{}\t{}\t{}\t{}\t{}\t{}\t{}", pi, b * 100000, seed + b, base.status, base.steps, base.ops, p.text(), base.detail);
                    total += 1;
                    if base.status != "ok" { nfail += 1; println!("SCHED\t{}\t{}\t{}", pi, b * 100000, base.schedule.iter().map(|x| x.to_string()).collect::<Vec<_>>().join(",")); continue; }
                    for k in 0..=base.schedule.len() {
                        let r = execute(p, Kind::Inject { base: base.schedule.clone(), k, task: firer }, seed + b, fail_fast, touch_yield, None, max_steps);
                        total += 1;
                        println!("RES\t{}\t{}\t{}\t{}\t{}\t{}\t{}\t{}", pi, b * 100000 + k as u64 + 1, seed + b, r.status, r.steps, r.ops, p.text(), r.detail);
                        if r.status != "ok" { nfail += 1; println!("SCHED\t{}\t{}\t{}", pi, b * 100000 + k as u64 + 1, r.schedule.iter().map(|x| x.to_string()).collect::<Vec<_>>().join(",")); }
                    }
                }
            }
            println!("DONE\t{}\t{}", total, nfail);
        }
        // freeze: for every scheduling decision k of a base run, the task that ran there is held back for a while (the others run):
        // an exhaustive sweep of single long preemptions - finds windows that sit between two steps of ONE thread
        "freeze" => {
            let progs: Vec<Program> = if let Some(f) = arg(&args, "--progs") {
                std::fs::read_to_string(f).unwrap().lines().filter(|l| !l.trim().is_empty() && !l.starts_with('#')).map(|l| Program::parse(l).expect("parse")).collect()
            } else { vec![Program::parse(arg(&args, "--prog").expect("--prog")).expect("parse")] };
            let dur: usize = arg(&args, "--dur").and_then(|s| s.parse().ok()).unwrap_or(150);
            let mut nfail = 0; let mut total = 0;
            for (pi, p) in progs.iter().enumerate() {
                for b in 0..scheds {
                    let base = execute(p, Kind::Sticky(60), seed + b, fail_fast, touch_yield, None, max_steps);
                    println!("RES\t{}\t{}\t{}\t{}\t{}\t{}\t{}\t{}", pi, b * 100000, seed + b, base.status, base.steps, base.ops, p.text(), base.detail);
                    total += 1;
                    if base.status != "ok" { nfail += 1; println!("SCHED\t{}\t{}\t{}", pi, b * 100000, base.schedule.iter().map(|x| x.to_string()).collect::<Vec<_>>().join(",")); continue; }
                    for k in 0..base.schedule.len() {
                        let r = execute(p, Kind::Freeze { base: base.schedule.clone(), k, dur }, seed + b, fail_fast, touch_yield, None, max_steps);
                        total += 1;
                        println!("RES\t{}\t{}\t{}\t{}\t{}\t{}\t{}\t{}", pi, b * 100000 + k as u64 + 1, seed + b, r.status, r.steps, r.ops, p.text(), r.detail);
                        if r.status != "ok" { nfail += 1; println!("SCHED\t{}\t{}\t{}", pi, b * 100000 + k as u64 + 1, r.schedule.iter().map(|x| x.to_string()).collect::<Vec<_>>().join(",")); }
                    }
                }
            }
            println!("DONE\t{}\t{}", total, nfail);
        }
        // replay: one program under a given schedule (guided)
        "replay" => {
            let p = Program::parse(arg(&args, "--prog").expect("--prog")).expect("parse");
            let list: Vec<usize> = arg(&args, "--schedule").unwrap_or("").split(',').filter(|s| !s.is_empty()).map(|s| s.parse().unwrap()).collect();
            let lf = arg(&args, "--log");
            let r = execute(&p, Kind::Guided(list), seed, fail_fast, touch_yield, lf, max_steps);
            println!("RES\t0\t0\t{}\t{}\t{}\t{}\t{}\t{}", seed, r.status, r.steps, r.ops, p.text(), r.detail);
            for e in r.errors.iter() { println!("ERR\t{}", e); }
        }
        _ => { eprintln!("usage: runner gen|run|replay ..."); std::process::exit(2); }
    }
}
