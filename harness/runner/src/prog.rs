//! Program language of the harness: data that is interpreted against the real desync API.
//!
//! Text form (read by the Coq/OCaml side too):
//!   `nq=2 pool=1 ev=1 gates=0 | D0[t] S1[t(D0[t])] | T0[t] E0`
//! Ops:   D<q>[body] desync        S<q>[body] sync          T<q>[body] try_sync
//!        F<q>[body]<mode> future_desync   mode: d detach | a await | s .sync() | k<n> poll n times then drop | k<n>l<m> poll n times, yield m times, then drop
//!                         | i await on a run-on-wake executor (the waker polls the future inline on the waking thread)
//!        Y<q>[body]<mode> future_sync     mode: a await | k<n> poll n times then drop
//!        A<q>e<e><mode>  after(event e) mode as for F
//!        U<q> suspend+await (resumer kept)   u<q> suspend, the future is only awaited when R / r needs the resumer   R resume   C<q> suspend+await and hand the resumer to whoever executes R<q>   R<q> resume object q's suspension from THIS caller (waits until the resumer has been handed over)   r drop the resumer
//!        E<e> fire event   O<g> open gate   X<q> drop this program's handle of object q
//!        I<q>k<k> pipe_in stream k into object q   J<q>k<k>d<d> pipe stream k through q (depth d, 0 = default); output kept by the caller
//!        c<k>-<k2> declares that the closure of the pipe reading stream k owns a closer of stream k2 (released closure => stream k2 ends)
//!        p<q> the caller panics while it owns this program's handle of object q (the object is dropped during the unwinding; real threads only)
//!        q<q>[body] sync through the program's last handle of object q, owned by the caller during the call (real threads, with a panicking job queued before)
//!        w<n> wait (no scheduling call) until at most n accepted operations are outstanding
//!        k<q> a job scheduled on object q drops the caller's output stream
//!        j<k>n<n> produce n GATED items (their processing waits until the consumer has received every earlier item)
//!        g<k>n<n> produce n SLOW items (their processing yields co-operatively once, holding the object across the yield)   G<k>n<n> produce n items on stream k   H<k> end stream k   N<n> consume n outputs (0 = until the end)   K drop the output stream
//!        Z<k> block until the pipe of stream k has released its input stream and closure
//!        L<n> yield n times (lets the other threads settle)
//!        Q<c> unpark caller c's thread (a stale wake-up token: park may always return spuriously)
//!        V<e> block until event e   W wait until every started panic has finished unwinding   P<q> every scheduling attempt on q must panic
//!        M<n> set the pool maximum to n at once (possibly while scheduling calls are in flight); when lowering, despawn_threads_if_overloaded must return
//!        m<n> wait until nothing is queued, running or busy, then set the maximum to n (a change 'between phases'): afterwards at most n pool threads
//!        B<n> a Desync<u64> (no drop glue) with n queued operations is dropped: the drop must wait for all of them
//! Body:  t touch | x wake the own waker and panic in the same poll (future bodies) | c yield co-operatively (wake the own waker, return Pending once) | o<e>-<e2> await event e or e2, whichever fires first (the other keeps a stale waker)
//!        | w<e> await event (future bodies) | a<e>-<e2> await event e and fire e2 once the waker is registered | g<g> block on gate | p panic | s<e> fire event | (op) nested op

#[derive(Clone, Debug, PartialEq)]
pub enum Mode { Detach, Await, SyncWait, PollDrop(usize), PollDropLate(usize, usize), Inline }

#[derive(Clone, Debug, PartialEq)]
pub enum Prim { Touch, AwaitEv(usize), AwaitEvSig(usize, usize), CoopYield, AwaitEither(usize, usize), WakePanic, Gate(usize), Panic, Signal(usize), Nested(Box<Op>) }

#[derive(Clone, Debug, PartialEq)]
pub enum Op {
    Desync(usize, Vec<Prim>),
    Sync(usize, Vec<Prim>),
    TrySync(usize, Vec<Prim>),
    FutDesync(usize, Vec<Prim>, Mode),
    FutSync(usize, Vec<Prim>, Mode),
    After(usize, usize, Mode),
    Suspend(usize),
    SuspendLazy(usize),
    SuspendHand(usize),
    Resume,
    ResumeShared(usize),
    DropResumer,
    Fire(usize),
    Open(usize),
    DropObj(usize),
    WaitEv(usize),
    AwaitUnwind,
    ExpectPanic(usize),
    PipeIn(usize, usize),
    Pipe(usize, usize, usize),
    Produce(usize, usize),
    ProduceSlow(usize, usize),
    /// `w<n>`: wait, without any scheduling call, until at most n accepted operations are still outstanding
    WaitPending(usize),
    /// `q<q>[body]`: sync through the program's LAST handle of object q, owned by the caller during the call: if the call unwinds
    /// (a job queued earlier panics while this caller drains the queue) the object is dropped by the unwinding thread
    SyncOwned(usize, Vec<Prim>),
    /// `p<q>`: the caller takes this program's handle of object q and panics while it owns it: the object is dropped by the unwinding thread
    PanicDrop(usize),
    /// `c<k>-<k2>`: declaration (no run-time effect of its own): the closure of the pipe that reads stream k owns a closer of stream k2 -
    /// when that closure is released, stream k2 ends (chained pipes)
    ChainClose(usize, usize),
    /// `k<q>`: a job scheduled on object q drops this caller's output stream (the stream is dropped from inside the object's own queue)
    DropStreamInJob(usize),
    /// `j<k>n<n>`: items whose processing waits until the consumer has received every earlier item of the stream
    ProduceGated(usize, usize),
    CloseStream(usize),
    Consume(usize),
    DropStream,
    AwaitRelease(usize),
    Noise(usize),
    Yield(usize),
    PlainDrop(usize),
    SetMax(usize),
    SetMaxQuiet(usize),
}

#[derive(Clone, Debug, PartialEq)]
pub struct Program { pub nq: usize, pub pool: usize, pub nev: usize, pub ngates: usize, pub callers: Vec<Vec<Op>> }
impl Program { pub fn nstreams(&self) -> usize { self.callers.iter().flatten().map(|o| match o { Op::PipeIn(_, k) | Op::Pipe(_, k, _) | Op::Produce(k, _) | Op::ProduceSlow(k, _) | Op::ProduceGated(k, _) | Op::CloseStream(k) | Op::AwaitRelease(k) => k + 1, Op::ChainClose(k, k2) => k.max(k2) + 1, _ => 0 }).max().unwrap_or(0) } }

impl Op {
    pub fn obj(&self) -> Option<usize> {
        match self {
            Op::SyncOwned(q, _) | Op::Desync(q, _) | Op::Sync(q, _) | Op::TrySync(q, _) | Op::FutDesync(q, _, _) | Op::FutSync(q, _, _) | Op::After(q, _, _) | Op::Suspend(q) | Op::SuspendLazy(q) | Op::SuspendHand(q) | Op::DropObj(q) | Op::ExpectPanic(q) | Op::PipeIn(q, _) | Op::Pipe(q, _, _) => Some(*q),
            _ => None
        }
    }
}

fn fmt_mode(m: &Mode) -> String {
    match m { Mode::Detach => "d".into(), Mode::Await => "a".into(), Mode::SyncWait => "s".into(), Mode::PollDrop(n) => format!("k{}", n), Mode::PollDropLate(n, m) => format!("k{}l{}", n, m), Mode::Inline => "i".into() }
}
fn fmt_body(b: &Vec<Prim>) -> String {
    let mut s = String::from("[");
    for p in b {
        match p {
            Prim::Touch => s.push('t'),
            Prim::AwaitEv(e) => s.push_str(&format!("w{}", e)),
            Prim::AwaitEvSig(e, e2) => s.push_str(&format!("a{}-{}", e, e2)),
            Prim::CoopYield => s.push('c'),
            Prim::WakePanic => s.push('x'),
            Prim::AwaitEither(e, e2) => s.push_str(&format!("o{}-{}", e, e2)),
            Prim::Gate(g) => s.push_str(&format!("g{}", g)),
            Prim::Panic => s.push('p'),
            Prim::Signal(e) => s.push_str(&format!("s{}", e)),
            Prim::Nested(o) => { s.push('('); s.push_str(&fmt_op(o)); s.push(')'); }
        }
    }
    s.push(']');
    s
}
pub fn fmt_op(o: &Op) -> String {
    match o {
        Op::Desync(q, b) => format!("D{}{}", q, fmt_body(b)),
        Op::Sync(q, b) => format!("S{}{}", q, fmt_body(b)),
        Op::SyncOwned(q, b) => format!("q{}{}", q, fmt_body(b)),
        Op::TrySync(q, b) => format!("T{}{}", q, fmt_body(b)),
        Op::FutDesync(q, b, m) => format!("F{}{}{}", q, fmt_body(b), fmt_mode(m)),
        Op::FutSync(q, b, m) => format!("Y{}{}{}", q, fmt_body(b), fmt_mode(m)),
        Op::After(q, e, m) => format!("A{}e{}{}", q, e, fmt_mode(m)),
        Op::Suspend(q) => format!("U{}", q),
        Op::SuspendLazy(q) => format!("u{}", q),
        Op::SuspendHand(q) => format!("C{}", q),
        Op::Resume => "R".into(),
        Op::ResumeShared(q) => format!("R{}", q),
        Op::DropResumer => "r".into(),
        Op::Fire(e) => format!("E{}", e),
        Op::Open(g) => format!("O{}", g),
        Op::DropObj(q) => format!("X{}", q),
        Op::WaitEv(e) => format!("V{}", e),
        Op::AwaitUnwind => "W".into(),
        Op::ExpectPanic(q) => format!("P{}", q),
        Op::PipeIn(q, k) => format!("I{}k{}", q, k),
        Op::Pipe(q, k, d) => format!("J{}k{}d{}", q, k, d),
        Op::Produce(k, n) => format!("G{}n{}", k, n),
        Op::ProduceSlow(k, n) => format!("g{}n{}", k, n),
        Op::ProduceGated(k, n) => format!("j{}n{}", k, n),
        Op::CloseStream(k) => format!("H{}", k),
        Op::Consume(n) => format!("N{}", n),
        Op::DropStream => "K".into(),
        Op::WaitPending(n) => format!("w{}", n),
        Op::PanicDrop(q) => format!("p{}", q),
        Op::ChainClose(k, k2) => format!("c{}-{}", k, k2),
        Op::DropStreamInJob(q) => format!("k{}", q),
        Op::AwaitRelease(k) => format!("Z{}", k),
        Op::Noise(c) => format!("Q{}", c),
        Op::Yield(n) => format!("L{}", n),
        Op::PlainDrop(n) => format!("B{}", n),
        Op::SetMax(n) => format!("M{}", n),
        Op::SetMaxQuiet(n) => format!("m{}", n),
    }
}
impl Program {
    pub fn text(&self) -> String {
        let mut s = format!("nq={} pool={} ev={} gates={}", self.nq, self.pool, self.nev, self.ngates);
        for c in &self.callers {
            s.push_str(" |");
            for o in c { s.push(' '); s.push_str(&fmt_op(o)); }
        }
        s
    }
    pub fn parse(text: &str) -> Result<Program, String> {
        let mut parts = text.split('|');
        let head = parts.next().ok_or("empty")?;
        let (mut nq, mut pool, mut nev, mut ngates) = (1, 0, 0, 0);
        for kv in head.split_whitespace() {
            let mut it = kv.split('=');
            let k = it.next().unwrap();
            let v: usize = it.next().ok_or("bad header")?.parse().map_err(|_| "bad number")?;
            match k { "nq" => nq = v, "pool" => pool = v, "ev" => nev = v, "gates" => ngates = v, _ => return Err(format!("bad key {}", k)) }
        }
        let mut callers = vec![];
        for p in parts {
            let mut ops = vec![];
            for tok in p.split_whitespace() {
                let cs: Vec<char> = tok.chars().collect();
                let mut i = 0;
                let op = parse_op(&cs, &mut i)?;
                if i != cs.len() { return Err(format!("trailing input in {}", tok)); }
                ops.push(op);
            }
            callers.push(ops);
        }
        Ok(Program { nq, pool, nev, ngates, callers })
    }
}
fn parse_num(cs: &[char], i: &mut usize) -> Result<usize, String> {
    let st = *i;
    while *i < cs.len() && cs[*i].is_ascii_digit() { *i += 1; }
    if st == *i { return Err("number expected".into()); }
    cs[st..*i].iter().collect::<String>().parse().map_err(|_| "bad number".to_string())
}
fn parse_mode(cs: &[char], i: &mut usize) -> Result<Mode, String> {
    if *i >= cs.len() { return Err("mode expected".into()); }
    let c = cs[*i]; *i += 1;
    match c { 'd' => Ok(Mode::Detach), 'a' => Ok(Mode::Await), 's' => Ok(Mode::SyncWait), 'k' => { let n = parse_num(cs, i)?; if *i < cs.len() && cs[*i] == 'l' { *i += 1; Ok(Mode::PollDropLate(n, parse_num(cs, i)?)) } else { Ok(Mode::PollDrop(n)) } } 'i' => Ok(Mode::Inline), _ => Err(format!("bad mode {}", c)) }
}
fn parse_body(cs: &[char], i: &mut usize) -> Result<Vec<Prim>, String> {
    if *i >= cs.len() || cs[*i] != '[' { return Err("[ expected".into()); }
    *i += 1;
    let mut b = vec![];
    loop {
        if *i >= cs.len() { return Err("] expected".into()); }
        let c = cs[*i]; *i += 1;
        match c {
            ']' => break,
            't' => b.push(Prim::Touch),
            'p' => b.push(Prim::Panic),
            's' => b.push(Prim::Signal(parse_num(cs, i)?)),
            'w' => b.push(Prim::AwaitEv(parse_num(cs, i)?)),
            'a' => { let e = parse_num(cs, i)?; expect_ch(cs, i, '-')?; b.push(Prim::AwaitEvSig(e, parse_num(cs, i)?)) }
            'g' => b.push(Prim::Gate(parse_num(cs, i)?)),
            'c' => b.push(Prim::CoopYield),
            'x' => b.push(Prim::WakePanic),
            'o' => { let e = parse_num(cs, i)?; expect_ch(cs, i, '-')?; b.push(Prim::AwaitEither(e, parse_num(cs, i)?)) }
            '(' => { let o = parse_op(cs, i)?; if *i >= cs.len() || cs[*i] != ')' { return Err(") expected".into()); } *i += 1; b.push(Prim::Nested(Box::new(o))); }
            _ => return Err(format!("bad prim {}", c))
        }
    }
    Ok(b)
}
fn expect_ch(cs: &[char], i: &mut usize, c: char) -> Result<(), String> { if *i < cs.len() && cs[*i] == c { *i += 1; Ok(()) } else { Err(format!("{} expected", c)) } }
fn parse_op(cs: &[char], i: &mut usize) -> Result<Op, String> {
    if *i >= cs.len() { return Err("op expected".into()); }
    let c = cs[*i]; *i += 1;
    Ok(match c {
        'D' => { let q = parse_num(cs, i)?; Op::Desync(q, parse_body(cs, i)?) }
        'S' => { let q = parse_num(cs, i)?; Op::Sync(q, parse_body(cs, i)?) }
        'q' => { let q = parse_num(cs, i)?; Op::SyncOwned(q, parse_body(cs, i)?) }
        'T' => { let q = parse_num(cs, i)?; Op::TrySync(q, parse_body(cs, i)?) }
        'F' => { let q = parse_num(cs, i)?; let b = parse_body(cs, i)?; Op::FutDesync(q, b, parse_mode(cs, i)?) }
        'Y' => { let q = parse_num(cs, i)?; let b = parse_body(cs, i)?; Op::FutSync(q, b, parse_mode(cs, i)?) }
        'A' => { let q = parse_num(cs, i)?; if *i >= cs.len() || cs[*i] != 'e' { return Err("e expected".into()); } *i += 1; let e = parse_num(cs, i)?; Op::After(q, e, parse_mode(cs, i)?) }
        'U' => Op::Suspend(parse_num(cs, i)?),
        'u' => Op::SuspendLazy(parse_num(cs, i)?),
        'C' => Op::SuspendHand(parse_num(cs, i)?),
        'R' => { if *i < cs.len() && cs[*i].is_ascii_digit() { Op::ResumeShared(parse_num(cs, i)?) } else { Op::Resume } }
        'r' => Op::DropResumer,
        'E' => Op::Fire(parse_num(cs, i)?),
        'O' => Op::Open(parse_num(cs, i)?),
        'X' => Op::DropObj(parse_num(cs, i)?),
        'V' => Op::WaitEv(parse_num(cs, i)?),
        'W' => Op::AwaitUnwind,
        'P' => Op::ExpectPanic(parse_num(cs, i)?),
        'I' => { let q = parse_num(cs, i)?; expect_ch(cs, i, 'k')?; Op::PipeIn(q, parse_num(cs, i)?) }
        'J' => { let q = parse_num(cs, i)?; expect_ch(cs, i, 'k')?; let k = parse_num(cs, i)?; expect_ch(cs, i, 'd')?; Op::Pipe(q, k, parse_num(cs, i)?) }
        'G' => { let k = parse_num(cs, i)?; expect_ch(cs, i, 'n')?; Op::Produce(k, parse_num(cs, i)?) }
        'g' => { let k = parse_num(cs, i)?; expect_ch(cs, i, 'n')?; Op::ProduceSlow(k, parse_num(cs, i)?) }
        'j' => { let k = parse_num(cs, i)?; expect_ch(cs, i, 'n')?; Op::ProduceGated(k, parse_num(cs, i)?) }
        'H' => Op::CloseStream(parse_num(cs, i)?),
        'N' => Op::Consume(parse_num(cs, i)?),
        'K' => Op::DropStream,
        'w' => Op::WaitPending(parse_num(cs, i)?),
        'p' => Op::PanicDrop(parse_num(cs, i)?),
        'c' => { let k = parse_num(cs, i)?; expect_ch(cs, i, '-')?; Op::ChainClose(k, parse_num(cs, i)?) }
        'k' => Op::DropStreamInJob(parse_num(cs, i)?),
        'Z' => Op::AwaitRelease(parse_num(cs, i)?),
        'Q' => Op::Noise(parse_num(cs, i)?),
        'L' => Op::Yield(parse_num(cs, i)?),
        'B' => Op::PlainDrop(parse_num(cs, i)?),
        'M' => Op::SetMax(parse_num(cs, i)?),
        'm' => Op::SetMaxQuiet(parse_num(cs, i)?),
        _ => return Err(format!("bad op {}", c))
    })
}

/// xorshift PRNG: every random choice of the harness derives from one of these
#[derive(Clone)]
pub struct Rng(pub u64);
impl Rng {
    pub fn new(seed: u64) -> Rng { let mut r = Rng(seed.wrapping_mul(0x9E3779B97F4A7C15) ^ 0xD1B54A32D192ED03); r.next(); r.next(); r }
    pub fn next(&mut self) -> u64 { let mut x = self.0; if x == 0 { x = 0x9E3779B97F4A7C15; } x ^= x << 13; x ^= x >> 7; x ^= x << 17; self.0 = x; x }
    pub fn below(&mut self, n: usize) -> usize { if n == 0 { 0 } else { (self.next() >> 11) as usize % n } }
    pub fn chance(&mut self, num: usize, den: usize) -> bool { self.below(den) < num }
}

/// Generation profile: which op kinds may appear (weights) and the size limits
#[derive(Clone, Debug)]
pub struct Profile {
    pub name: &'static str,
    pub nq: (usize, usize), pub callers: (usize, usize), pub ops: (usize, usize), pub pool: (usize, usize),
    pub w_desync: usize, pub w_sync: usize, pub w_try: usize, pub w_fd: usize, pub w_fs: usize, pub w_after: usize, pub w_suspend: usize,
    pub w_drop: usize, pub nested: usize /* percent of bodies with a nested op */, pub awaits: usize /* percent of future bodies with an await */,
    pub gates: usize /* number of gated objects */, pub poll_drop: usize /* percent of futures dropped after k polls */,
}

pub const P_CORE: Profile = Profile { name: "core", nq: (1, 3), callers: (1, 4), ops: (1, 5), pool: (0, 3),
    w_desync: 5, w_sync: 4, w_try: 2, w_fd: 0, w_fs: 0, w_after: 0, w_suspend: 0, w_drop: 0, nested: 10, awaits: 0, gates: 0, poll_drop: 0 };
pub const P_POOL: Profile = Profile { name: "pool", nq: (2, 3), callers: (2, 4), ops: (1, 4), pool: (1, 3),
    w_desync: 8, w_sync: 2, w_try: 1, w_fd: 0, w_fs: 0, w_after: 0, w_suspend: 0, w_drop: 0, nested: 15, awaits: 0, gates: 0, poll_drop: 0 };
pub const P_SYNC: Profile = Profile { name: "sync", nq: (1, 2), callers: (2, 4), ops: (1, 4), pool: (0, 3),
    w_desync: 3, w_sync: 8, w_try: 1, w_fd: 0, w_fs: 0, w_after: 0, w_suspend: 0, w_drop: 0, nested: 20, awaits: 0, gates: 0, poll_drop: 0 };
pub const P_TRY: Profile = Profile { name: "try", nq: (1, 2), callers: (2, 4), ops: (1, 5), pool: (0, 3),
    w_desync: 4, w_sync: 3, w_try: 6, w_fd: 0, w_fs: 0, w_after: 0, w_suspend: 0, w_drop: 0, nested: 5, awaits: 0, gates: 0, poll_drop: 0 };
pub const P_FUT: Profile = Profile { name: "fut", nq: (1, 2), callers: (1, 3), ops: (1, 4), pool: (0, 3),
    w_desync: 3, w_sync: 3, w_try: 1, w_fd: 6, w_fs: 0, w_after: 2, w_suspend: 0, w_drop: 0, nested: 5, awaits: 50, gates: 0, poll_drop: 20 };
pub const P_FSYNC: Profile = Profile { name: "fsync", nq: (1, 2), callers: (1, 3), ops: (1, 4), pool: (1, 3),
    w_desync: 3, w_sync: 2, w_try: 1, w_fd: 2, w_fs: 6, w_after: 0, w_suspend: 0, w_drop: 0, nested: 5, awaits: 50, gates: 0, poll_drop: 40 };
pub const P_SUSP: Profile = Profile { name: "susp", nq: (1, 2), callers: (2, 3), ops: (1, 4), pool: (0, 3),
    w_desync: 4, w_sync: 3, w_try: 1, w_fd: 1, w_fs: 0, w_after: 0, w_suspend: 3, w_drop: 0, nested: 0, awaits: 20, gates: 0, poll_drop: 0 };
pub const P_DROP: Profile = Profile { name: "drop", nq: (1, 3), callers: (1, 3), ops: (1, 5), pool: (0, 3),
    w_desync: 5, w_sync: 2, w_try: 1, w_fd: 3, w_fs: 0, w_after: 0, w_suspend: 0, w_drop: 3, nested: 25, awaits: 30, gates: 0, poll_drop: 0 };
pub const P_GATE: Profile = Profile { name: "gate", nq: (2, 3), callers: (2, 3), ops: (1, 3), pool: (2, 3),
    w_desync: 6, w_sync: 2, w_try: 0, w_fd: 1, w_fs: 0, w_after: 0, w_suspend: 0, w_drop: 0, nested: 0, awaits: 0, gates: 1, poll_drop: 0 };

/// Panic scenarios (C15): object 0 panics in a chosen runner context; afterwards every attempt on it must fail loudly and
/// the healthy objects 1.. must stay fully usable. Ordering constraints are scripted with events, fine interleaving is left open.
pub fn generate_panic(r: &mut Rng) -> Program {
    // contexts 5 and 6: the operation that panics is the future of a future_sync, which runs on the task polling the returned future
    let ctx7 = r.below(10);
    let ctxk = if ctx7 >= 5 { ctx7 - 5 + 10 } else { ctx7 };
    let pool = 1 + r.below(3);
    // context 4 parks EVERY pool thread on a gate, one gated job per object (objects 1..=pool), so that only callers can run object 0
    let (h0, nq) = if ctxk == 4 { (pool + 1, pool + 3) } else { (1, 3) };
    let healthy = |r: &mut Rng, n: usize| -> Vec<Op> {
        (0..n).map(|_| { let q = h0 + r.below(2); match r.below(4) { 0 => Op::Sync(q, vec![Prim::Touch]), 1 => Op::TrySync(q, vec![Prim::Touch]), 2 => Op::FutDesync(q, vec![Prim::Touch], Mode::Await), _ => Op::Desync(q, vec![Prim::Touch]) } }).collect()
    };
    let mut c0: Vec<Op> = vec![];
    let mut others: Vec<Vec<Op>> = vec![];
    let (mut nev, mut ngates) = (0, 0);
    match ctxk {
        0 => { c0.push(Op::Desync(0, vec![Prim::Touch, Prim::Panic])); }                                  // pool thread
        1 => { c0.push(Op::Sync(0, vec![Prim::Touch, Prim::Panic])); }                                    // sync caller, immediate
        2 => { c0.push(Op::FutDesync(0, vec![Prim::Touch, Prim::Panic], Mode::Await)); }                  // polling task or pool thread
        3 => { c0.push(Op::FutDesync(0, vec![Prim::Touch, Prim::AwaitEv(0), Prim::Panic], Mode::Detach)); c0.push(Op::Fire(0)); nev = 1; }  // after a suspension
        10 => { c0.push(Op::FutSync(0, vec![Prim::Touch, Prim::Panic], Mode::Await)); }                   // future_sync: its future panics at once, on the polling task
        11 => { c0.push(Op::FutSync(0, vec![Prim::Touch, Prim::AwaitEv(0), Prim::Touch, Prim::Panic], Mode::Await)); nev = 1; others.push(vec![Op::Yield(5), Op::Fire(0)]); }  // ... after a suspension
        12 => { c0.push(Op::FutDesync(0, vec![Prim::Touch, Prim::WakePanic], if r.chance(1, 2) { Mode::Detach } else { Mode::Await })); }    // woken during the very poll in which it panics
        13 => { c0.push(Op::FutDesync(0, vec![Prim::Touch, Prim::CoopYield, Prim::WakePanic], Mode::Detach)); c0.push(Op::Sync(0, vec![Prim::Touch])); }   // ... polled by a sync caller
        14 => {     // other threads hammer the object with try_sync while the panic unwinds (they hold its queue lock again and again)
            c0.push(Op::Desync(0, vec![Prim::Touch, Prim::Touch, Prim::Panic]));
            for _ in 0..3 { others.push((0..40).map(|_| Op::TrySync(0, vec![])).collect()); }
        }
        _ => {
            // drain / steal: a sync caller holds object 0 while the panicking job is queued behind it; a second sync caller arrives
            // after that and is the one that runs it (by draining a Pending queue, or by stealing it when it is notified)
            ngates = pool + 1; nev = 3 + pool;
            for g in 0..pool { c0.push(Op::Desync(1 + g, vec![Prim::Touch, Prim::Signal(3 + g), Prim::Gate(g)])); }
            for g in 0..pool { c0.push(Op::WaitEv(3 + g)); }                  // every pool thread is now inside its gated job
            c0.push(Op::WaitEv(1)); c0.push(Op::Desync(0, vec![Prim::Touch, Prim::Panic])); c0.push(Op::Fire(2)); c0.push(Op::Open(pool));
            others.push(vec![Op::Sync(0, vec![Prim::Touch, Prim::Signal(1), Prim::Gate(pool)])]);
            others.push(vec![Op::WaitEv(2), Op::Sync(0, vec![Prim::Touch])]);
        }
    }
    c0.push(Op::AwaitUnwind);
    c0.push(Op::ExpectPanic(0));
    if ctxk == 4 { for g in 0..pool { c0.push(Op::Open(g)); } }
    let n1 = 2 + r.below(3); let h = healthy(r, n1); c0.extend(h);
    let mut callers = vec![c0];
    callers.extend(others);
    let mut hc = vec![Op::AwaitUnwind]; let n2 = 1 + r.below(3); hc.extend(healthy(r, n2));
    if ctxk != 4 { callers.push(hc); }
    Program { nq, pool, nev, ngates, callers }
}

/// pipe_in scenarios (C11): one stream into object 0, a producer thread with an arrival pattern, concurrent operations on the
/// same object, optionally the last owner dropped mid-stream (the stream ends afterwards, which is the 'first stream event')
pub fn generate_pipein(r: &mut Rng) -> Program {
    let pool = 1 + r.below(3);
    let drop_mid = r.chance(1, 4);
    let mut c0 = vec![Op::PipeIn(0, 0)];
    let mut prod = vec![];
    let bursts = 1 + r.below(3);
    for _ in 0..bursts { let n = if r.chance(1, 6) { 33 + r.below(40) } else { r.below(4) }; prod.push(Op::Produce(0, n)); if r.chance(1, 3) { prod.push(Op::Desync(1, vec![Prim::Touch])); } }
    let mut conc = vec![];
    for _ in 0..r.below(4) { conc.push(match r.below(3) { 0 => Op::Sync(0, vec![Prim::Touch]), 1 => Op::TrySync(0, vec![Prim::Touch]), _ => Op::Desync(0, vec![Prim::Touch]) }); }
    if drop_mid { c0.push(Op::Produce(0, 1)); c0.push(Op::DropObj(0)); }
    if r.chance(1, 2) { c0.push(Op::Sync(1, vec![Prim::Touch])); }
    prod.push(Op::CloseStream(0));
    c0.push(Op::AwaitRelease(0));
    Program { nq: 2, pool, nev: 0, ngates: 0, callers: vec![c0, prod, conc] }
}

/// pipe scenarios (C12, C16): stream 0 through object 0 with a buffer depth, a producer thread, the consumer reading to the end
/// or dropping the output stream at some point with the input staying silent afterwards
pub fn generate_pipe(r: &mut Rng, drop_stream: bool) -> Program {
    let pool = 1 + r.below(3);
    let depth = if r.chance(1, 3) { 0 } else { 1 + r.below(5) };
    let mut prod = vec![];
    let total: usize;
    let mut nev_local = 0;
    let depth = if drop_stream && r.chance(1, 2) { 1 + r.below(2) } else { depth };
    let mut c0 = vec![Op::Pipe(0, 0, depth)];
    if drop_stream {
        // half of the drop scenarios throttle the producer first: more items than the buffer takes
        let throttle = depth >= 1 && depth <= 2;
        let a = if throttle { depth + 1 + r.below(3) } else { r.below(4) }; total = a;
        // (the buffer test is made when a poll job STARTS: fill the buffer with one burst, let that job go idle, then send more)
        if throttle { prod.push(Op::Produce(0, depth)); prod.push(Op::Yield(20 + r.below(20))); prod.push(Op::Produce(0, a - depth)); } else { prod.push(Op::Produce(0, a)); }
        if throttle {
            // let the producer fill the buffer and go to sleep on back-pressure before the drop (usually)
            nev_local = 1; prod.push(Op::Fire(0)); c0.push(Op::WaitEv(0)); c0.push(Op::Yield(30 + r.below(30)));
            if r.chance(1, 2) { c0.push(Op::Consume(1)); c0.push(Op::Yield(30 + r.below(30))); }
        } else if a > 0 && r.chance(1, 2) { c0.push(Op::Consume(1 + r.below(a))); }
        c0.push(Op::DropStream);
        c0.push(Op::AwaitRelease(0));
    } else {
        let bursts = 1 + r.below(3); let mut t = 0;
        for _ in 0..bursts { let n = r.below(5); t += n; prod.push(Op::Produce(0, n)); if r.chance(1, 3) { prod.push(Op::Desync(1, vec![Prim::Touch])); } }
        total = t;
        prod.push(Op::CloseStream(0));
        c0.push(Op::Consume(0));
        c0.push(Op::AwaitRelease(0));
    }
    let _ = total;
    let mut conc = vec![];
    for _ in 0..r.below(3) { conc.push(match r.below(2) { 0 => Op::Sync(0, vec![Prim::Touch]), _ => Op::Desync(0, vec![Prim::Touch]) }); }
    Program { nq: 2, pool, nev: nev_local, ngates: 0, callers: vec![c0, prod, conc] }
}

pub fn profile(name: &str) -> Option<Profile> {
    [P_CORE, P_POOL, P_SYNC, P_TRY, P_FUT, P_FSYNC, P_SUSP, P_DROP, P_GATE].into_iter().find(|p| p.name == name)
}

/// pool-size scenarios (C17): a desync-heavy program with nested scheduling from inside jobs; caller 0 changes the maximum between
/// (and during) bursts of work - lowering it while the threads to be despawned are still busy and scheduling work themselves
pub const P_POOLCHG: Profile = Profile { name: "poolchg", nq: (2, 3), callers: (1, 2), ops: (2, 5), pool: (0, 3),
    w_desync: 8, w_sync: 2, w_try: 1, w_fd: 0, w_fs: 0, w_after: 0, w_suspend: 0, w_drop: 0, nested: 30, awaits: 0, gates: 0, poll_drop: 0 };
pub fn generate_poolchg(r: &mut Rng) -> Program {
    let mut p = generate(&P_POOLCHG, r);
    let n = 1 + r.below(3);
    let single = p.callers.len() == 1;
    for _ in 0..n { let at = r.below(p.callers[0].len() + 1); let v = r.below(4); p.callers[0].insert(at, if single && r.chance(1, 2) { Op::SetMaxQuiet(v) } else { Op::SetMax(v) }); }
    // longer jobs, so that a despawn meets busy threads
    for c in p.callers.iter_mut() { for o in c.iter_mut() { if let Op::Desync(_, b) = o { if r.chance(1, 2) { b.push(Prim::Touch); b.push(Prim::Touch); } } } }
    p
}

fn range(r: &mut Rng, (lo, hi): (usize, usize)) -> usize { lo + r.below(hi - lo + 1) }

/// Generates a mostly-valid structured program. Nested ops only go to higher-numbered objects (a fixed order, no cycles);
/// awaited events are fired by some caller that cannot itself be blocked by the awaiting operation.
pub fn generate(p: &Profile, r: &mut Rng) -> Program {
    let nq = range(r, p.nq);
    let mut ncallers = range(r, p.callers);
    let mut pool = range(r, p.pool);
    // with no pool thread a future only makes progress while no other context uses its object (C07): one context then
    if pool == 0 && p.w_fd + p.w_fs + p.w_after + p.w_suspend > 0 { ncallers = 1; }
    let mut nev = 0;
    let mut callers: Vec<Vec<Op>> = vec![];
    let total = p.w_desync + p.w_sync + p.w_try + p.w_fd + p.w_fs + p.w_after + p.w_suspend + p.w_drop;
    // gated objects: objects 0..gates get one gated desync each, issued by caller 0 first; the opener runs last in caller 0
    let ngates = p.gates.min(nq.saturating_sub(1));
    if ngates > 0 && pool <= ngates { pool = ngates + 1; }
    let mut fires: Vec<usize> = vec![];
    let mut shared_resume: Option<usize> = None;
    for c in 0..ncallers {
        let nops = range(r, p.ops);
        let mut ops = vec![];
        let mut has_resumer = false;
        if c == 0 { for g in 0..ngates { ops.push(Op::Desync(g, vec![Prim::Touch, Prim::Gate(g)])); } }
        for _ in 0..nops {
            let q = if ngates > 0 { ngates + r.below(nq - ngates) } else { r.below(nq) };
            let mut k = r.below(total.max(1));
            let mut body = |r: &mut Rng, fut: bool, nev: &mut usize, fires: &mut Vec<usize>| -> Vec<Prim> {
                let mut b = vec![Prim::Touch];
                if fut && r.chance(1, 8) { b.push(Prim::CoopYield); b.push(Prim::Touch); }
                if fut && r.chance(p.awaits, 100) {
                    // one in five awaits is select-like: two events, the one that fires second calls a stale waker
                    if r.chance(1, 5) { b.push(Prim::AwaitEither(*nev, *nev + 1)); fires.push(*nev); fires.push(*nev + 1); *nev += 2; }
                    else { b.push(Prim::AwaitEv(*nev)); fires.push(*nev); *nev += 1; }
                    b.push(Prim::Touch);
                }
                if q + 1 < nq && r.chance(p.nested, 100) {
                    let q2 = q + 1 + r.below(nq - q - 1);
                    let inner = match r.below(3) { 0 => Op::Sync(q2, vec![Prim::Touch]), 1 => Op::TrySync(q2, vec![Prim::Touch]), _ => Op::Desync(q2, vec![Prim::Touch]) };
                    b.push(Prim::Nested(Box::new(inner)));
                }
                b
            };
            let fmode = |r: &mut Rng| -> Mode {
                // a future that is polled (so that it runs the queue itself) and then dropped leaves the queue to the pool: with no
                // pool thread nobody may ever run it again, which C07 excludes ("given at least one pool thread")
                if pool >= 1 && r.chance(p.poll_drop, 100) { let n = r.below(3); if r.chance(1, 3) { Mode::PollDropLate(n, 2 + r.below(8)) } else { Mode::PollDrop(n) } }
                else { match r.below(if pool >= 1 { 5 } else { 4 }) { 0 => Mode::Detach, 1 => Mode::SyncWait, 4 => Mode::Inline, _ => Mode::Await } }
            };
            let op;
            if k < p.w_desync { op = Op::Desync(q, body(r, false, &mut nev, &mut fires)); }
            else { k -= p.w_desync;
            if k < p.w_sync { op = Op::Sync(q, body(r, false, &mut nev, &mut fires)); }
            else { k -= p.w_sync;
            if k < p.w_try { op = Op::TrySync(q, body(r, false, &mut nev, &mut fires)); }
            else { k -= p.w_try;
            if k < p.w_fd { let b = body(r, true, &mut nev, &mut fires); op = Op::FutDesync(q, b, fmode(r)); }
            else { k -= p.w_fd;
            if k < p.w_fs { let b = body(r, true, &mut nev, &mut fires); let m = if r.chance(p.poll_drop, 100) { let n = r.below(4); if r.chance(1, 3) { Mode::PollDropLate(n, 2 + r.below(8)) } else { Mode::PollDrop(n) } } else { Mode::Await }; op = Op::FutSync(q, b, m); }
            else { k -= p.w_fs;
            if k < p.w_after { let e = nev; nev += 1; fires.push(e); op = Op::After(q, e, fmode(r)); }
            else { k -= p.w_after;
            if k < p.w_suspend { if has_resumer { op = Op::Resume; has_resumer = false; } else { op = if r.chance(1, 3) { Op::SuspendLazy(q) } else { Op::Suspend(q) }; has_resumer = true; } }
            else { op = Op::DropObj(q); } } } } } } }
            let op = if has_resumer && !matches!(op, Op::Suspend(_) | Op::SuspendLazy(_) | Op::SuspendHand(_)) { match op { Op::Sync(q, b) => Op::Desync(q, b), Op::FutDesync(q, b, _) => Op::FutDesync(q, b, Mode::Detach), o => o } } else { op };
            ops.push(op);
        }
        // now and then the resumer is handed to another thread, which resumes the queue (at most once per program)
        if has_resumer && shared_resume.is_none() && r.chance(1, 3) {
            if let Some(ix) = ops.iter().rposition(|o| matches!(o, Op::Suspend(_) | Op::SuspendLazy(_))) {
                let q = ops[ix].obj().unwrap();
                ops[ix] = Op::SuspendHand(q);
                shared_resume = Some(q); has_resumer = false;
            }
        }
        if has_resumer { ops.push(if r.chance(1, 2) { Op::Resume } else { Op::DropResumer }); }
        if c == 0 { for g in 0..ngates { ops.push(Op::Open(g)); } }
        callers.push(ops);
    }
    // now and then a second kind of object: a value without drop glue dropped with work queued (its drop must wait all the same)
    if p.w_drop > 0 && r.chance(1, 4) { let c = r.below(callers.len()); let at = r.below(callers[c].len() + 1); callers[c].insert(at, Op::PlainDrop(1 + r.below(4))); }
    if let Some(q) = shared_resume { callers.push(vec![Op::Yield(1 + r.below(30)), Op::ResumeShared(q)]); }
    // Events are fired by a dedicated extra caller so that a caller awaiting a future is never the one that must fire it
    if !fires.is_empty() {
        let mut f: Vec<Op> = fires.iter().map(|e| Op::Fire(*e)).collect();
        // shuffle
        for i in (1..f.len()).rev() { let j = r.below(i + 1); f.swap(i, j); }
        // now and then the firing caller takes its time, so that operations are suspended (their wakers registered) when an event fires
        if r.chance(1, 2) { let mut g = vec![]; for o in f { if r.chance(1, 2) { g.push(Op::Yield(1 + r.below(25))); } g.push(o); } f = g; }
        callers.push(f);
    }
    // stale unpark tokens: a thread's park() may return at any time, so every parking loop must re-check its condition
    if p.w_fd + p.w_fs + p.w_after + p.w_suspend > 0 && r.chance(1, 3) {
        let n = callers.len();
        let noise: Vec<Op> = (0..1 + r.below(3)).map(|_| Op::Noise(r.below(n))).collect();
        callers.push(noise);
    }
    Program { nq, pool, nev, ngates, callers }
}
